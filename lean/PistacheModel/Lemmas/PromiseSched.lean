/-
Scheduling invariant of the promise machine: every continuation attached to a settled core has been told of the
outcome or is scheduled to be (a `resolveReq` / `rejectReq` frame for it is on the stack).  At quiescence (empty
stack) every continuation of a fulfilled promise has therefore run.
-/
import PistacheModel.Lemmas.PromiseDataProgram

namespace Pistache.Promise

variable {roots prog : List Nat}

def SchedOK (cs : List Core) (stack : List Act) : Prop :=
  ∀ c i r, rq cs c i = some r →
    (Fulfilled cs c → 1 ≤ r.rc ∨ Act.resolveReq c i ∈ stack) ∧ (Rejected cs c → 1 ≤ r.jc ∨ Act.rejectReq c i ∈ stack)

theorem sched_mono_stack {cs : List Core} {st st' : List Act} (hsub : ∀ a ∈ st, a ∈ st') (h : SchedOK cs st) : SchedOK cs st' := by
  intro c i r hr
  obtain ⟨h1, h2⟩ := h c i r hr
  exact ⟨fun hf => (h1 hf).imp id (hsub _), fun hf => (h2 hf).imp id (hsub _)⟩

/-- a counter bump: the request (c,i) is now spent in that direction; every other obligation stays as it is.
    `st` is the stack after popping the frame that caused the bump. -/
theorem sched_reqUpd {cs cs' : List Core} {c i : Nat} {r r' : Req} {st : List Act} (u : ReqUpd cs cs' c i r r')
    (hk : r'.kind = r.kind) (hch : r'.chain = r.chain) (hrc : r.rc ≤ r'.rc) (hjc : r.jc ≤ r'.jc)
    (h : ∀ c' i' x, rq cs c' i' = some x → ¬ (c' = c ∧ i' = i) →
      (Fulfilled cs c' → 1 ≤ x.rc ∨ Act.resolveReq c' i' ∈ st) ∧ (Rejected cs c' → 1 ≤ x.jc ∨ Act.rejectReq c' i' ∈ st))
    (hself : (Fulfilled cs c → 1 ≤ r'.rc ∨ Act.resolveReq c i ∈ st) ∧ (Rejected cs c → 1 ≤ r'.jc ∨ Act.rejectReq c i ∈ st)) :
    SchedOK cs' st := by
  intro c' i' x hx
  obtain ⟨y, hy, _, _, _, _, hne, heq⟩ := u.back hk hch hrc hjc hx
  by_cases hpos : c' = c ∧ i' = i
  · obtain ⟨hx', _⟩ := heq hpos
    obtain ⟨rfl, rfl⟩ := hpos
    subst hx'
    exact ⟨fun hf => hself.1 (fulfilled_of_st (u.st _).symm hf), fun hf => hself.2 (rejected_of_st (u.st _).symm hf)⟩
  · have := hne hpos; subst this
    obtain ⟨h1, h2⟩ := h c' i' y hy hpos
    exact ⟨fun hf => h1 (fulfilled_of_st (u.st _).symm hf), fun hf => h2 (rejected_of_st (u.st _).symm hf)⟩

theorem mem_walk (mk : Nat → Nat → Act) (c n j : Nat) (h : j < n) : mk c j ∈ walk mk c n := by
  unfold walk; exact List.mem_map.mpr ⟨j, List.mem_range.mpr h, rfl⟩

/-- a pending core is settled and the walk over its requests is scheduled -/
theorem sched_fulfilAndWalk (m : M) (d : Nat) (v : Int) (hp : Pending m.cores d) (h : SchedOK m.cores m.stack) :
    SchedOK (fulfilAndWalk m d v).cores (fulfilAndWalk m d v).stack := by
  by_cases hd : d < m.cores.length
  · have u := stUpd_set m.cores d (.fulfilled v) hd
    intro c i r hr
    have hr' : rq m.cores c i = some r := by rw [← u.rqs]; exact hr
    by_cases hc : c = d
    · subst hc
      have hi : i < (m.core c).reqs.length := by
        have : (m.cores.getD c {}).reqs[i]? = some r := hr'
        exact (List.getElem?_eq_some_iff.mp this).1
      refine ⟨fun _ => Or.inr (List.mem_append_left _ (mem_walk Act.resolveReq c _ i hi)), fun hrj => ?_⟩
      obtain ⟨e, he⟩ := hrj
      have hnew : stOf (fulfilAndWalk m c v).cores c = .fulfilled v := u.new
      rw [hnew] at he; cases he
    · obtain ⟨h1, h2⟩ := h c i r hr'
      refine ⟨fun hf => ?_, fun hf => ?_⟩
      · exact (h1 (fulfilled_of_st (u.other c hc).symm hf)).imp id (fun hm => List.mem_append_right _ hm)
      · exact (h2 (rejected_of_st (u.other c hc).symm hf)).imp id (fun hm => List.mem_append_right _ hm)
  · have hset : (fulfilAndWalk m d v).cores = m.cores := List.set_eq_of_length_le (by omega)
    rw [hset]
    exact sched_mono_stack (fun a ha => List.mem_append_right _ ha) h

theorem sched_rejectAndWalk (m : M) (d : Nat) (e : Nat) (hp : Pending m.cores d) (h : SchedOK m.cores m.stack) :
    SchedOK (rejectAndWalk m d e).cores (rejectAndWalk m d e).stack := by
  by_cases hd : d < m.cores.length
  · have u := stUpd_set m.cores d (.rejected e) hd
    intro c i r hr
    have hr' : rq m.cores c i = some r := by rw [← u.rqs]; exact hr
    by_cases hc : c = d
    · subst hc
      have hi : i < (m.core c).reqs.length := by
        have : (m.cores.getD c {}).reqs[i]? = some r := hr'
        exact (List.getElem?_eq_some_iff.mp this).1
      refine ⟨fun hf => ?_, fun _ => Or.inr (List.mem_append_left _ (mem_walk Act.rejectReq c _ i hi))⟩
      obtain ⟨v, hv⟩ := hf
      have hnew : stOf (rejectAndWalk m c e).cores c = .rejected e := u.new
      rw [hnew] at hv; cases hv
    · obtain ⟨h1, h2⟩ := h c i r hr'
      refine ⟨fun hf => ?_, fun hf => ?_⟩
      · exact (h1 (fulfilled_of_st (u.other c hc).symm hf)).imp id (fun hm => List.mem_append_right _ hm)
      · exact (h2 (rejected_of_st (u.other c hc).symm hf)).imp id (fun hm => List.mem_append_right _ hm)
  · have hset : (rejectAndWalk m d e).cores = m.cores := List.set_eq_of_length_le (by omega)
    rw [hset]
    exact sched_mono_stack (fun a ha => List.mem_append_right _ ha) h

/-- attaching a fresh request: it is scheduled at once when the core is settled -/
theorem sched_thenOn (m : M) (p : Nat) (r : Req) (h : SchedOK m.cores m.stack) : SchedOK (thenOn m p r).cores (thenOn m p r).stack := by
  have hsub : ∀ a ∈ m.stack, a ∈ (thenOn m p r).stack := by
    intro a ha; unfold thenOn; simp only []; split
    · exact ha
    · exact List.mem_cons_of_mem _ ha
    · exact List.mem_cons_of_mem _ ha
  rw [thenOn_cores]
  by_cases hp : p < m.cores.length
  · have u := appUpd_set m.cores p r hp
    intro c i x hx
    rcases u.back hx with ⟨rfl, rfl, rfl⟩ | hx'
    · -- the new request
      refine ⟨fun hf => Or.inr ?_, fun hf => Or.inr ?_⟩
      · obtain ⟨v, hv⟩ := fulfilled_of_st (u.st c).symm hf
        have hst : (m.core c).st = .fulfilled v := hv
        unfold thenOn; simp only [hst]; exact List.mem_cons_self
      · obtain ⟨e, he⟩ := rejected_of_st (u.st c).symm hf
        have hst : (m.core c).st = .rejected e := he
        unfold thenOn; simp only [hst]; exact List.mem_cons_self
    · obtain ⟨h1, h2⟩ := h c i x hx'
      exact ⟨fun hf => (h1 (fulfilled_of_st (u.st c).symm hf)).imp id (hsub _), fun hf => (h2 (rejected_of_st (u.st c).symm hf)).imp id (hsub _)⟩
  · rw [List.set_eq_of_length_le (by omega)]
    exact sched_mono_stack hsub h

theorem sched_resolverOn (m : M) (t : Nat) (v : Int) (hp : Pending m.cores t) (h : SchedOK m.cores m.stack) :
    SchedOK (resolverOn m t v).cores (resolverOn m t v).stack := by
  rw [resolverOn_pending m t v hp]; exact sched_fulfilAndWalk m t v hp h

theorem sched_rejectionOn (m : M) (t : Nat) (e : Nat) (hp : Pending m.cores t) (h : SchedOK m.cores m.stack) :
    SchedOK (rejectionOn m t e).cores (rejectionOn m t e).stack := by
  rw [rejectionOn_pending m t e hp]; exact sched_rejectAndWalk m t e hp h

theorem sched_others_resolve {cs : List Core} {st : List Act} {c i : Nat} (h : SchedOK cs (.resolveReq c i :: st)) :
    ∀ c' i' x, rq cs c' i' = some x → ¬ (c' = c ∧ i' = i) →
      (Fulfilled cs c' → 1 ≤ x.rc ∨ Act.resolveReq c' i' ∈ st) ∧ (Rejected cs c' → 1 ≤ x.jc ∨ Act.rejectReq c' i' ∈ st) := by
  intro c' i' x hx hne
  obtain ⟨h1, h2⟩ := h c' i' x hx
  refine ⟨fun hf => (h1 hf).imp id ?_, fun hf => (h2 hf).imp id ?_⟩
  · intro hm
    rcases List.mem_cons.mp hm with e | hm
    · cases e; exact absurd ⟨rfl, rfl⟩ hne
    · exact hm
  · intro hm
    rcases List.mem_cons.mp hm with e | hm
    · cases e
    · exact hm

theorem sched_others_reject {cs : List Core} {st : List Act} {c i : Nat} (h : SchedOK cs (.rejectReq c i :: st)) :
    ∀ c' i' x, rq cs c' i' = some x → ¬ (c' = c ∧ i' = i) →
      (Fulfilled cs c' → 1 ≤ x.rc ∨ Act.resolveReq c' i' ∈ st) ∧ (Rejected cs c' → 1 ≤ x.jc ∨ Act.rejectReq c' i' ∈ st) := by
  intro c' i' x hx hne
  obtain ⟨h1, h2⟩ := h c' i' x hx
  refine ⟨fun hf => (h1 hf).imp id ?_, fun hf => (h2 hf).imp id ?_⟩
  · intro hm
    rcases List.mem_cons.mp hm with e | hm
    · cases e
    · exact hm
  · intro hm
    rcases List.mem_cons.mp hm with e | hm
    · cases e; exact absurd ⟨rfl, rfl⟩ hne
    · exact hm

theorem sched_congr {cs cs' : List Core} {st st' : List Act} (hc : cs' = cs) (hs : st' = st) (h : SchedOK cs st) : SchedOK cs' st' := by
  subst hc; subst hs; exact h

theorem sched_stepResolve (m : M) (c i : Nat) (o : Own roots m) (d : DataOK roots prog m) (hf : Fulfilled m.cores c)
    (h : SchedOK m.cores (.resolveReq c i :: m.stack)) : SchedOK (stepResolve m c i).cores (stepResolve m c i).stack := by
  have hothers := sched_others_resolve h
  unfold stepResolve
  simp only
  split
  · rename_i hnone
    intro c' i' x hx
    have hne : ¬ (c' = c ∧ i' = i) := by
      rintro ⟨rfl, rfl⟩
      have : rq m.cores c' i' = none := hnone
      rw [this] at hx; cases hx
    exact hothers c' i' x hx hne
  · rename_i r hget
    have hget : rq m.cores c i = some r := hget
    split
    · rename_i hrc
      intro c' i' x hx
      by_cases hpos : c' = c ∧ i' = i
      · obtain ⟨rfl, rfl⟩ := hpos
        rw [hget] at hx; cases hx
        exact ⟨fun _ => Or.inl hrc, fun hr => absurd hr (fun hr => fulfilled_not_rejOK hf (Or.inl hr))⟩
      · exact hothers c' i' x hx hpos
    · rename_i hrc'
      have hrc : r.rc = 0 := by omega
      have hnoj : r.settler = true → ¬ 1 ≤ r.jc := fun hs hj => fulfilled_not_rejOK hf (o.c.jcOK c i r hget hs hj)
      generalize (m.core c).st.val = arg
      obtain ⟨r', hr'⟩ : ∃ r', r' = ({ r with rc := r.rc + 1 } : Req) := ⟨_, rfl⟩
      have hk' : r'.kind = r.kind := by rw [hr']
      have hch' : r'.chain = r.chain := by rw [hr']
      have hrc1 : r'.rc = r.rc + 1 := by rw [hr']
      have hjc' : r'.jc = r.jc := by rw [hr']
      rw [← hr']
      clear hr'
      have u := reqUpd_setReq m.cores c i r r' hget
      have s1 : SchedOK (m.setCore c (setReq (m.core c) i r')).cores m.stack :=
        sched_reqUpd u hk' hch' (by omega) (by omega) hothers
          ⟨fun _ => Or.inl (by omega), fun hr => absurd hr (fun hr => fulfilled_not_rejOK hf (Or.inl hr))⟩
      cases hk : r.kind with
      | user cb ret rej =>
        have hu : r.isUser = true := isUser_of_kind hk
        simp only
        cases ret with
        | value dd =>
          simp only
          have hp0 : Pending m.cores r.chain := holder_chain_pending o.c hget hu (by omega) (by omega) (fun hh => hnoj (user_settler hu) hh.2)
          exact sched_fulfilAndWalk { (m.setCore c (setReq (m.core c) i r')) with log := _ } r.chain (arg + dd) (pending_of_st (u.st _) hp0) s1
        | void => exact s1
        | promise q =>
          simp only
          exact sched_thenOn { (m.setCore c (setReq (m.core c) i r')) with log := _ } q _ s1
      | chainer =>
        have hc : r.isChainer = true := isChainer_of_kind hk
        simp only
        have hp0 : Pending m.cores r.chain := chainer_chain_pending o.c hget hc (by omega) (hnoj (chainer_settler hc))
        exact sched_fulfilAndWalk (m.setCore c (setReq (m.core c) i r')) r.chain arg (pending_of_st (u.st _) hp0) s1
      | allInput k idx =>
        have hd : k < m.datas.length := by have := o.dReq c i r hget; unfold DataIn at this; rw [hk] at this; exact this
        simp only
        split
        · exact s1
        · rename_i hopen'
          have hopen : (m.data k).rejected = false := by
            have : ¬ (m.data k).rejected = true := hopen'
            cases hh : (m.data k).rejected <;> simp_all
          split
          · rename_i hlast
            have hlast' : (m.data k).resolved + 1 = (m.data k).total := hlast
            have hp0 := target_pending_all_complete d hd hopen hlast'
            have hp1 : Pending ((m.setCore c (setReq (m.core c) i r')).setData k { m.data k with results := (m.data k).results ++ [(idx, arg)], resolved := (m.data k).resolved + 1 }).cores (m.data k).target :=
              pending_of_st (u.st _) hp0
            exact sched_resolverOn _ _ _ hp1 s1
          · exact s1
      | anyInput k =>
        have hd : k < m.datas.length := by have := o.dReq c i r hget; unfold DataIn at this; rw [hk] at this; exact this
        simp only
        split
        · exact s1
        · rename_i hopen'
          have hopen : (m.data k).rejected = false := by
            have : ¬ (m.data k).rejected = true := hopen'
            cases hh : (m.data k).rejected <;> simp_all
          have hp0 := target_pending_any d hd hopen hget (isAny_of_kind hk)
          have hp1 : Pending ((m.setCore c (setReq (m.core c) i r')).setData k { m.data k with rejected := true }).cores (m.data k).target :=
            pending_of_st (u.st _) hp0
          exact sched_resolverOn _ _ _ hp1 s1

theorem sched_pushWalk {cs : List Core} {st : List Act} (acts : List Act) (h : SchedOK cs st) : SchedOK cs (acts ++ st) :=
  sched_mono_stack (fun a ha => List.mem_append_right _ ha) h

theorem sched_stepReject (m : M) (c i : Nat) (o : Own roots m) (d : DataOK roots prog m) (hrej : RejOK m.cores c)
    (h : SchedOK m.cores (.rejectReq c i :: m.stack)) : SchedOK (stepReject m c i).cores (stepReject m c i).stack := by
  have hothers := sched_others_reject h
  have hnf : ¬ Fulfilled m.cores c := fun hf => fulfilled_not_rejOK hf hrej
  unfold stepReject
  simp only
  split
  · rename_i hnone
    intro c' i' x hx
    have hne : ¬ (c' = c ∧ i' = i) := by
      rintro ⟨rfl, rfl⟩
      have : rq m.cores c' i' = none := hnone
      rw [this] at hx; cases hx
    exact hothers c' i' x hx hne
  · rename_i r hget
    have hget : rq m.cores c i = some r := hget
    split
    · rename_i hjc
      intro c' i' x hx
      by_cases hpos : c' = c ∧ i' = i
      · obtain ⟨rfl, rfl⟩ := hpos
        rw [hget] at hx; cases hx
        exact ⟨fun hf => absurd hf hnf, fun _ => Or.inl hjc⟩
      · exact hothers c' i' x hx hpos
    · rename_i hjc'
      have hjc : r.jc = 0 := by omega
      have hnor : ¬ 1 ≤ r.rc := fun hj => hnf (d.inRc c i r hget hj)
      generalize (m.core c).st.exc = e
      obtain ⟨r', hr'⟩ : ∃ r', r' = ({ r with jc := r.jc + 1 } : Req) := ⟨_, rfl⟩
      have hk' : r'.kind = r.kind := by rw [hr']
      have hch' : r'.chain = r.chain := by rw [hr']
      have hrc' : r'.rc = r.rc := by rw [hr']
      have hjc1 : r'.jc = r.jc + 1 := by rw [hr']
      rw [← hr']
      clear hr'
      have u := reqUpd_setReq m.cores c i r r' hget
      have s1 : SchedOK (m.setCore c (setReq (m.core c) i r')).cores m.stack :=
        sched_reqUpd u hk' hch' (by omega) (by omega) hothers ⟨fun hf => absurd hf hnf, fun _ => Or.inl (by omega)⟩
      cases hk : r.kind with
      | user cb ret rej =>
        have hu : r.isUser = true := isUser_of_kind hk
        simp only
        cases rej with
        | rethrow =>
          simp only
          have hp0 : Pending m.cores r.chain := holder_chain_pending o.c hget hu (fun hh => hnor hh.2) (fun hh => hnor hh.2) (by omega)
          exact sched_rejectAndWalk (m.setCore c (setReq (m.core c) i r')) r.chain e (pending_of_st (u.st _) hp0) s1
        | ignore =>
          cases ret with
          | value dd => exact sched_pushWalk _ s1
          | void => exact s1
          | promise q => exact sched_pushWalk _ s1
        | custom cb' =>
          cases ret with
          | value dd => simp only; exact sched_pushWalk _ s1
          | void => exact s1
          | promise q => simp only; exact sched_pushWalk _ s1
      | chainer =>
        have hc : r.isChainer = true := isChainer_of_kind hk
        simp only
        have hp0 : Pending m.cores r.chain := chainer_chain_pending o.c hget hc hnor (by omega)
        exact sched_rejectAndWalk (m.setCore c (setReq (m.core c) i r')) r.chain e (pending_of_st (u.st _) hp0) s1
      | allInput k idx =>
        have hd : k < m.datas.length := by have := o.dReq c i r hget; unfold DataIn at this; rw [hk] at this; exact this
        simp only
        split
        · exact s1
        · rename_i hopen'
          have hopen : (m.data k).rejected = false := by
            have : ¬ (m.data k).rejected = true := hopen'
            cases hh : (m.data k).rejected <;> simp_all
          have hp0 := target_pending_all_reject d hd hopen hget (isAll_of_kind hk) hrej
          have hp1 : Pending ((m.setCore c (setReq (m.core c) i r')).setData k { m.data k with rejected := true }).cores (m.data k).target :=
            pending_of_st (u.st _) hp0
          exact sched_rejectionOn _ _ _ hp1 s1
      | anyInput k =>
        have hd : k < m.datas.length := by have := o.dReq c i r hget; unfold DataIn at this; rw [hk] at this; exact this
        simp only
        split
        · exact s1
        · rename_i hopen'
          have hopen : (m.data k).rejected = false := by
            have : ¬ (m.data k).rejected = true := hopen'
            cases hh : (m.data k).rejected <;> simp_all
          have hp0 := target_pending_any d hd hopen hget (isAny_of_kind hk)
          have hp1 : Pending ((m.setCore c (setReq (m.core c) i r')).setData k { m.data k with rejected := true }).cores (m.data k).target :=
            pending_of_st (u.st _) hp0
          exact sched_rejectionOn _ _ _ hp1 s1

theorem sched_step (m : M) (o : Own roots m) (d : DataOK roots prog m) (h : SchedOK m.cores m.stack) :
    SchedOK (step m).cores (step m).stack := by
  rw [step_eq]
  split
  · exact h
  · rename_i p r rest hst
    refine sched_thenOn { m with stack := rest } p r ?_
    refine sched_mono_stack ?_ (sched_congr rfl rfl (?_ : SchedOK m.cores rest))
    · intro a ha; exact ha
    · -- the attach frame justifies nothing: drop it
      intro c i x hx
      obtain ⟨h1, h2⟩ := h c i x hx
      rw [hst] at h1 h2
      refine ⟨fun hf => (h1 hf).imp id ?_, fun hf => (h2 hf).imp id ?_⟩
      · intro hm; rcases List.mem_cons.mp hm with e | hm
        · cases e
        · exact hm
      · intro hm; rcases List.mem_cons.mp hm with e | hm
        · cases e
        · exact hm
  · rename_i c i rest hst
    have ha := o.s (.resolveReq c i) (by rw [hst]; exact List.mem_cons_self)
    have hpop : Own roots { m with stack := rest } := own_stack rest o (stackOK_cons (hst ▸ o.s)) (stackData_cons (hst ▸ o.dStack))
    exact sched_stepResolve { m with stack := rest } c i hpop (data_pop hst d) ha (by rw [hst] at h; exact h)
  · rename_i c i rest hst
    have ha := o.s (.rejectReq c i) (by rw [hst]; exact List.mem_cons_self)
    have hpop : Own roots { m with stack := rest } := own_stack rest o (stackOK_cons (hst ▸ o.s)) (stackData_cons (hst ▸ o.dStack))
    exact sched_stepReject { m with stack := rest } c i hpop (data_pop hst d) ha (by rw [hst] at h; exact h)

theorem sched_run (fuel : Nat) (m : M) (o : Own roots m) (d : DataOK roots prog m) (h : SchedOK m.cores m.stack) :
    SchedOK (run fuel m).cores (run fuel m).stack := by
  induction fuel generalizing m with
  | zero => exact h
  | succ f ih =>
    unfold run
    split
    · exact h
    · exact ih _ (own_step m o) (data_step m o d) (sched_step m o d h)

/-- at quiescence every continuation of a settled core has been told -/
theorem sched_quiescent {cs : List Core} (h : SchedOK cs []) {c i : Nat} {r : Req} (hr : rq cs c i = some r) :
    (Fulfilled cs c → 1 ≤ r.rc) ∧ (Rejected cs c → 1 ≤ r.jc) := by
  obtain ⟨h1, h2⟩ := h c i r hr
  exact ⟨fun hf => (h1 hf).elim id (fun hm => by cases hm), fun hf => (h2 hf).elim id (fun hm => by cases hm)⟩

end Pistache.Promise
