/-
The chunked body reader of Model/Parser.lean (`bstep`, `chunkSizeOf`) run on what the chunked writer of
Model/Emit.lean wrote (`chunk`, `lastChunk`).
-/
import PistacheModel.Model.Parser
import PistacheModel.Model.Emit
import PistacheModel.Lemmas.Net

namespace Pistache.Parser
open Pistache Pistache.Stream Pistache.Num

def LowerHex (c : Nat) : Prop := (48 ≤ c ∧ c ≤ 57) ∨ (97 ≤ c ∧ c ≤ 102)

theorem hexDigit_lower : ∀ d, d < 16 → LowerHex (Emit.hexDigit d) := by
  intro d hd
  unfold Emit.hexDigit LowerHex
  split <;> omega

theorem natToHex_lower (n : Nat) : ∀ c ∈ Emit.natToHex n, LowerHex c := by
  induction n using Nat.strongRecOn with
  | _ n ih =>
    intro c hc
    rw [Emit.natToHex] at hc
    split at hc
    · rename_i h; simp only [List.mem_singleton] at hc; subst hc; exact hexDigit_lower n h
    · simp only [List.mem_append, List.mem_singleton] at hc
      rcases hc with hc | hc
      · exact ih (n / 16) (by omega) c hc
      · subst hc; exact hexDigit_lower _ (Nat.mod_lt _ (by omega))

theorem natToHex_ne_nil (n : Nat) : Emit.natToHex n ≠ [] := by
  rw [Emit.natToHex]; split <;> simp

theorem hexDigitVal_lower (c : Nat) (h : LowerHex c) : hexDigitVal c = some (if c ≤ 57 then c - 48 else c - 87) := by
  unfold hexDigitVal
  rcases h with h | h
  · have : 48 ≤ c ∧ c ≤ 57 := h
    simp [this]
  · have h1 : ¬ (48 ≤ c ∧ c ≤ 57) := by omega
    have h2 : 97 ≤ c ∧ c ≤ 102 := h
    have h3 : ¬ c ≤ 57 := by omega
    simp [h1, h2, h3]

theorem hexDigitVal_hexDigit (d : Nat) (h : d < 16) : hexDigitVal (Emit.hexDigit d) = some d := by
  rw [hexDigitVal_lower _ (hexDigit_lower d h)]
  unfold Emit.hexDigit
  split
  · have : 48 + d ≤ 57 := by omega
    simp [this]
  · have : ¬ 87 + d ≤ 57 := by omega
    simp [this]

theorem spanHex_all (s : Bytes) (h : ∀ c ∈ s, LowerHex c) : spanHex s = (s, []) := by
  induction s with
  | nil => rfl
  | cons c r ih =>
    have hc := hexDigitVal_lower c (h c (by simp))
    have := ih (fun x hx => h x (List.mem_cons_of_mem _ hx))
    simp [spanHex, hc, this]

theorem hexVal_append_one (ds : Bytes) (d : Nat) : hexVal (ds ++ [d]) = hexVal ds * 16 + (hexDigitVal d).getD 0 := by
  simp [hexVal, List.foldl_append]

theorem hexVal_natToHex (n : Nat) : hexVal (Emit.natToHex n) = n := by
  induction n using Nat.strongRecOn with
  | _ n ih =>
    rw [Emit.natToHex]
    split
    · rename_i h
      simp [hexVal, hexDigitVal_hexDigit n h]
    · rw [hexVal_append_one, ih (n / 16) (by omega), hexDigitVal_hexDigit _ (Nat.mod_lt _ (by omega))]
      simp only [Option.getD_some]
      have := Nat.div_add_mod n 16
      omega

theorem dropSpaces_nospace (s : Bytes) (h : ∀ c, s.head? = some c → isSpace c = false) : dropSpaces s = s := by
  cases s with
  | nil => rfl
  | cons c r => simp [dropSpaces, h c rfl]

def hexPrefixStrip (s2 : Bytes) : Bytes :=
  match s2 with
  | 48 :: x :: d :: r => if (x = 120 ∨ x = 88) ∧ (hexDigitVal d).isSome then d :: r else s2
  | _ => s2

theorem chunkSizeOf_eq (text : Bytes) : chunkSizeOf text =
    (if (Net.cstr text).length ≠ text.length then none else
      if (spanHex (hexPrefixStrip (afterSign (dropSpaces (Net.cstr text))))).1.isEmpty then (if text.isEmpty then some 0 else none)
      else if (spanHex (hexPrefixStrip (afterSign (dropSpaces (Net.cstr text))))).2 ≠ [] then none
      else if signOf (dropSpaces (Net.cstr text)) then
        (if hexVal (spanHex (hexPrefixStrip (afterSign (dropSpaces (Net.cstr text))))).1 = 0 then some 0 else none)
      else some (if hexVal (spanHex (hexPrefixStrip (afterSign (dropSpaces (Net.cstr text))))).1 > Net.longMax then Net.longMax
                 else hexVal (spanHex (hexPrefixStrip (afterSign (dropSpaces (Net.cstr text))))).1)) := by
  unfold chunkSizeOf hexPrefixStrip; rfl

/-- the chunk-size line written by the server is read back as the size -/
theorem chunkSizeOf_natToHex (n : Nat) (hn : n ≤ Net.longMax) : chunkSizeOf (Emit.natToHex n) = some n := by
  have hl := natToHex_lower n
  obtain ⟨c, r, hcr⟩ := List.exists_cons_of_ne_nil (natToHex_ne_nil n)
  have hc : LowerHex c := hl c (by rw [hcr]; simp)
  have h0 : 0 ∉ Emit.natToHex n := by intro h; have := hl 0 h; unfold LowerHex at this; omega
  have hcstr : Net.cstr (Emit.natToHex n) = Emit.natToHex n := Net.cstr_id _ h0
  have hsp : dropSpaces (Emit.natToHex n) = Emit.natToHex n := by
    apply dropSpaces_nospace
    intro x hx; rw [hcr] at hx; simp at hx; subst hx
    unfold LowerHex at hc; unfold isSpace; simp; omega
  have hsign : signOf (Emit.natToHex n) = false ∧ afterSign (Emit.natToHex n) = Emit.natToHex n := by
    rw [hcr]; unfold LowerHex at hc
    constructor
    · unfold signOf; split
      · rename_i heq; simp only [List.cons.injEq] at heq; omega
      · rfl
    · unfold afterSign; split
      · rename_i heq; simp only [List.cons.injEq] at heq; omega
      · rename_i heq; simp only [List.cons.injEq] at heq; omega
      · rfl
  have hpre : hexPrefixStrip (Emit.natToHex n) = Emit.natToHex n := by
    unfold hexPrefixStrip
    split
    · rename_i x d r' heq
      have hx : LowerHex x := hl x (by rw [heq]; simp)
      have : ¬ (x = 120 ∨ x = 88) := by unfold LowerHex at hx; omega
      simp [this]
    · rfl
  rw [chunkSizeOf_eq]
  simp only [hcstr, ne_eq, not_true_eq_false, if_false, hsp, hsign.1, hsign.2, hpre, spanHex_all _ hl, hexVal_natToHex]
  have hne : (Emit.natToHex n).isEmpty = false := by rw [hcr]; rfl
  simp only [hne, Bool.false_eq_true, if_false]
  have : ¬ n > Net.longMax := by omega
  simp [this]

/-! ### the body state machine on written chunks -/

theorem bodyFeed_cons (st : BSt) (c : Nat) (r : Bytes) : bodyFeed st (c :: r) = bodyFeed (bstep st c) r := rfl

/-- reading the digits of a chunk-size line accumulates them -/
theorem chSize_digits (ds acc body rest : Bytes) (h : ∀ c ∈ ds, c ≠ 10) :
    bodyFeed { mode := .chSize acc, body := body } (ds ++ rest) = bodyFeed { mode := .chSize (acc ++ ds), body := body } rest := by
  induction ds generalizing acc with
  | nil => simp
  | cons c cs ih =>
    have hc : c ≠ 10 := h c (by simp)
    simp only [List.cons_append, bodyFeed_cons, bstep, hc, false_and, if_false]
    rw [ih (acc ++ [c]) (fun x hx => h x (List.mem_cons_of_mem _ hx))]
    simp

theorem chData_feed (c body rest : Bytes) (hc : c ≠ []) :
    bodyFeed { mode := .chData c.length, body := body } (c ++ rest) = bodyFeed { mode := .chSkip1, body := body ++ c } rest := by
  induction c generalizing body with
  | nil => exact absurd rfl hc
  | cons x xs ih =>
    simp only [List.cons_append, bodyFeed_cons, bstep, List.length_cons]
    by_cases hxs : xs = []
    · subst hxs; simp
    · have hlen : xs.length + 1 ≠ 1 := by
        have : xs.length ≠ 0 := fun e => hxs (List.length_eq_zero_iff.mp e)
        omega
      simp only [hlen, if_false, Nat.add_sub_cancel]
      rw [ih (body ++ [x]) hxs]
      simp

/-- one written chunk is consumed and its data appended to the body -/
theorem chunk_feed (c body rest : Bytes) (hc : c ≠ []) (hlen : c.length ≤ Net.longMax) :
    bodyFeed { mode := .chSize [], body := body } (Emit.chunk c ++ rest) = bodyFeed { mode := .chSize [], body := body ++ c } rest := by
  have hno10 : ∀ x ∈ Emit.natToHex c.length, x ≠ 10 := by
    intro x hx; have := natToHex_lower _ x hx; unfold LowerHex at this; omega
  have hshape : Emit.chunk c ++ rest = Emit.natToHex c.length ++ (13 :: 10 :: (c ++ (13 :: 10 :: rest))) := by
    unfold Emit.chunk
    simp [hc, Emit.crlf, List.append_assoc]
  rw [hshape, chSize_digits _ [] body _ hno10]
  simp only [List.nil_append, bodyFeed_cons]
  -- CR: accumulated; LF after CR: the size line is complete
  have h13 : bstep { mode := .chSize (Emit.natToHex c.length), body := body } 13
      = { mode := .chSize (Emit.natToHex c.length ++ [13]), body := body } := by
    simp [bstep]
  rw [h13]
  have h10 : bstep { mode := .chSize (Emit.natToHex c.length ++ [13]), body := body } 10
      = { mode := .chData c.length, body := body } := by
    have hl : (Emit.natToHex c.length ++ [13]).getLast? = some 13 := by simp
    have hd : (Emit.natToHex c.length ++ [13]).dropLast = Emit.natToHex c.length := by simp
    have hn : c.length ≠ 0 := fun e => hc (List.length_eq_zero_iff.mp e)
    simp [bstep, hl, hd, chunkSizeOf_natToHex c.length hlen, enterChunk, hn]
  rw [h10, chData_feed c body _ hc]
  simp [bodyFeed_cons, bstep]

theorem lastChunk_feed (body : Bytes) : bodyFeed { mode := .chSize [], body := body } Emit.lastChunk = { mode := .done, body := body } := by
  have h0 : chunkSizeOf [48] = some 0 := by decide
  simp [Emit.lastChunk, Emit.crlf, bodyFeed, bstep, h0, enterChunk]

/-- the whole streamed body: every non-empty piece written, then the last-chunk — the reader ends in
    `done` with exactly the concatenation of the pieces -/
theorem chunked_feed (chunks : List Bytes) (body : Bytes) (hlen : ∀ c ∈ chunks, c.length ≤ Net.longMax) :
    bodyFeed { mode := .chSize [], body := body } ((chunks.map Emit.chunk).flatten ++ Emit.lastChunk)
      = { mode := .done, body := body ++ chunks.flatten } := by
  induction chunks generalizing body with
  | nil => simpa using lastChunk_feed body
  | cons c cs ih =>
    simp only [List.map_cons, List.flatten_cons, List.append_assoc]
    by_cases hc : c = []
    · subst hc
      have : Emit.chunk [] = [] := by simp [Emit.chunk]
      rw [this]; simp only [List.nil_append]
      exact ih body (fun x hx => hlen x (List.mem_cons_of_mem _ hx))
    · rw [chunk_feed c body _ hc (hlen c (by simp)), ih (body ++ c) (fun x hx => hlen x (List.mem_cons_of_mem _ hx))]
      simp

end Pistache.Parser
