/-
The combinator bookkeeping invariant over the operations of a well-formed program.
-/
import PistacheModel.Lemmas.PromiseDataStep

namespace Pistache.Promise

variable {roots prog : List Nat}

theorem sum_zero (f : Req → Nat) (rs : List Req) (h : ∀ r ∈ rs, f r = 0) : (rs.map f).sum = 0 := by
  induction rs with
  | nil => rfl
  | cons y ys ih =>
    simp only [List.map_cons, List.sum_cons]
    have := h y (by simp)
    have := ih (fun r hr => h r (List.mem_cons_of_mem _ hr))
    omega

theorem tally_zero (f : Req → Nat) (cs : List Core) (h : ∀ k ∈ cs, ∀ r ∈ k.reqs, f r = 0) : tally f cs = 0 := by
  unfold tally
  induction cs with
  | nil => rfl
  | cons x xs ih =>
    simp only [List.map_cons, List.sum_cons]
    have := sum_zero f x.reqs (h x (by simp))
    have := ih (fun k hk r hr => h k (List.mem_cons_of_mem _ hk) r hr)
    omega

theorem mem_reqs_rq {cs : List Core} {k : Core} {x : Req} (hk : k ∈ cs) (hx : x ∈ k.reqs) : ∃ c i, rq cs c i = some x := by
  obtain ⟨c, hc, hkc⟩ := List.getElem_of_mem hk
  obtain ⟨i, hi, hxi⟩ := List.getElem_of_mem hx
  refine ⟨c, i, ?_⟩
  unfold rq
  have : cs.getD c {} = k := by simp [List.getD, List.getElem?_eq_getElem hc, hkc]
  rw [this, List.getElem?_eq_getElem hi, hxi]

/-- forgetting pending actions (the counts of pending attaches can only go down) -/
theorem data_clear {m : M} (h : DataOK roots prog m) : DataOK roots prog { m with aborted := false, stack := [] } := by
  refine ⟨h.tgtDistinct, h.tgtProg, h.closed, h.inRc, h.inJc, ?_, h.cntRes, ?_, ?_, ?_, rfl⟩
  · intro d dd hd; have := h.cntAll d dd hd; show tally (fAll d) m.cores + sAll d [] ≤ dd.total; simp only [sAll, List.countP_nil]; omega
  · intro d dd hd; have := h.cntAny d dd hd; show tally (fAny d) m.cores + sAny d [] ≤ dd.total; simp only [sAny, List.countP_nil]; omega
  · intro d dd hd hp
    have hp' : 0 < tally (fAny d) m.cores + sAny d [] := hp
    simp only [sAny, List.countP_nil] at hp'
    exact h.anyZero d dd hd (by omega)
  · intro d hp
    have hp' : 0 < tally (fAll d) m.cores + sAll d [] := hp
    simp only [sAll, List.countP_nil] at hp'
    have := h.excl d (by omega)
    show tally (fAny d) m.cores + sAny d [] = 0
    simp only [sAny, List.countP_nil]; omega

theorem data_settleDown {m : M} (o : Own roots m) (h : DataOK roots prog m) :
    DataOK roots prog (settleDown m).1 ∧ (settleDown m).2 = false :=
  ⟨data_clear (data_run (fuelFor m) m o h), settleDown_not_thrown m o h⟩

/-- a new core without requests -/
theorem data_newCore {m : M} (x : Core) (hx : x.reqs = []) (o : Own roots m) (h : DataOK roots prog m) (prog' : List Nat)
    (hprog : ∀ dd ∈ m.datas, dd.target ∉ prog') : DataOK roots prog' (m.newCore x).1 := by
  have e := ext_newCore m.cores x hx
  have hT : ∀ f, tally f (m.cores ++ [x]) = tally f m.cores := by intro f; rw [tally_append_core, hx]; simp
  refine ⟨h.tgtDistinct, hprog, ?_, ?_, ?_, ?_, ?_, ?_, ?_, ?_, h.noAbort⟩
  · intro d dd hd hst
    have hlt : dd.target < m.cores.length := o.rootsLt _ (o.dTarget dd (List.mem_of_getElem? hd))
    exact h.closed d dd hd (by rw [← stOf_append_core m.cores x _ hlt]; exact hst)
  · intro c i y hy h1
    have hy' : rq m.cores c i = some y := by rw [← rq_append_core m.cores x hx]; exact hy
    exact fulfilled_of_st (stOf_append_core m.cores x c (rq_some_lt hy')) (h.inRc c i y hy' h1)
  · intro c i y hy h1
    have hy' : rq m.cores c i = some y := by rw [← rq_append_core m.cores x hx]; exact hy
    exact rejOK_fwd (stOf_append_core m.cores x c (rq_some_lt hy')) e.fwd (h.inJc c i y hy' h1)
  · intro d dd hd; show tally (fAll d) (m.cores ++ [x]) + sAll d m.stack ≤ dd.total; rw [hT]; exact h.cntAll d dd hd
  · intro d dd hd hr; show dd.resolved = tally (fAllR d) (m.cores ++ [x]); rw [hT]; exact h.cntRes d dd hd hr
  · intro d dd hd; show tally (fAny d) (m.cores ++ [x]) + sAny d m.stack ≤ dd.total; rw [hT]; exact h.cntAny d dd hd
  · intro d dd hd hp
    have hp' : 0 < tally (fAny d) (m.cores ++ [x]) + sAny d m.stack := hp
    rw [hT] at hp'; exact h.anyZero d dd hd hp'
  · intro d hp
    have hp' : 0 < tally (fAll d) (m.cores ++ [x]) + sAll d m.stack := hp
    rw [hT] at hp'
    show tally (fAny d) (m.cores ++ [x]) + sAny d m.stack = 0
    rw [hT]; exact h.excl d hp'

theorem append_lookup (ds : List Data) (x y : Data) (k : Nat) (h : (ds ++ [x])[k]? = some y) :
    (k < ds.length ∧ ds[k]? = some y) ∨ (k = ds.length ∧ y = x) := by
  by_cases hk : k < ds.length
  · rw [List.getElem?_append_left hk] at h; exact Or.inl ⟨hk, h⟩
  · by_cases hk2 : k = ds.length
    · subst hk2; simp at h; exact Or.inr ⟨rfl, h.symm⟩
    · rw [List.getElem?_eq_none (by rw [List.length_append, List.length_singleton]; omega)] at h; cases h

theorem countP_append_eq (p : Act → Bool) (a b : List Act) : (a ++ b).countP p = a.countP p + b.countP p := List.countP_append

/-- no request and no pending attach refers to a data block that does not exist yet -/
theorem fresh_block_counts {m : M} (o : Own roots m) :
    tally (fAll m.datas.length) m.cores = 0 ∧ tally (fAny m.datas.length) m.cores = 0 ∧ tally (fAllR m.datas.length) m.cores = 0 ∧
      sAll m.datas.length m.stack = 0 ∧ sAny m.datas.length m.stack = 0 := by
  have hreq : ∀ k ∈ m.cores, ∀ r ∈ k.reqs, isAll m.datas.length r = false ∧ isAny m.datas.length r = false := by
    intro k hk r hr
    obtain ⟨c, i, hrq⟩ := mem_reqs_rq hk hr
    have := o.dReq c i r hrq
    unfold DataIn at this
    unfold isAll isAny
    cases hkk : r.kind <;> simp_all <;> omega
  have hst : ∀ a ∈ m.stack, attAll m.datas.length a = false ∧ attAny m.datas.length a = false := by
    intro a ha
    have := o.dStack a ha
    cases a with
    | attach p r =>
      unfold DataIn at this
      unfold attAll attAny isAll isAny
      cases hkk : r.kind <;> simp_all <;> omega
    | resolveReq c i => exact ⟨rfl, rfl⟩
    | rejectReq c i => exact ⟨rfl, rfl⟩
  refine ⟨tally_zero _ _ (fun k hk r hr => by unfold fAll; rw [(hreq k hk r hr).1]; rfl),
          tally_zero _ _ (fun k hk r hr => by unfold fAny; rw [(hreq k hk r hr).2]; rfl),
          tally_zero _ _ (fun k hk r hr => by unfold fAllR; rw [(hreq k hk r hr).1]; rfl), ?_, ?_⟩
  · unfold sAll; rw [List.countP_eq_zero]; intro a ha; simp [(hst a ha).1]
  · unfold sAny; rw [List.countP_eq_zero]; intro a ha; simp [(hst a ha).2]

/-- creating a combinator: a new (root) core, a new data block pointing at it, and the attach actions -/
theorem data_combinator {m : M} (o : Own roots m) (h : DataOK roots prog m) (total : Nat) (ins : List Nat) (ak : Bool) (acts : List Act)
    (hprog : ∀ p ∈ prog, p < m.cores.length)
    (hcA : ∀ k, sAll k acts = if k = m.datas.length then sAll m.datas.length acts else 0)
    (hcY : ∀ k, sAny k acts = if k = m.datas.length then sAny m.datas.length acts else 0)
    (hsum : sAll m.datas.length acts + sAny m.datas.length acts ≤ total)
    (hex : sAll m.datas.length acts = 0 ∨ sAny m.datas.length acts = 0) :
    DataOK roots prog
      { (m.newCore {}).1 with datas := (m.newCore {}).1.datas ++ [({ target := m.cores.length, total := total, inputs := ins, anyKind := ak } : Data)],
                              stack := acts ++ (m.newCore {}).1.stack } := by
  obtain ⟨f1, f2, f3, f4, f5⟩ := fresh_block_counts o
  have h1 : DataOK roots prog (m.newCore {}).1 := data_newCore {} rfl o h prog h.tgtProg
  have hT : ∀ f, tally f (m.cores ++ [({} : Core)]) = tally f m.cores := by intro f; rw [tally_append_core]; simp
  have hSA : ∀ k, sAll k (acts ++ m.stack) = sAll k acts + sAll k m.stack := fun k => countP_append_eq _ _ _
  have hSY : ∀ k, sAny k (acts ++ m.stack) = sAny k acts + sAny k m.stack := fun k => countP_append_eq _ _ _
  refine ⟨?_, ?_, ?_, h1.inRc, h1.inJc, ?_, ?_, ?_, ?_, ?_, h.noAbort⟩
  · intro d1 d2 dd1 dd2 hd1 hd2 ht
    rcases append_lookup _ _ _ _ hd1 with ⟨hl1, hd1'⟩ | ⟨rfl, rfl⟩ <;> rcases append_lookup _ _ _ _ hd2 with ⟨hl2, hd2'⟩ | ⟨rfl, rfl⟩
    · exact h.tgtDistinct d1 d2 dd1 dd2 hd1' hd2' ht
    · have := o.rootsLt _ (o.dTarget dd1 (List.mem_of_getElem? hd1'))
      have ht' : dd1.target = m.cores.length := ht
      omega
    · have := o.rootsLt _ (o.dTarget dd2 (List.mem_of_getElem? hd2'))
      have ht' : m.cores.length = dd2.target := ht
      omega
    · rfl
  · intro dd hdd
    rcases List.mem_append.mp hdd with hdd | hdd
    · exact h.tgtProg dd hdd
    · simp only [List.mem_singleton] at hdd; subst hdd
      intro hmem; have := hprog _ hmem; exact Nat.lt_irrefl _ this
  · intro d dd hd hst
    rcases append_lookup _ _ _ _ hd with ⟨_, hd'⟩ | ⟨rfl, rfl⟩
    · exact h1.closed d dd hd' hst
    · exact absurd (stOf_append_new m.cores {}) hst
  · intro d dd hd
    show tally (fAll d) (m.cores ++ [({} : Core)]) + sAll d (acts ++ m.stack) ≤ dd.total
    rw [hT, hSA]
    rcases append_lookup _ _ _ _ hd with ⟨hl, hd'⟩ | ⟨rfl, rfl⟩
    · have hl' : d < m.datas.length := hl
      have := h.cntAll d dd hd'; rw [hcA d, if_neg (by omega)]; omega
    · show tally (fAll m.datas.length) m.cores + (sAll m.datas.length acts + sAll m.datas.length m.stack) ≤ total; omega
  · intro d dd hd hr
    show dd.resolved = tally (fAllR d) (m.cores ++ [({} : Core)])
    rw [hT]
    rcases append_lookup _ _ _ _ hd with ⟨_, hd'⟩ | ⟨rfl, rfl⟩
    · exact h.cntRes d dd hd' hr
    · show 0 = tally (fAllR m.datas.length) m.cores; omega
  · intro d dd hd
    show tally (fAny d) (m.cores ++ [({} : Core)]) + sAny d (acts ++ m.stack) ≤ dd.total
    rw [hT, hSY]
    rcases append_lookup _ _ _ _ hd with ⟨hl, hd'⟩ | ⟨rfl, rfl⟩
    · have hl' : d < m.datas.length := hl
      have := h.cntAny d dd hd'; rw [hcY d, if_neg (by omega)]; omega
    · show tally (fAny m.datas.length) m.cores + (sAny m.datas.length acts + sAny m.datas.length m.stack) ≤ total; omega
  · intro d dd hd hp
    have hp' : 0 < tally (fAny d) (m.cores ++ [({} : Core)]) + sAny d (acts ++ m.stack) := hp
    rw [hT, hSY] at hp'
    rcases append_lookup _ _ _ _ hd with ⟨hl, hd'⟩ | ⟨rfl, rfl⟩
    · have hl' : d < m.datas.length := hl
      rw [hcY d, if_neg (by omega)] at hp'; exact h.anyZero d dd hd' (by omega)
    · rfl
  · intro d hp
    have hp' : 0 < tally (fAll d) (m.cores ++ [({} : Core)]) + sAll d (acts ++ m.stack) := hp
    rw [hT, hSA] at hp'
    show tally (fAny d) (m.cores ++ [({} : Core)]) + sAny d (acts ++ m.stack) = 0
    rw [hT, hSY]
    by_cases hd : d = m.datas.length
    · subst hd
      rcases hex with hz | hz
      · omega
      · omega
    · rw [hcA d, if_neg hd] at hp'
      rw [hcY d, if_neg hd]
      have := h.excl d (by omega)
      omega

theorem data_roots {r1 r2 : List Nat} {m : M} (h : DataOK r1 prog m) : DataOK r2 prog m :=
  ⟨h.tgtDistinct, h.tgtProg, h.closed, h.inRc, h.inJc, h.cntAll, h.cntRes, h.cntAny, h.anyZero, h.excl, h.noAbort⟩

theorem countP_map_const {α : Type} (l : List α) (f : α → Act) (p : Act → Bool) (b : Bool) (h : ∀ x, p (f x) = b) :
    (l.map f).countP p = if b then l.length else 0 := by
  induction l with
  | nil => cases b <;> rfl
  | cons x xs ih =>
    simp only [List.map_cons, List.countP_cons, ih, h x, List.length_cons]
    cases b <;> simp

/-- an operation that raises `thrown` although the program did nothing wrong would be an internal error:
    the only legitimate case is settling a promise that is already settled -/
def legitThrow (m : M) : Op → Prop
  | .resolve p _ => stOf m.cores p ≠ .pending
  | .reject p _ => stOf m.cores p ≠ .pending
  | _ => False

def newsStep (news : List Nat) (m : M) : Op → List Nat
  | .new => m.cores.length :: news
  | _ => news

theorem data_exec {news : List Nat} (m : M) (op : Op) (g : Good roots m) (h : DataOK roots news m) (hsub : ∀ p ∈ news, p ∈ roots)
    (hwf : wfOp news op) :
    DataOK (rootsStep roots m.cores.length op) (newsStep news m op) (exec m op).1 ∧ ((exec m op).2 = .thrown → legitThrow m op) := by
  have o := g.own
  have hwf' : wfOp roots op := by cases op <;> first | exact hsub _ hwf | trivial
  have hnewsLt : ∀ p ∈ news, p < m.cores.length := fun p hp => o.rootsLt p (hsub p hp)
  have htgtLt : ∀ dd ∈ m.datas, dd.target < m.cores.length := fun dd hdd => o.rootsLt _ (o.dTarget dd hdd)
  cases op with
  | new =>
    refine ⟨data_roots (data_newCore {} rfl o h (m.cores.length :: news) ?_), by intro hh; cases hh⟩
    intro dd hdd hmem
    rcases List.mem_cons.mp hmem with e | hm
    · have := htgtLt dd hdd; omega
    · exact h.tgtProg dd hdd hm
  | newResolved v => exact ⟨data_roots (data_newCore _ rfl o h news h.tgtProg), by intro hh; cases hh⟩
  | newRejected e => exact ⟨data_roots (data_newCore _ rfl o h news h.tgtProg), by intro hh; cases hh⟩
  | then_ p cb ret rej =>
    simp only [exec, rootsStep, newsStep]
    have g1 := good_newCore_derived (m := m) {} rfl g
    have d1 : DataOK roots news (m.newCore {}).1 := data_newCore {} rfl o h news h.tgtProg
    have d2 := data_thenOn_plain (m.newCore {}).1 p { kind := .user cb ret rej, chain := (m.newCore {}).2 } ⟨rfl, rfl⟩
      (by simp [Req.settler, Req.isUser]) d1
    have o2 : Own roots (thenOn (m.newCore {}).1 p { kind := .user cb ret rej, chain := (m.newCore {}).2 }) := by
      refine own_thenOn g1.own ⟨rfl, rfl⟩ ?_ ?_ (by simp [DataIn])
      · intro _
        refine ⟨?_, ?_, ?_, ?_⟩
        · show m.cores.length < (m.cores ++ [({} : Core)]).length; rw [List.length_append, List.length_singleton]; omega
        · intro c i y hy hyu hcc
          have hy' : rq (m.cores ++ [({} : Core)]) c i = some y := hy
          rw [rq_append_core m.cores ({} : Core) rfl] at hy'
          have := o.c.bound c i y hy' (user_settler hyu)
          have hcc' : y.chain = m.cores.length := hcc
          omega
        · intro hmem; have := o.rootsLt _ hmem; exact Nat.lt_irrefl _ this
        · show stOf (m.cores ++ [({} : Core)]) m.cores.length = .pending
          rw [stOf_append_new]
      · intro hc; simp [Req.isChainer] at hc
    have := data_settleDown o2 d2
    refine ⟨this.1, ?_⟩
    rw [this.2]; intro hh; cases hh
  | resolve p v =>
    simp only [exec, rootsStep, newsStep]
    split
    · rename_i hst
      have hp : Pending m.cores p := hst
      have hroot : p ∈ roots := hsub p hwf
      have o2 := own_fulfilAndWalk (v := v) o (o.rootsLt p hroot) hp (root_not_doomed o.c hroot)
        (fun c0 i0 r0 h0 hu0 hc0 => absurd hc0 (o.c.noHolder p hroot c0 i0 r0 h0 hu0))
      have d2 := data_fulfilAndWalk (v := v) h hp (root_not_doomed o.c hroot)
        (fun d dd hd ht => absurd (ht ▸ hwf : dd.target ∈ news) (h.tgtProg dd (List.mem_of_getElem? hd)))
      have := data_settleDown o2 d2
      refine ⟨this.1, ?_⟩
      rw [this.2]; intro hh; cases hh
    · rename_i hst
      refine ⟨h, fun _ => ?_⟩
      intro hp; exact hst (by exact hp)
  | reject p e =>
    simp only [exec, rootsStep, newsStep]
    split
    · rename_i hst
      have hp : Pending m.cores p := hst
      have hroot : p ∈ roots := hsub p hwf
      have o2 := own_rejectAndWalk (e := e) o (o.rootsLt p hroot) hp
        (fun c0 i0 r0 h0 hu0 hc0 => absurd hc0 (o.c.noHolder p hroot c0 i0 r0 h0 hu0))
      have d2 := data_rejectAndWalk (e := e) h hp
        (fun d dd hd ht => absurd (ht ▸ hwf : dd.target ∈ news) (h.tgtProg dd (List.mem_of_getElem? hd)))
      have := data_settleDown o2 d2
      refine ⟨this.1, ?_⟩
      rw [this.2]; intro hh; cases hh
    · rename_i hst
      refine ⟨h, fun _ => ?_⟩
      intro hp; exact hst (by exact hp)
  | whenAll ps =>
    simp only [exec, rootsStep, newsStep]
    have hA : ∀ k, sAll k (ps.zipIdx.map fun (pi : Nat × Nat) => Act.attach pi.1 ({ kind := .allInput (m.newCore {}).1.datas.length pi.2, chain := 0 } : Req))
        = if k = m.datas.length then ps.length else 0 := by
      intro k
      unfold sAll
      rw [countP_map_const _ _ _ (decide (m.datas.length = k)) (by intro x; simp [attAll, isAll]; rfl)]
      by_cases hk : k = m.datas.length
      · subst hk; simp
      · have : ¬ m.datas.length = k := fun e => hk e.symm
        simp [hk, this]
    have hY : ∀ k, sAny k (ps.zipIdx.map fun (pi : Nat × Nat) => Act.attach pi.1 ({ kind := .allInput (m.newCore {}).1.datas.length pi.2, chain := 0 } : Req)) = 0 := by
      intro k; unfold sAny
      rw [countP_map_const _ _ _ false (by intro x; simp [attAny, isAny])]; rfl
    have gc := good_combinator g ps.length ps false (ps.zipIdx.map fun (pi : Nat × Nat) => Act.attach pi.1 ({ kind := .allInput (m.newCore {}).1.datas.length pi.2, chain := 0 } : Req)) (by
      intro a ha
      simp only [List.mem_map] at ha
      obtain ⟨pi, _, rfl⟩ := ha
      exact ⟨pi.1, _, rfl, rfl, rfl, rfl, by show (m.newCore {}).1.datas.length < m.datas.length + 1; exact Nat.lt_succ_self _⟩)
    have dc := data_combinator o h ps.length ps false (ps.zipIdx.map fun (pi : Nat × Nat) => Act.attach pi.1 ({ kind := .allInput (m.newCore {}).1.datas.length pi.2, chain := 0 } : Req))
      hnewsLt (by intro k; rw [hA k, hA]; simp) (by intro k; rw [hY k, hY]; simp) (by rw [hA, hY]; simp) (Or.inr (hY _))
    have sd := data_settleDown gc.own (data_roots dc)
    refine ⟨sd.1, ?_⟩
    intro hh
    split at hh
    · rename_i ht
      have e := sd.2
      exact absurd (e ▸ ht : false = true) (by decide)
    · cases hh
  | whenAny ps =>
    simp only [exec, rootsStep, newsStep]
    have hY : ∀ k, sAny k (ps.map fun (p : Nat) => Act.attach p ({ kind := .anyInput (m.newCore {}).1.datas.length, chain := 0 } : Req))
        = if k = m.datas.length then ps.length else 0 := by
      intro k
      unfold sAny
      rw [countP_map_const _ _ _ (decide (m.datas.length = k)) (by intro x; simp [attAny, isAny]; rfl)]
      by_cases hk : k = m.datas.length
      · subst hk; simp
      · have : ¬ m.datas.length = k := fun e => hk e.symm
        simp [hk, this]
    have hA : ∀ k, sAll k (ps.map fun (p : Nat) => Act.attach p ({ kind := .anyInput (m.newCore {}).1.datas.length, chain := 0 } : Req)) = 0 := by
      intro k; unfold sAll
      rw [countP_map_const _ _ _ false (by intro x; simp [attAll, isAll])]; rfl
    have gc := good_combinator g ps.length ps true (ps.map fun (p : Nat) => Act.attach p ({ kind := .anyInput (m.newCore {}).1.datas.length, chain := 0 } : Req)) (by
      intro a ha
      simp only [List.mem_map] at ha
      obtain ⟨pi, _, rfl⟩ := ha
      exact ⟨pi, _, rfl, rfl, rfl, rfl, by show (m.newCore {}).1.datas.length < m.datas.length + 1; exact Nat.lt_succ_self _⟩)
    have dc := data_combinator o h ps.length ps true (ps.map fun (p : Nat) => Act.attach p ({ kind := .anyInput (m.newCore {}).1.datas.length, chain := 0 } : Req))
      hnewsLt (by intro k; rw [hA k, hA]; simp) (by intro k; rw [hY k, hY]; simp) (by rw [hA, hY]; simp) (Or.inl (hA _))
    have sd := data_settleDown gc.own (data_roots dc)
    refine ⟨sd.1, ?_⟩
    intro hh
    split at hh
    · rename_i ht
      have e := sd.2
      exact absurd (e ▸ ht : false = true) (by decide)
    · cases hh

end Pistache.Promise
