/-
Evaluation lemmas: what the step parsers of Model/Parser.lean do on input that was produced by the
writers of Model/Emit.lean (used by Props/C02 for `parse (write m) = m`).
-/
import PistacheModel.Model.Parser
import PistacheModel.Model.Emit
import PistacheModel.Lemmas.ParserSteps

namespace Pistache.Parser
open Pistache Pistache.Stream Pistache.Num

/-! ### the P monad on a known result -/

theorem bind_ok {α β : Type} (p : P α) (f : α → P β) (s : Bytes) (t : List Eff) (a : α) (r : Bytes)
    (h : p s = (t, .ok a r)) : P.bind p f s = (t ++ (f a r).1, (f a r).2) := by
  unfold P.bind; rw [h]

theorem seq_ok {α β : Type} (p : P α) (q : P β) (s : Bytes) (t : List Eff) (a : α) (r : Bytes)
    (h : p s = (t, .ok a r)) : P.seq p q s = (t ++ (q r).1, (q r).2) := by
  unfold P.seq; exact bind_ok p _ s t a r h

theorem emit_eval (e : Eff) (s : Bytes) : emit e s = ([e], .ok () s) := rfl
theorem emits_eval (es : List Eff) (s : Bytes) : emits es s = (es, .ok () s) := rfl
theorem skip1_cons (c : Nat) (r : Bytes) : skip1 (c :: r) = ([], .ok () r) := rfl
theorem skip2_crlf (r : Bytes) : skip2 (13 :: 10 :: r) = ([], .ok () r) := rfl

/-! ### scanning to a stop byte -/

theorem splitUntilRaw_stop (stops : List Nat) (tok : Bytes) (c : Nat) (r : Bytes)
    (h : ∀ x ∈ tok, stops.contains x = false) (hc : stops.contains c = true) :
    untilAny.splitUntilRaw stops (tok ++ c :: r) = (tok, c :: r) := by
  induction tok with
  | nil => simp only [List.nil_append, untilAny.splitUntilRaw, hc, if_true]
  | cons x xs ih =>
    have hx := h x (by simp)
    have := ih (fun y hy => h y (List.mem_cons_of_mem _ hy))
    simp only [List.cons_append, untilAny.splitUntilRaw, hx, Bool.false_eq_true, if_false, this]

theorem untilAny_stop (stops : List Nat) (tok : Bytes) (c : Nat) (r : Bytes)
    (h : ∀ x ∈ tok, stops.contains x = false) (hc : stops.contains c = true) :
    untilAny stops (tok ++ c :: r) = ([], .ok tok (c :: r)) := by
  unfold untilAny; rw [splitUntilRaw_stop stops tok c r h hc]

theorem splitEol_line (v : Bytes) (r : Bytes) (h : 13 ∉ v) : splitEol (v ++ 13 :: 10 :: r) = some (v, 13 :: 10 :: r) := by
  induction v with
  | nil => simp [splitEol]
  | cons x xs ih =>
    have hx : x ≠ 13 := by intro e; subst e; simp at h
    have hxs : 13 ∉ xs := by intro e; exact h (List.mem_cons_of_mem _ e)
    have := ih hxs
    -- the input has at least two more bytes, and does not start with CR LF
    cases hrest : xs ++ 13 :: 10 :: r with
    | nil => simp at hrest
    | cons y ys =>
      simp only [List.cons_append, hrest]
      rw [hrest] at this
      unfold splitEol
      split
      · rename_i heq; cases heq
      · rename_i heq; cases heq
      · rename_i heq; simp only [List.cons.injEq] at heq; exact absurd heq.1 hx
      · rename_i c r' h1 h2 h3 heq
        simp only [List.cons.injEq] at heq
        obtain ⟨rfl, rfl⟩ := heq
        rw [this]; rfl

theorem untilEol_line (v : Bytes) (r : Bytes) (h : 13 ∉ v) : untilEol (v ++ 13 :: 10 :: r) = ([], .ok v (13 :: 10 :: r)) := by
  unfold untilEol; rw [splitEol_line v r h]

/-! ### the query loop on `k=v&k=v ` -/

def qOk (c : Nat) : Prop := c ≠ 32 ∧ c ≠ 38 ∧ c ≠ 61

theorem qScan_key_run (k acc rest : Bytes) (h : ∀ c ∈ k, qOk c) : qScan (.key acc) (k ++ rest) = qScan (.key (acc ++ k)) rest := by
  induction k generalizing acc with
  | nil => simp
  | cons c cs ih =>
    obtain ⟨h1, h2, h3⟩ := h c (by simp)
    simp only [List.cons_append, qScan, h1, h2, h3, if_false]
    rw [ih (acc ++ [c]) (fun x hx => h x (List.mem_cons_of_mem _ hx))]
    simp

theorem qScan_head_key (k rest : Bytes) (h : ∀ c ∈ k, qOk c) : qScan .head (k ++ 61 :: rest) = qScan (.val k []) rest := by
  cases k with
  | nil => simp [qScan]
  | cons c cs =>
    obtain ⟨h1, h2, h3⟩ := h c (by simp)
    simp only [List.cons_append, qScan, h1, h2, h3, if_false]
    rw [qScan_key_run cs [c] _ (fun x hx => h x (List.mem_cons_of_mem _ hx))]
    simp [qScan]

theorem qScan_val_run (k v acc rest : Bytes) (h : ∀ c ∈ v, c ≠ 32 ∧ c ≠ 38) : qScan (.val k acc) (v ++ rest) = qScan (.val k (acc ++ v)) rest := by
  induction v generalizing acc with
  | nil => simp
  | cons c cs ih =>
    obtain ⟨h1, h2⟩ := h c (by simp)
    simp only [List.cons_append, qScan, h1, h2, if_false]
    rw [ih (acc ++ [c]) (fun x hx => h x (List.mem_cons_of_mem _ hx))]
    simp

def kvOk (p : Bytes × Bytes) : Prop := (∀ c ∈ p.1, qOk c) ∧ (∀ c ∈ p.2, c ≠ 32 ∧ c ≠ 38)

def kvBytes (p : Bytes × Bytes) : Bytes := p.1 ++ [61] ++ p.2

/-- the loop reads back exactly the pairs that `Query::as_str` wrote, in order, and stops at the SP -/
theorem qScan_pairs (q : List (Bytes × Bytes)) (hne : q ≠ []) (hok : ∀ p ∈ q, kvOk p) (r : Bytes) :
    qScan .head (Emit.sepBy [38] (q.map kvBytes) ++ 32 :: r) = (q.map (fun p => Eff.queryAdd p.1 p.2), .ok () (32 :: r)) := by
  induction q with
  | nil => exact absurd rfl hne
  | cons p ps ih =>
    obtain ⟨hk, hv⟩ := hok p (by simp)
    cases ps with
    | nil =>
      simp only [List.map_cons, List.map_nil, Emit.sepBy, kvBytes, List.append_assoc, List.cons_append, List.nil_append]
      rw [qScan_head_key p.1 _ hk, qScan_val_run p.1 p.2 [] _ hv]
      simp [qScan]
    | cons p2 ps2 =>
      have := ih (by simp) (fun x hx => hok x (List.mem_cons_of_mem _ hx))
      simp only [List.map_cons, Emit.sepBy, kvBytes, List.append_assoc, List.cons_append, List.nil_append] at this ⊢
      rw [qScan_head_key p.1 _ hk, qScan_val_run p.1 p.2 [] _ hv]
      simp only [List.nil_append, qScan, if_true]
      have h32 : (38 : Nat) ≠ 32 := by decide
      simp only [h32, if_false]
      rw [this]


/-! ### the request line -/

def verText : Bytes := bytes "HTTP/1.1"

theorem verText_noCR : 13 ∉ verText := by decide
theorem sp_ver : bytes " HTTP/1.1" = 32 :: verText := by decide
theorem versionEff_11 : versionEff verText = emit (.setVersion 1) := by
  have h0 : strncmpEq verText (bytes "HTTP/1.0") = false := by decide
  have h1 : strncmpEq verText (bytes "HTTP/1.1") = true := by decide
  unfold versionEff; simp [h0, h1]

theorem queryStr_eq (q : List (Bytes × Bytes)) : Emit.queryStr q = if q.isEmpty then [] else 63 :: Emit.sepBy [38] (q.map kvBytes) := rfl

/-- the request line written by the client is read back as its method, path, query pairs and version -/
theorem requestLine_write (i : Nat) (mt pth : Bytes) (q : List (Bytes × Bytes)) (rest : Bytes)
    (hm : findIdx methodNames mt = some i) (hmt : ∀ c ∈ mt, c ≠ 32)
    (hp : ∀ c ∈ pth, c ≠ 32 ∧ c ≠ 63) (hq : ∀ p ∈ q, kvOk p) :
    requestLine (mt ++ [32] ++ pth ++ Emit.queryStr q ++ bytes " HTTP/1.1" ++ Emit.crlf ++ rest)
      = ([Eff.setMethod i, Eff.setResource pth] ++ q.map (fun p => Eff.queryAdd p.1 p.2) ++ [Eff.setVersion 1], .ok () rest) := by
  have htail : ∀ (pre : Bytes), pre ++ bytes " HTTP/1.1" ++ Emit.crlf ++ rest = pre ++ 32 :: (verText ++ 13 :: 10 :: rest) := by
    intro pre; rw [sp_ver]; simp [Emit.crlf]
  -- the tail after the target: SP version CRLF
  have hend : (P.seq skip1 (P.bind untilEol fun ver => P.seq (versionEff ver) skip2)) (32 :: (verText ++ 13 :: 10 :: rest))
      = ([Eff.setVersion 1], .ok () rest) := by
    rw [seq_ok skip1 _ _ [] () _ (skip1_cons _ _)]
    rw [bind_ok untilEol _ _ [] verText _ (untilEol_line verText rest verText_noCR)]
    rw [versionEff_11]
    rw [seq_ok (emit (.setVersion 1)) skip2 _ [Eff.setVersion 1] () _ (emit_eval _ _)]
    simp [skip2_crlf]
  unfold requestLine
  -- method token
  have h1 : untilAny [32] (mt ++ [32] ++ pth ++ Emit.queryStr q ++ bytes " HTTP/1.1" ++ Emit.crlf ++ rest)
      = ([], .ok mt (32 :: (pth ++ Emit.queryStr q ++ bytes " HTTP/1.1" ++ Emit.crlf ++ rest))) := by
    have := untilAny_stop [32] mt 32 (pth ++ Emit.queryStr q ++ bytes " HTTP/1.1" ++ Emit.crlf ++ rest)
      (by intro x hx; simpa using hmt x hx) (by simp)
    simpa [List.append_assoc] using this
  rw [bind_ok _ _ _ _ _ _ h1]
  simp only [hm, List.nil_append]
  rw [seq_ok (emit (.setMethod i)) _ _ [Eff.setMethod i] () _ (emit_eval _ _)]
  rw [seq_ok skip1 _ _ [] () _ (skip1_cons _ _)]
  by_cases hqe : q = []
  · -- no query: the path scan stops at the SP
    subst hqe
    have h2 : untilAny [63, 32] (pth ++ Emit.queryStr [] ++ bytes " HTTP/1.1" ++ Emit.crlf ++ rest)
        = ([], .ok pth (32 :: (verText ++ 13 :: 10 :: rest))) := by
      have e : pth ++ Emit.queryStr [] ++ bytes " HTTP/1.1" ++ Emit.crlf ++ rest = pth ++ 32 :: (verText ++ 13 :: 10 :: rest) := by
        have := htail pth; simpa [Emit.queryStr] using this
      rw [e]
      exact untilAny_stop [63, 32] pth 32 _ (by intro x hx; have := hp x hx; simp [this.1, this.2]) (by simp)
    rw [bind_ok _ _ _ _ _ _ h2]
    rw [seq_ok (emit (.setResource pth)) _ _ [Eff.setResource pth] () _ (emit_eval _ _)]
    have h3 : queryOpt (32 :: (verText ++ 13 :: 10 :: rest)) = ([], .ok () (32 :: (verText ++ 13 :: 10 :: rest))) := rfl
    rw [seq_ok queryOpt _ _ [] () _ h3, hend]
    simp
  · have hqs : Emit.queryStr q = 63 :: Emit.sepBy [38] (q.map kvBytes) := by
      rw [queryStr_eq]; simp [hqe]
    have e : pth ++ Emit.queryStr q ++ bytes " HTTP/1.1" ++ Emit.crlf ++ rest
        = pth ++ 63 :: (Emit.sepBy [38] (q.map kvBytes) ++ 32 :: (verText ++ 13 :: 10 :: rest)) := by
      have := htail (pth ++ Emit.queryStr q)
      rw [this, hqs]; simp [List.append_assoc]
    have h2 : untilAny [63, 32] (pth ++ Emit.queryStr q ++ bytes " HTTP/1.1" ++ Emit.crlf ++ rest)
        = ([], .ok pth (63 :: (Emit.sepBy [38] (q.map kvBytes) ++ 32 :: (verText ++ 13 :: 10 :: rest)))) := by
      rw [e]
      exact untilAny_stop [63, 32] pth 63 _ (by intro x hx; have := hp x hx; simp [this.1, this.2]) (by simp)
    rw [bind_ok _ _ _ _ _ _ h2]
    rw [seq_ok (emit (.setResource pth)) _ _ [Eff.setResource pth] () _ (emit_eval _ _)]
    have h3 : queryOpt (63 :: (Emit.sepBy [38] (q.map kvBytes) ++ 32 :: (verText ++ 13 :: 10 :: rest)))
        = (q.map (fun p => Eff.queryAdd p.1 p.2), .ok () (32 :: (verText ++ 13 :: 10 :: rest))) := by
      simp only [queryOpt]
      exact qScan_pairs q hqe hq _
    rw [seq_ok queryOpt _ _ _ () _ h3, hend]
    simp


/-! ### header lines -/

theorem dropSp_nosp (s : Bytes) (h : s.head? ≠ some 32) : dropSp s = s := by
  cases s with
  | nil => rfl
  | cons c r =>
    have : c ≠ 32 := by intro e; subst e; simp at h
    unfold dropSp
    split
    · rename_i heq; simp only [List.cons.injEq] at heq; exact absurd heq.1 this
    · rfl

structure LineOk (name value : Bytes) : Prop where
  nameNe : name ≠ []
  nameColon : 58 ∉ name
  nameCR : 13 ∉ name
  valueCR : 13 ∉ value
  valueSp : value.head? ≠ some 32

def lineBytes (name value : Bytes) : Bytes := name ++ [58, 32] ++ value ++ Emit.crlf

theorem lineBytes_eq_headerLine (h : Bytes × Bytes) : Emit.headerLine h = lineBytes h.1 h.2 := rfl

/-- one `name: value CRLF` line is read back as exactly the effects of that header -/
theorem headerLine_write (name value rest : Bytes) (es : List Eff) (hok : LineOk name value)
    (he : headerEffects name value = .ok es) :
    headerLine (lineBytes name value ++ rest) = (es, .ok () rest) := by
  have e : lineBytes name value ++ rest = name ++ 58 :: (32 :: (value ++ 13 :: 10 :: rest)) := by
    simp [lineBytes, Emit.crlf, List.append_assoc]
  rw [e]
  unfold headerLine
  have h1 : untilAny [58] (name ++ 58 :: (32 :: (value ++ 13 :: 10 :: rest))) = ([], .ok name (58 :: (32 :: (value ++ 13 :: 10 :: rest)))) :=
    untilAny_stop [58] name 58 _ (by intro x hx; have : x ≠ 58 := by intro e; subst e; exact hok.nameColon hx
                                     simpa using this) (by simp)
  rw [bind_ok _ _ _ _ _ _ h1]
  rw [seq_ok skip1 _ _ [] () _ (skip1_cons _ _)]
  have hds : dropSp (32 :: (value ++ 13 :: 10 :: rest)) = value ++ 13 :: 10 :: rest := by
    have : dropSp (32 :: (value ++ 13 :: 10 :: rest)) = dropSp (value ++ 13 :: 10 :: rest) := by simp [dropSp]
    rw [this]
    apply dropSp_nosp
    cases value with
    | nil => simp
    | cons c r => simpa using hok.valueSp
  have h2 : valueTok (32 :: (value ++ 13 :: 10 :: rest)) = ([], .ok value (13 :: 10 :: rest)) := by
    unfold valueTok; rw [hds]; exact untilEol_line value rest hok.valueCR
  rw [bind_ok _ _ _ _ _ _ h2]
  have h3 : headerEff name value (13 :: 10 :: rest) = (es, .ok () (13 :: 10 :: rest)) := by
    unfold headerEff; rw [he]; rfl
  rw [seq_ok _ skip2 _ _ () _ h3]
  simp [skip2_crlf]

/-- a header block: every line's effects in order, then the blank line is consumed -/
theorem headersLoop_write (lines : List (Bytes × Bytes × List Eff)) (rest : Bytes)
    (hok : ∀ l ∈ lines, LineOk l.1 l.2.1 ∧ headerEffects l.1 l.2.1 = .ok l.2.2) (fuel : Nat) (hf : lines.length + 1 ≤ fuel) :
    headersLoop fuel ((lines.map fun l => lineBytes l.1 l.2.1).flatten ++ Emit.crlf ++ rest)
      = ((lines.map (·.2.2)).flatten, .ok () rest) := by
  induction lines generalizing fuel with
  | nil =>
    cases fuel with
    | zero => simp at hf
    | succ f => simp [Emit.crlf, headersLoop]
  | cons l ls ih =>
    cases fuel with
    | zero => simp at hf
    | succ f =>
      obtain ⟨hl, he⟩ := hok l (by simp)
      have hstart : ∀ r, lineBytes l.1 l.2.1 ++ ((ls.map fun l => lineBytes l.1 l.2.1).flatten ++ Emit.crlf ++ rest) ≠ 13 :: 10 :: r := by
        intro r heq
        obtain ⟨c, cs, hc⟩ := List.exists_cons_of_ne_nil hl.nameNe
        have : c = 13 := by
          simp only [lineBytes, hc, List.cons_append, List.cons.injEq] at heq
          exact heq.1
        apply hl.nameCR; rw [hc, this]; simp
      simp only [List.map_cons, List.flatten_cons, List.append_assoc]
      have e2 : lineBytes l.1 l.2.1 ++ ((ls.map fun l => lineBytes l.1 l.2.1).flatten ++ (Emit.crlf ++ rest))
          = lineBytes l.1 l.2.1 ++ ((ls.map fun l => lineBytes l.1 l.2.1).flatten ++ Emit.crlf ++ rest) := by simp [List.append_assoc]
      rw [e2, headersLoop_other f _ hstart]
      rw [seq_ok headerLine _ _ _ () _ (headerLine_write l.1 l.2.1 _ l.2.2 hl he)]
      rw [ih (fun x hx => hok x (List.mem_cons_of_mem _ hx)) f (by simp at hf; omega)]

end Pistache.Parser
