/-
Helper lemmas for Props/C07Interest.lean: what one socket call does to the queue, the post-condition of the drain loop
(with a proof that its fuel suffices) and the invariant of the write-interest protocol.
-/
import PistacheModel.Model.WriteInterest

namespace Pistache.WriteInterest
open Pistache Pistache.Stream Pistache.WriteQueue

def cfg0 : Cfg := {}

/-! ### one socket call -/

theorem step_block (w : WState) : (step w (.sock .block)).queue = w.queue ∧ (step w (.sock .block)).wire = w.wire := by
  simp only [step]
  split <;> simp_all

theorem sendBlock_queue (c : Conn) : (sendBlock c).w.queue = c.w.queue := (step_block c.w).1

theorem sendBlock_fields (c : Conn) :
    (sendBlock c).space = c.space ∧ (sendBlock c).armed = c.armed ∧ (sendBlock c).edge = c.edge ∧
    (sendBlock c).assertion = c.assertion ∧ (sendBlock c).w.wire = c.w.wire :=
  ⟨rfl, rfl, rfl, rfl, (step_block c.w).2⟩

theorem sendOk_fields (c : Conn) :
    (sendOk c).armed = c.armed ∧ (sendOk c).edge = c.edge ∧ (sendOk c).assertion = c.assertion := ⟨rfl, rfl, rfl⟩

/-- the accepted call either finishes the front entry (it is popped) or takes all the room there was -/
theorem sendOk_queue (c : Conn) (e : Entry) (rest : List Entry) (hq : c.w.queue = e :: rest) :
    ((sendOk c).w.queue = rest ∧ e.data.length - e.off ≤ c.space ∧
        (sendOk c).space = c.space - (e.data.length - e.off) ∧ (sendOk c).w.wire = c.w.wire ++ e.data.drop e.off) ∨
    ((sendOk c).w.queue = { e with off := e.off + c.space } :: rest ∧ c.space < e.data.length - e.off ∧ (sendOk c).space = 0 ∧
        (sendOk c).w.wire = c.w.wire ++ (e.data.drop e.off).take c.space) := by
  unfold sendOk frontLeft
  simp only [step, hq]
  by_cases h : e.off + min (e.data.length - e.off) c.space ≥ e.data.length
  · left
    simp only [h, if_true]
    have hle : e.data.length - e.off ≤ c.space := by omega
    refine ⟨trivial, hle, ?_, ?_⟩
    · simp only [Nat.min_eq_left hle]
    · simp only [Nat.min_eq_left hle]
      congr 1
      apply List.take_of_length_le
      simp
  · right
    simp only [h, if_false]
    have hlt : c.space < e.data.length - e.off := by omega
    have hm : min (e.data.length - e.off) c.space = c.space := by omega
    refine ⟨by simp [hm], hlt, by simp [hm], by simp [hm]⟩

/-! ### the drain loop -/

def measure (c : Conn) : Nat := 2 * c.w.queue.length + (if c.space = 0 then 0 else 1)

/-- how the drain loop (code as it is) leaves a connection whose queue was not empty: either everything is out and write
    interest is off, or the socket is full, the unsent data still queued and write interest requested -/
def DrainPost (c d : Conn) : Prop :=
  d.assertion = c.assertion ∧
  ((d.w.queue = [] ∧ d.armed = false ∧ d.edge = false) ∨
   (d.w.queue ≠ [] ∧ d.space = 0 ∧ d.armed = true ∧ d.edge = c.edge))

theorem drain_post (fuel : Nat) (c : Conn) (hq : c.w.queue ≠ []) (hf : measure c ≤ fuel) : DrainPost c (drain cfg0 fuel c) := by
  induction fuel generalizing c with
  | zero =>
    unfold measure at hf
    cases hc : c.w.queue with
    | nil => exact absurd hc hq
    | cons e r => rw [hc] at hf; simp at hf
  | succ k ih =>
    cases hc : c.w.queue with
    | nil => exact absurd hc hq
    | cons e rest =>
      unfold drain
      have hne : c.w.queue.isEmpty = false := by rw [hc]; rfl
      simp only [hne, Bool.false_eq_true, if_false]
      by_cases hs : c.space = 0
      · simp only [hs, if_true, cfg0, Bool.true_or]
        obtain ⟨f1, f2, f3, f4, _⟩ := sendBlock_fields c
        refine ⟨f4, Or.inr ⟨?_, ?_, rfl, ?_⟩⟩
        · show (sendBlock c).w.queue ≠ []
          rw [sendBlock_queue]; exact hq
        · show (sendBlock c).space = 0
          rw [f1]; exact hs
        · show ((sendBlock c).edge || decide (0 < (sendBlock c).space)) = c.edge
          rw [f3, f1, hs]; simp
      · simp only [hs, if_false]
        rcases sendOk_queue c e rest hc with ⟨q1, _, _, _⟩ | ⟨q1, hlt, sp, _⟩
        · by_cases hr : rest = []
          · have : (sendOk c).w.queue.isEmpty = true := by rw [q1, hr]; rfl
            simp only [this, if_true]
            exact ⟨rfl, Or.inl ⟨by show (sendOk c).w.queue = []; rw [q1, hr], rfl, rfl⟩⟩
          · have hne2 : (sendOk c).w.queue.isEmpty = false := by
              rw [q1]; cases rest with | nil => exact absurd rfl hr | cons _ _ => rfl
            simp only [hne2, Bool.false_eq_true, if_false]
            have hm : measure (sendOk c) ≤ k := by
              unfold measure at hf ⊢
              rw [q1]; rw [hc] at hf
              simp only [List.length_cons, hs, if_false] at hf
              split <;> omega
            have := ih (sendOk c) (by rw [q1]; exact hr) hm
            obtain ⟨a1, a2⟩ := this
            refine ⟨a1, ?_⟩
            rcases a2 with a2 | a2
            · exact Or.inl a2
            · exact Or.inr a2
        · have hne2 : (sendOk c).w.queue.isEmpty = false := by rw [q1]; rfl
          simp only [hne2, Bool.false_eq_true, if_false]
          have hm : measure (sendOk c) ≤ k := by
            unfold measure at hf ⊢
            rw [q1, sp]; rw [hc] at hf
            simp only [List.length_cons, hs, if_false] at hf
            simp only [List.length_cons, if_true]
            omega
          have := ih (sendOk c) (by rw [q1]; simp) hm
          obtain ⟨a1, a2⟩ := this
          refine ⟨a1, ?_⟩
          rcases a2 with a2 | a2
          · exact Or.inl a2
          · exact Or.inr a2

theorem measure_le (c : Conn) : measure c ≤ 2 * c.w.queue.length + 1 := by
  unfold measure; split <;> omega

theorem drainConn_post (c : Conn) (hq : c.w.queue ≠ []) : DrainPost c (drainConn cfg0 c) :=
  drain_post _ c hq (measure_le c)

/-! ### the invariant -/

structure Inv (c : Conn) : Prop where
  /-- pending data is never forgotten: write interest is requested and either the socket is full (its draining will raise
      the event) or the event is already waiting -/
  pend : c.w.queue ≠ [] → c.armed = true ∧ (c.space = 0 ∨ c.edge = true)
  armedOk : c.armed = true → c.w.queue ≠ []
  edgeOk : c.edge = true → c.armed = true
  noAssert : c.assertion = false

theorem inv_init : Inv {} := ⟨fun h => absurd rfl h, fun h => (by cases h), fun h => (by cases h), rfl⟩

theorem inv_of_post (c d : Conn) (ha : c.assertion = false) (h : DrainPost c d) : Inv d := by
  obtain ⟨a1, a2⟩ := h
  rcases a2 with ⟨q, ar, ed⟩ | ⟨q, sp, ar, _⟩
  · exact ⟨fun hq => absurd q hq, fun h => (by rw [ar] at h; cases h), fun h => (by rw [ed] at h; cases h), a1.trans ha⟩
  · exact ⟨fun _ => ⟨ar, Or.inl sp⟩, fun _ => q, fun _ => ar, a1.trans ha⟩

theorem enq_queue_ne (w : WState) (id : Nat) (data : Bytes) : (step w (.enq id data)).queue ≠ [] := by
  simp [step]

theorem inv_handle (c : Conn) (e : Ev) (h : Inv c) : Inv (handle cfg0 c e) := by
  cases e with
  | enqueue id data flush =>
    have hq : (arm { c with w := step c.w (.enq id data) }).w.queue ≠ [] := enq_queue_ne c.w id data
    cases flush with
    | true =>
      show Inv (drainConn cfg0 (arm { c with w := step c.w (.enq id data) }))
      exact inv_of_post (arm { c with w := step c.w (.enq id data) }) _ h.noAssert (drainConn_post _ hq)
    | false =>
      show Inv (arm { c with w := step c.w (.enq id data) })
      refine ⟨fun _ => ⟨rfl, ?_⟩, fun _ => hq, fun _ => rfl, h.noAssert⟩
      show c.space = 0 ∨ (c.edge || decide (0 < c.space)) = true
      by_cases hs : c.space = 0
      · exact Or.inl hs
      · right; simp; right; omega
  | writable =>
    show Inv (if c.edge then (if c.w.queue.isEmpty then { c with edge := false, assertion := true } else drainConn cfg0 (disarm c)) else c)
    split
    · rename_i hedge
      have hq : c.w.queue ≠ [] := h.armedOk (h.edgeOk hedge)
      have hne : c.w.queue.isEmpty = false := by cases hc : c.w.queue with | nil => exact absurd hc hq | cons _ _ => rfl
      simp only [hne, Bool.false_eq_true, if_false]
      exact inv_of_post (disarm c) _ h.noAssert (drainConn_post (disarm c) hq)
    · exact h
  | room n =>
    show Inv { c with space := c.space + n, edge := c.edge || (c.armed && decide (c.space = 0) && decide (0 < n)) }
    refine ⟨fun hq => ?_, h.armedOk, fun he => ?_, h.noAssert⟩
    · obtain ⟨ar, sp⟩ := h.pend hq
      refine ⟨ar, ?_⟩
      show c.space + n = 0 ∨ (c.edge || (c.armed && decide (c.space = 0) && decide (0 < n))) = true
      rcases sp with sp | sp
      · by_cases hn : n = 0
        · left; omega
        · right; simp [ar, sp]; omega
      · right; simp [sp]
    · have he' : (c.edge || (c.armed && decide (c.space = 0) && decide (0 < n))) = true := he
      simp only [Bool.or_eq_true, Bool.and_eq_true] at he'
      rcases he' with he' | he'
      · exact h.edgeOk he'
      · exact he'.1.1

theorem inv_run (evs : List Ev) (c : Conn) (h : Inv c) : Inv (run cfg0 evs c) := by
  induction evs generalizing c with
  | nil => exact h
  | cons e rest ih => exact ih _ (inv_handle c e h)

/-! ### enough room empties the queue -/

/-- every queued entry still has bytes to send (true of every entry whose buffer is not empty) -/
def Live (q : List Entry) : Prop := ∀ e ∈ q, e.off < e.data.length

theorem pending_cons (e : Entry) (rest : List Entry) : pending (e :: rest) = e.data.drop e.off ++ pending rest := by
  simp [pending]

theorem drain_enough (fuel : Nat) (c : Conn) (hl : Live c.w.queue) (hf : measure c ≤ fuel) (hs : pendingBytes c ≤ c.space) :
    (drain cfg0 fuel c).w.queue = [] ∧ (drain cfg0 fuel c).w.wire = c.w.wire ++ pending c.w.queue := by
  induction fuel generalizing c with
  | zero =>
    unfold measure at hf
    cases hc : c.w.queue with
    | nil => simp [drain, hc, pending]
    | cons e r => rw [hc] at hf; simp at hf
  | succ k ih =>
    cases hc : c.w.queue with
    | nil => unfold drain; simp [hc, pending]
    | cons e rest =>
      unfold drain
      have hne : c.w.queue.isEmpty = false := by rw [hc]; rfl
      simp only [hne, Bool.false_eq_true, if_false]
      have hlive : e.off < e.data.length := hl e (by rw [hc]; exact List.mem_cons_self ..)
      have hpb : pendingBytes c = (e.data.length - e.off) + (pending rest).length := by
        unfold pendingBytes; rw [hc, pending_cons]; simp
      have hs0 : c.space ≠ 0 := by omega
      simp only [hs0, if_false]
      rcases sendOk_queue c e rest hc with ⟨q1, _, sp, wi⟩ | ⟨_, hlt, _, _⟩
      · by_cases hr : rest = []
        · have : (sendOk c).w.queue.isEmpty = true := by rw [q1, hr]; rfl
          simp only [this, if_true]
          refine ⟨by show (sendOk c).w.queue = []; rw [q1, hr], ?_⟩
          show (sendOk c).w.wire = _
          rw [wi, pending_cons, hr]; simp [pending]
        · have hne2 : (sendOk c).w.queue.isEmpty = false := by
            rw [q1]; cases rest with | nil => exact absurd rfl hr | cons _ _ => rfl
          simp only [hne2, Bool.false_eq_true, if_false]
          have hm : measure (sendOk c) ≤ k := by
            unfold measure at hf ⊢
            rw [q1]; rw [hc] at hf
            simp only [List.length_cons, hs0, if_false] at hf
            split <;> omega
          have hl' : Live (sendOk c).w.queue := by
            rw [q1]; intro x hx; exact hl x (by rw [hc]; exact List.mem_cons_of_mem _ hx)
          have hs' : pendingBytes (sendOk c) ≤ (sendOk c).space := by
            unfold pendingBytes; rw [q1, sp]; omega
          obtain ⟨r1, r2⟩ := ih (sendOk c) hl' hm hs'
          refine ⟨r1, ?_⟩
          rw [r2, wi, q1, pending_cons, List.append_assoc]
      · omega

end Pistache.WriteInterest
