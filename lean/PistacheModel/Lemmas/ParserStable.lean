/-
Prefix stability of the pure line-step parsers: what a step decided on the bytes it had is what it
decides on any extension of them; while it is still waiting, the effects it has already made are a
prefix of the effects it makes on the extension.
-/
import PistacheModel.Model.Parser

namespace Pistache.Parser
open Pistache Pistache.Stream Pistache.Num

structure Stable {α : Type} (p : P α) : Prop where
  ok : ∀ b e t a r, p b = (t, .ok a r) → p (b ++ e) = (t, .ok a (r ++ e))
  err : ∀ b e t c, p b = (t, .err c) → p (b ++ e) = (t, .err c)
  unspec : ∀ b e t, p b = (t, .unspec) → p (b ++ e) = (t, .unspec)
  again : ∀ b e t, p b = (t, .again) → ∃ t2, (p (b ++ e)).1 = t ++ t2

theorem stable_pure {α : Type} (a : α) : Stable (P.pure a) :=
  ⟨by intro b e t a' r h; simp [P.pure] at h ⊢; obtain ⟨rfl, rfl, rfl⟩ := h; simp,
   by intro b e t c h; simp [P.pure] at h, by intro b e t h; simp [P.pure] at h, by intro b e t h; simp [P.pure] at h⟩

theorem stable_emits (xs : List Eff) : Stable (emits xs) :=
  ⟨by intro b e t a' r h; simp [emits] at h ⊢; obtain ⟨rfl, rfl⟩ := h; simp,
   by intro b e t c h; simp [emits] at h, by intro b e t h; simp [emits] at h, by intro b e t h; simp [emits] at h⟩

theorem stable_emit (x : Eff) : Stable (emit x) :=
  ⟨by intro b e t a' r h; simp [emit] at h ⊢; obtain ⟨rfl, rfl⟩ := h; simp,
   by intro b e t c h; simp [emit] at h, by intro b e t h; simp [emit] at h, by intro b e t h; simp [emit] at h⟩

theorem stable_fail {α : Type} (c : Nat) : Stable (fail c : P α) :=
  ⟨by intro b e t a' r h; simp [fail] at h, by intro b e t c' h; simp [fail] at h ⊢; exact h,
   by intro b e t h; simp [fail] at h, by intro b e t h; simp [fail] at h⟩

theorem stable_failUnspec {α : Type} : Stable (failUnspec : P α) :=
  ⟨by intro b e t a' r h; simp [failUnspec] at h, by intro b e t c' h; simp [failUnspec] at h,
   by intro b e t h; simp [failUnspec] at h ⊢; exact h, by intro b e t h; simp [failUnspec] at h⟩

/-- outcome of a bind, case by case -/
theorem bind_eq {α β : Type} (p : P α) (f : α → P β) (s : Bytes) :
    P.bind p f s = match p s with
      | (t, .ok a r) => (t ++ (f a r).1, (f a r).2)
      | (t, .again) => (t, .again)
      | (t, .err c) => (t, .err c)
      | (t, .unspec) => (t, .unspec) := rfl

theorem stable_bind {α β : Type} (p : P α) (f : α → P β) (hp : Stable p) (hf : ∀ a, Stable (f a)) :
    Stable (P.bind p f) := by
  refine ⟨?_, ?_, ?_, ?_⟩
  · intro b e t a r h
    rw [bind_eq] at h ⊢
    cases hpb : p b with
    | mk t0 o0 =>
      rw [hpb] at h
      cases o0 with
      | ok a0 r0 =>
        simp only at h
        rw [hp.ok b e t0 a0 r0 hpb]
        simp only
        cases hfr : f a0 r0 with
        | mk t1 o1 =>
          rw [hfr] at h
          simp only [Prod.mk.injEq] at h
          obtain ⟨rfl, rfl⟩ := h
          rw [(hf a0).ok r0 e t1 a r hfr]
      | again => simp at h
      | err c => simp at h
      | unspec => simp at h
  · intro b e t c h
    rw [bind_eq] at h ⊢
    cases hpb : p b with
    | mk t0 o0 =>
      rw [hpb] at h
      cases o0 with
      | ok a0 r0 =>
        simp only at h
        rw [hp.ok b e t0 a0 r0 hpb]
        simp only
        cases hfr : f a0 r0 with
        | mk t1 o1 =>
          rw [hfr] at h
          simp only [Prod.mk.injEq] at h
          obtain ⟨rfl, rfl⟩ := h
          rw [(hf a0).err r0 e t1 c hfr]
      | again => simp at h
      | err c0 =>
        simp only [Prod.mk.injEq, Out.err.injEq] at h
        obtain ⟨rfl, rfl⟩ := h
        rw [hp.err b e t0 c0 hpb]
      | unspec => simp at h
  · intro b e t h
    rw [bind_eq] at h ⊢
    cases hpb : p b with
    | mk t0 o0 =>
      rw [hpb] at h
      cases o0 with
      | ok a0 r0 =>
        simp only at h
        rw [hp.ok b e t0 a0 r0 hpb]
        simp only
        cases hfr : f a0 r0 with
        | mk t1 o1 =>
          rw [hfr] at h
          simp only [Prod.mk.injEq] at h
          obtain ⟨rfl, rfl⟩ := h
          rw [(hf a0).unspec r0 e t1 hfr]
      | again => simp at h
      | err c0 => simp at h
      | unspec =>
        simp only [Prod.mk.injEq, and_true] at h
        subst h
        rw [hp.unspec b e t0 hpb]
  · intro b e t h
    rw [bind_eq] at h ⊢
    cases hpb : p b with
    | mk t0 o0 =>
      rw [hpb] at h
      cases o0 with
      | ok a0 r0 =>
        simp only at h
        rw [hp.ok b e t0 a0 r0 hpb]
        simp only
        cases hfr : f a0 r0 with
        | mk t1 o1 =>
          rw [hfr] at h
          simp only [Prod.mk.injEq] at h
          obtain ⟨rfl, rfl⟩ := h
          obtain ⟨t2, ht2⟩ := (hf a0).again r0 e t1 hfr
          exact ⟨t2, by rw [ht2, List.append_assoc]⟩
      | again =>
        simp only [Prod.mk.injEq, and_true] at h
        subst h
        obtain ⟨t2, ht2⟩ := hp.again b e t0 hpb
        cases hpe : p (b ++ e) with
        | mk t' o' =>
          rw [hpe] at ht2
          simp only at ht2
          subst ht2
          cases o' with
          | ok a r => exact ⟨t2 ++ (f a r).1, by simp [List.append_assoc]⟩
          | err c => exact ⟨t2, rfl⟩
          | unspec => exact ⟨t2, rfl⟩
          | again => exact ⟨t2, rfl⟩
      | err c0 => simp at h
      | unspec => simp at h

/-! ### primitives -/

theorem splitUntilRaw_append (stops : List Nat) (b e : Bytes) :
    (untilAny.splitUntilRaw stops b).2 ≠ [] →
    untilAny.splitUntilRaw stops (b ++ e) = ((untilAny.splitUntilRaw stops b).1, (untilAny.splitUntilRaw stops b).2 ++ e) := by
  induction b with
  | nil => intro h; simp [untilAny.splitUntilRaw] at h
  | cons c r ih =>
    intro h
    simp only [List.cons_append, untilAny.splitUntilRaw] at h ⊢
    split
    · simp
    · rename_i hc
      simp only [hc, Bool.false_eq_true, if_false] at h
      rw [ih h]

theorem untilAny_eq (stops : List Nat) (s : Bytes) :
    untilAny stops s = match untilAny.splitUntilRaw stops s with
      | (_, []) => ([], .again)
      | (tok, r) => ([], .ok tok r) := rfl

theorem stable_untilAny (stops : List Nat) : Stable (untilAny stops) := by
  refine ⟨?_, ?_, ?_, ?_⟩
  · intro b e t a r h
    rw [untilAny_eq] at h ⊢
    cases hs : untilAny.splitUntilRaw stops b with
    | mk tok r0 =>
      rw [hs] at h
      cases r0 with
      | nil => simp at h
      | cons x xs =>
        simp only [Prod.mk.injEq, Out.ok.injEq] at h
        obtain ⟨rfl, rfl, rfl⟩ := h
        rw [splitUntilRaw_append stops b e (by rw [hs]; simp), hs]
        simp
  · intro b e t c h
    rw [untilAny_eq] at h
    cases hs : untilAny.splitUntilRaw stops b with
    | mk tok r0 => rw [hs] at h; cases r0 <;> simp at h
  · intro b e t h
    rw [untilAny_eq] at h
    cases hs : untilAny.splitUntilRaw stops b with
    | mk tok r0 => rw [hs] at h; cases r0 <;> simp at h
  · intro b e t h
    rw [untilAny_eq] at h ⊢
    cases hs : untilAny.splitUntilRaw stops b with
    | mk tok r0 =>
      rw [hs] at h
      cases r0 with
      | nil =>
        simp only [Prod.mk.injEq, and_true] at h; subst h
        cases untilAny.splitUntilRaw stops (b ++ e) with
        | mk a r' => cases r' <;> exact ⟨[], rfl⟩
      | cons x xs => simp at h

theorem stable_skip1 : Stable skip1 := by
  refine ⟨?_, ?_, ?_, ?_⟩
  · intro b e t a r h
    cases b with
    | nil => simp [skip1] at h
    | cons c rest => simp [skip1] at h ⊢; obtain ⟨rfl, rfl⟩ := h; simp
  · intro b e t c h; cases b <;> simp [skip1] at h
  · intro b e t h; cases b <;> simp [skip1] at h
  · intro b e t h
    cases b with
    | nil => simp [skip1] at h; subst h; cases e <;> exact ⟨[], rfl⟩
    | cons c rest => simp [skip1] at h

theorem skip2_trace (s : Bytes) : (skip2 s).1 = [] := by
  unfold skip2; split <;> rfl

theorem stable_skip2 : Stable skip2 := by
  refine ⟨?_, ?_, ?_, ?_⟩
  · intro b e t a r h
    unfold skip2 at h
    split at h
    · simp only [Prod.mk.injEq, Out.ok.injEq, true_and] at h
      obtain ⟨rfl, rfl⟩ := h
      simp [skip2]
    · simp at h
  · intro b e t c h; unfold skip2 at h; split at h <;> simp at h
  · intro b e t h; unfold skip2 at h; split at h <;> simp at h
  · intro b e t h
    have : t = [] := by have := skip2_trace b; rw [h] at this; exact this
    subst this
    exact ⟨[], by rw [skip2_trace]; rfl⟩

theorem splitEol_cons_ne (c d : Nat) (t : Bytes) (h : ¬ (c = 13 ∧ d = 10)) :
    splitEol (c :: d :: t) = (splitEol (d :: t)).map (fun p => (c :: p.1, p.2)) := by
  rw [splitEol]
  · intro h1; cases h1
  · intro r h1 h2; injection h2 with h2 _; exact h ⟨h1, h2⟩

theorem splitEol_append (b e : Bytes) : ∀ (tok r : Bytes), splitEol b = some (tok, r) →
    splitEol (b ++ e) = some (tok, r ++ e) := by
  induction b with
  | nil => intro tok r h; simp [splitEol] at h
  | cons c rest ih =>
    intro tok r h
    cases rest with
    | nil => simp [splitEol] at h
    | cons d rest' =>
      by_cases hcd : c = 13 ∧ d = 10
      · obtain ⟨rfl, rfl⟩ := hcd
        simp only [splitEol, Option.some.injEq, Prod.mk.injEq] at h
        obtain ⟨rfl, rfl⟩ := h
        simp [splitEol]
      · rw [splitEol_cons_ne c d rest' hcd] at h
        simp only [List.cons_append]
        rw [splitEol_cons_ne c d (rest' ++ e) hcd]
        cases hs : splitEol (d :: rest') with
        | none => rw [hs] at h; simp at h
        | some p =>
          rw [hs] at h
          simp only [Option.map_some, Option.some.injEq, Prod.mk.injEq] at h
          obtain ⟨rfl, rfl⟩ := h
          have := ih p.1 p.2 (by rw [hs])
          simp only [List.cons_append] at this
          rw [this]; simp

theorem stable_untilEol : Stable untilEol := by
  refine ⟨?_, ?_, ?_, ?_⟩
  · intro b e t a r h
    unfold untilEol at h ⊢
    cases hs : splitEol b with
    | none => rw [hs] at h; simp at h
    | some p =>
      rw [hs] at h
      obtain ⟨tok, r0⟩ := p
      simp only [Prod.mk.injEq, Out.ok.injEq] at h
      obtain ⟨rfl, rfl, rfl⟩ := h
      rw [splitEol_append b e tok r0 hs]
  · intro b e t c h; unfold untilEol at h; split at h <;> simp at h
  · intro b e t h; unfold untilEol at h; split at h <;> simp at h
  · intro b e t h
    unfold untilEol at h ⊢
    have : t = [] := by split at h <;> simp at h <;> exact h
    subst this
    exact ⟨[], by split <;> rfl⟩

end Pistache.Parser
