/-
The rethrow handler forwards the SAME exception: a state invariant of the promise machine, kept by every
step and every operation of a well-formed program (on top of the ownership invariant).
-/
import PistacheModel.Lemmas.PromiseProgram

namespace Pistache.Promise

variable {roots : List Nat}

/-- for a continuation with the rethrow handler that has been told of a rejection: if its derived promise is
    rejected, it is rejected with the exception of the promise the continuation is attached to -/
def RethOK (cs : List Core) : Prop :=
  ∀ c i r e, rq cs c i = some r → r.isUser = true → r.rethrows = true → 1 ≤ r.jc → stOf cs r.chain = .rejected e → e = (stOf cs c).exc

theorem reth_reqUpd {cs cs' : List Core} {c i : Nat} {r r' : Req} (u : ReqUpd cs cs' c i r r')
    (hk : r'.kind = r.kind) (hch : r'.chain = r.chain) (hrc : r.rc ≤ r'.rc) (hjc : r.jc ≤ r'.jc) (h : RethOK cs)
    (hnew : r.isUser = true → r.rethrows = true → ¬ 1 ≤ r.jc → 1 ≤ r'.jc → Pending cs r.chain) : RethOK cs' := by
  intro c' i' x e hx hu hrt hj hst
  obtain ⟨y, hy, hyk, hyc, _, hyj, hne, heq⟩ := u.back hk hch hrc hjc hx
  have hyu : y.isUser = true := by rw [isUser_congr hyk]; exact hu
  have hyr : y.rethrows = true := by rw [rethrows_congr hyk]; exact hrt
  rw [u.st] at hst ⊢
  by_cases h1 : 1 ≤ y.jc
  · exact h c' i' y e hy hyu hyr h1 (by rw [hyc]; exact hst)
  · by_cases hpos : c' = c ∧ i' = i
    · obtain ⟨hx', hy'⟩ := heq hpos
      subst hx'; subst hy'
      have hp := hnew hyu hyr h1 hj
      rw [← hyc] at hst
      unfold Pending at hp; rw [hp] at hst; cases hst
    · have := hne hpos; subst this; exact absurd hj h1

theorem reth_stUpd {cs cs' : List Core} {d : Nat} {s : St} (u : StUpd cs cs' d s) (hns : NoSpent cs d) (h : RethOK cs)
    (hsrc : ∀ c i r e, rq cs c i = some r → r.isUser = true → r.rethrows = true → 1 ≤ r.jc → r.chain = d → s = .rejected e →
      e = (stOf cs' c).exc) : RethOK cs' := by
  intro c i x e hx hu hrt hj hst
  rw [u.rqs] at hx
  by_cases hcd : x.chain = d
  · rw [hcd, u.new] at hst
    exact hsrc c i x e hx hu hrt hj hcd hst
  · rw [u.other _ hcd] at hst
    have := h c i x e hx hu hrt hj hst
    by_cases hc : c = d
    · subst hc; exact absurd hj (hns i x hx (user_settler hu))
    · rw [u.other c hc]; exact this

theorem reth_appUpd {cs cs' : List Core} {p : Nat} {r : Req} (u : AppUpd cs cs' p r) (h0 : r.jc = 0) (h : RethOK cs) : RethOK cs' := by
  intro c i x e hx hu hrt hj hst
  rcases u.back hx with ⟨_, _, rfl⟩ | hx
  · omega
  · rw [u.st] at hst ⊢; exact h c i x e hx hu hrt hj hst

theorem reth_newCore {cs : List Core} (o : OwnC roots cs) (x : Core) (hx : x.reqs = []) (h : RethOK cs) : RethOK (cs ++ [x]) := by
  intro c i y e hy hu hrt hj hst
  rw [rq_append_core cs x hx] at hy
  have hb := o.bound c i y hy (user_settler hu)
  rw [stOf_append_core cs x _ hb] at hst
  rw [stOf_append_core cs x c (rq_some_lt hy)]
  exact h c i y e hy hu hrt hj hst

theorem reth_of_eq {cs cs' : List Core} (h : cs' = cs) (hR : RethOK cs) : RethOK cs' := by subst h; exact hR

theorem reth_fulfilAndWalk (m : M) (d : Nat) (v : Int) (hns : NoSpent m.cores d) (h : RethOK m.cores) : RethOK (fulfilAndWalk m d v).cores := by
  by_cases hd : d < m.cores.length
  · exact reth_stUpd (stUpd_set m.cores d (.fulfilled v) hd) hns h (by intro c i r e _ _ _ _ _ hs; cases hs)
  · exact reth_of_eq (List.set_eq_of_length_le (by omega)) h

theorem reth_rejectAndWalk (m : M) (d : Nat) (e : Nat) (hns : NoSpent m.cores d) (h : RethOK m.cores)
    (hsrc : ∀ c i r, rq m.cores c i = some r → r.isUser = true → r.rethrows = true → 1 ≤ r.jc → r.chain = d →
      e = (stOf (rejectAndWalk m d e).cores c).exc) : RethOK (rejectAndWalk m d e).cores := by
  by_cases hd : d < m.cores.length
  · refine reth_stUpd (stUpd_set m.cores d (.rejected e) hd) hns h ?_
    intro c i r e' hr hu hrt hj hcd hs
    cases hs
    exact hsrc c i r hr hu hrt hj hcd
  · exact reth_of_eq (List.set_eq_of_length_le (by omega)) h

theorem reth_thenOn (m : M) (p : Nat) (r : Req) (h0 : r.jc = 0) (h : RethOK m.cores) : RethOK (thenOn m p r).cores := by
  rw [thenOn_cores]
  by_cases hp : p < m.cores.length
  · exact reth_appUpd (appUpd_set m.cores p r hp) h0 h
  · exact reth_of_eq (List.set_eq_of_length_le (by omega)) h

theorem reth_resolverOn (m : M) (c : Nat) (v : Int) (hns : Pending m.cores c → NoSpent m.cores c) (h : RethOK m.cores) :
    RethOK (resolverOn m c v).cores := by
  unfold resolverOn
  split
  · rename_i hst; exact reth_fulfilAndWalk m c v (hns hst) h
  · exact h

/-- rejecting a root (a combinator target or a promise of the program): it has no holder -/
theorem reth_rejectionOn (m : M) (c : Nat) (e : Nat) (o : OwnC roots m.cores) (hc : c ∈ roots)
    (hns : Pending m.cores c → NoSpent m.cores c) (h : RethOK m.cores) : RethOK (rejectionOn m c e).cores := by
  unfold rejectionOn
  split
  · rename_i hst
    exact reth_rejectAndWalk m c e (hns hst) h (fun c0 i0 r0 h0 hu0 _ _ hc0 => absurd hc0 (o.noHolder c hc c0 i0 r0 h0 hu0))
  · exact h

theorem reth_stepResolve (m : M) (c i : Nat) (h : Own roots m) (hf : Fulfilled m.cores c) (hR : RethOK m.cores) :
    RethOK (stepResolve m c i).cores := by
  unfold stepResolve
  simp only
  split
  · exact hR
  · rename_i r hget
    split
    · exact hR
    · rename_i hrc'
      have hrc : r.rc = 0 := by omega
      have hget : rq m.cores c i = some r := hget
      have hnoj : r.settler = true → ¬ 1 ≤ r.jc := fun hs hj => fulfilled_not_rejOK hf (h.c.jcOK c i r hget hs hj)
      generalize (m.core c).st.val = arg
      obtain ⟨r', hr'⟩ : ∃ r', r' = ({ r with rc := r.rc + 1 } : Req) := ⟨_, rfl⟩
      have hk' : r'.kind = r.kind := by rw [hr']
      have hch' : r'.chain = r.chain := by rw [hr']
      have hrc1 : r'.rc = r.rc + 1 := by rw [hr']
      have hjc' : r'.jc = r.jc := by rw [hr']
      rw [← hr']
      clear hr'
      have u := reqUpd_setReq m.cores c i r r' hget
      obtain ⟨m1, hm1⟩ : ∃ m1, m1 = m.setCore c (setReq (m.core c) i r') := ⟨_, rfl⟩
      have R1 : RethOK m1.cores := by
        rw [hm1]; exact reth_reqUpd u hk' hch' (by omega) (by omega) hR (fun _ _ h0 h1 => absurd h1 (by omega))
      have hpend0 : ∀ d, Pending m1.cores d → Pending m.cores d := by intro d hp; rw [hm1] at hp; exact pending_of_st (u.st _).symm hp
      have hns1 : ∀ d, Pending m.cores d → ¬ Doomed m.cores d → NoSpent m1.cores d := by
        intro d hp hnd; rw [hm1]; exact noSpent_after h.c u hk' hch' (by omega) (by omega) hp hnd (fun hlt => absurd hlt (by omega))
      have hroot : ∀ d, d < m.datas.length → Pending m1.cores (m.data d).target → NoSpent m1.cores (m.data d).target := by
        intro d hd hp
        exact hns1 _ (hpend0 _ hp) (root_not_doomed h.c (h.dTarget _ (data_mem m d hd)))
      have hdat1 : ∀ d, m1.data d = m.data d := by intro d; rw [hm1]; rfl
      rw [← hm1]
      clear hm1
      cases hk : r.kind with
      | user cb ret rej =>
        have hu : r.isUser = true := isUser_of_kind hk
        simp only
        cases ret with
        | value d =>
          simp only
          have hp0 : Pending m.cores r.chain := holder_chain_pending h.c hget hu (by omega) (by omega) (fun hh => hnoj (user_settler hu) hh.2)
          exact reth_fulfilAndWalk { m1 with log := m1.log ++ [.call cb arg] } r.chain (arg + d)
            (hns1 _ hp0 (holder_chain_not_doomed h.c hget hu (hnoj (user_settler hu)))) R1
        | void => exact R1
        | promise q =>
          simp only
          exact reth_thenOn { m1 with log := m1.log ++ [.call cb arg] } q { kind := .chainer, chain := r.chain } rfl R1
      | chainer =>
        have hc : r.isChainer = true := isChainer_of_kind hk
        simp only
        have hp0 : Pending m.cores r.chain := chainer_chain_pending h.c hget hc (by omega) (hnoj (chainer_settler hc))
        exact reth_fulfilAndWalk m1 r.chain arg (hns1 _ hp0 (chainer_chain_not_doomed h.c hget hc)) R1
      | allInput d idx =>
        have hd : d < m.datas.length := by have := h.dReq c i r hget; unfold DataIn at this; rw [hk] at this; exact this
        simp only
        split
        · exact R1
        · split
          · refine reth_resolverOn (m1.setData d _) _ _ ?_ R1
            rw [hdat1]; exact hroot d hd
          · exact R1
      | anyInput d =>
        have hd : d < m.datas.length := by have := h.dReq c i r hget; unfold DataIn at this; rw [hk] at this; exact this
        simp only
        split
        · exact R1
        · refine reth_resolverOn (m1.setData d _) _ _ ?_ R1
          rw [hdat1]; exact hroot d hd

theorem reth_stepReject (m : M) (c i : Nat) (h : Own roots m) (hrej : RejOK m.cores c) (hR : RethOK m.cores) :
    RethOK (stepReject m c i).cores := by
  unfold stepReject
  simp only
  split
  · exact hR
  · rename_i r hget
    split
    · exact hR
    · rename_i hjc'
      have hjc : r.jc = 0 := by omega
      have hget : rq m.cores c i = some r := hget
      have hnor : r.settler = true → ¬ 1 ≤ r.rc := fun hs hj => fulfilled_not_rejOK (h.c.rcOK c i r hget hs hj) hrej
      obtain ⟨e, he⟩ : ∃ e, e = (m.core c).st.exc := ⟨_, rfl⟩
      rw [← he]
      obtain ⟨r', hr'⟩ : ∃ r', r' = ({ r with jc := r.jc + 1 } : Req) := ⟨_, rfl⟩
      have hk' : r'.kind = r.kind := by rw [hr']
      have hch' : r'.chain = r.chain := by rw [hr']
      have hrc' : r'.rc = r.rc := by rw [hr']
      have hjc1 : r'.jc = r.jc + 1 := by rw [hr']
      rw [← hr']
      clear hr'
      have u := reqUpd_setReq m.cores c i r r' hget
      obtain ⟨m1, hm1⟩ : ∃ m1, m1 = m.setCore c (setReq (m.core c) i r') := ⟨_, rfl⟩
      have hb : Own roots m1 := by
        rw [hm1]; exact own_setReq h hget hk' hch' (by omega) (by omega) (fun hs hj => h.c.rcOK c i r hget hs (by omega)) (fun _ _ => hrej)
      have R1 : RethOK m1.cores := by
        rw [hm1]
        refine reth_reqUpd u hk' hch' (by omega) (by omega) hR ?_
        intro hu _ _ _
        exact holder_chain_pending h.c hget hu (fun hh => hnor (user_settler hu) hh.2) (fun hh => hnor (user_settler hu) hh.2) (by omega)
      have hpend0 : ∀ d, Pending m1.cores d → Pending m.cores d := by intro d hp; rw [hm1] at hp; exact pending_of_st (u.st _).symm hp
      have hget1 : rq m1.cores c i = some r' := by rw [hm1]; exact u.new
      have hexc1 : (stOf m1.cores c).exc = e := by rw [hm1, he]; exact congrArg St.exc (u.st c)
      have hns1 : ∀ d, Pending m.cores d → ¬ Doomed m.cores d → NoSpent m1.cores d := by
        intro d hp hnd; rw [hm1]; exact noSpent_after h.c u hk' hch' (by omega) (by omega) hp hnd (fun _ => hrej)
      have hroot : ∀ d, d < m.datas.length → Pending m1.cores (m.data d).target → NoSpent m1.cores (m.data d).target := by
        intro d hd hp
        exact hns1 _ (hpend0 _ hp) (root_not_doomed h.c (h.dTarget _ (data_mem m d hd)))
      have hdat1 : ∀ d, m1.data d = m.data d := by intro d; rw [hm1]; rfl
      rw [← hm1]
      clear hm1
      cases hk : r.kind with
      | user cb ret rej =>
        have hu : r.isUser = true := isUser_of_kind hk
        have hu' : r'.isUser = true := by rw [isUser_congr hk']; exact hu
        simp only
        cases rej with
        | rethrow =>
          simp only
          have hp0 : Pending m.cores r.chain :=
            holder_chain_pending h.c hget hu (fun hh => hnor (user_settler hu) hh.2) (fun hh => hnor (user_settler hu) hh.2) (by omega)
          refine reth_rejectAndWalk m1 r.chain e (hns1 _ hp0 (holder_chain_not_doomed h.c hget hu (by omega))) R1 ?_
          intro c0 i0 r0 h0 hu0 _ _ hc0
          -- the only holder of r.chain is (c, i)
          obtain ⟨rfl, rfl⟩ := hb.c.uniqU c0 i0 r0 c i r' h0 hget1 hu0 hu' (by rw [hc0, hch'])
          -- the exception of c0 after the settlement: unchanged, or (if c0 is the derived core itself) the one just stored
          by_cases hcd : c0 = r.chain
          · by_cases hlt : r.chain < m1.cores.length
            · have hnew : stOf (rejectAndWalk m1 r.chain e).cores r.chain = .rejected e := (stUpd_set m1.cores r.chain (.rejected e) hlt).new
              rw [hcd, hnew]; rfl
            · have hset : (rejectAndWalk m1 r.chain e).cores = m1.cores := List.set_eq_of_length_le (by omega)
              rw [hset, hexc1]
          · by_cases hlt : r.chain < m1.cores.length
            · have hoth : stOf (rejectAndWalk m1 r.chain e).cores c0 = stOf m1.cores c0 := (stUpd_set m1.cores r.chain (.rejected e) hlt).other c0 hcd
              rw [hoth, hexc1]
            · have hset : (rejectAndWalk m1 r.chain e).cores = m1.cores := List.set_eq_of_length_le (by omega)
              rw [hset, hexc1]
        | ignore =>
          cases ret with
          | value d => exact R1
          | void => exact R1
          | promise q => exact R1
        | custom cb' =>
          cases ret with
          | value d => exact R1
          | void => exact R1
          | promise q => exact R1
      | chainer =>
        have hc : r.isChainer = true := isChainer_of_kind hk
        have hc' : r'.isChainer = true := by rw [isChainer_congr hk']; exact hc
        simp only
        have hp0 : Pending m.cores r.chain := chainer_chain_pending h.c hget hc (hnor (chainer_settler hc)) (by omega)
        refine reth_rejectAndWalk m1 r.chain e (hns1 _ hp0 (chainer_chain_not_doomed h.c hget hc)) R1 ?_
        intro c0 i0 r0 h0 hu0 _ hj0 hc0
        -- a holder of a chainer's core has been resolved, so it cannot have been told of a rejection
        obtain ⟨c1, i1, r1, h1, hu1, hc1, _, hrc1⟩ := hb.c.prov c i r' hget1 hc'
        have := holder_unique hb.c h1 hu1 h0 hu0 (by rw [hc0, hc1, hch'])
        subst this
        exact absurd (hb.c.jcOK c0 i0 r0 h0 (user_settler hu0) hj0) (fun hr => fulfilled_not_rejOK (hb.c.rcOK c0 i0 r0 h0 (user_settler hu0) hrc1) hr)
      | allInput d idx =>
        have hd : d < m.datas.length := by have := h.dReq c i r hget; unfold DataIn at this; rw [hk] at this; exact this
        have htgt : (m.data d).target ∈ roots := h.dTarget _ (data_mem m d hd)
        simp only
        split
        · exact R1
        · refine reth_rejectionOn (m1.setData d _) _ _ hb.c (by rw [hdat1]; exact htgt) ?_ R1
          rw [hdat1]; exact hroot d hd
      | anyInput d =>
        have hd : d < m.datas.length := by have := h.dReq c i r hget; unfold DataIn at this; rw [hk] at this; exact this
        have htgt : (m.data d).target ∈ roots := h.dTarget _ (data_mem m d hd)
        simp only
        split
        · exact R1
        · refine reth_rejectionOn (m1.setData d _) _ _ hb.c (by rw [hdat1]; exact htgt) ?_ R1
          rw [hdat1]; exact hroot d hd

theorem reth_step (m : M) (h : Own roots m) (hR : RethOK m.cores) : RethOK (step m).cores := by
  rw [step_eq]
  split
  · exact hR
  · rename_i p r rest hst
    have ha := h.s (.attach p r) (by rw [hst]; exact List.mem_cons_self)
    exact reth_thenOn { m with stack := rest } p r ha.2.2 hR
  · rename_i c i rest hst
    have ha := h.s (.resolveReq c i) (by rw [hst]; exact List.mem_cons_self)
    have hpop : Own roots { m with stack := rest } := own_stack rest h (stackOK_cons (hst ▸ h.s)) (stackData_cons (hst ▸ h.dStack))
    exact reth_stepResolve _ c i hpop ha hR
  · rename_i c i rest hst
    have ha := h.s (.rejectReq c i) (by rw [hst]; exact List.mem_cons_self)
    have hpop : Own roots { m with stack := rest } := own_stack rest h (stackOK_cons (hst ▸ h.s)) (stackData_cons (hst ▸ h.dStack))
    exact reth_stepReject _ c i hpop ha hR

theorem reth_run (fuel : Nat) (m : M) (h : Own roots m) (hR : RethOK m.cores) : RethOK (run fuel m).cores := by
  induction fuel generalizing m with
  | zero => exact hR
  | succ f ih =>
    unfold run
    split
    · exact hR
    · exact ih _ (own_step m h) (reth_step m h hR)

theorem reth_settleDown (m : M) (h : Own roots m) (hR : RethOK m.cores) : RethOK (settleDown m).1.cores :=
  reth_run (fuelFor m) m h hR

theorem reth_exec (m : M) (op : Op) (g : Good roots m) (hwf : wfOp roots op) (hR : RethOK m.cores) : RethOK (exec m op).1.cores := by
  cases op with
  | new => exact reth_newCore g.own.c {} rfl hR
  | newResolved v => exact reth_newCore g.own.c { st := .fulfilled v } rfl hR
  | newRejected e => exact reth_newCore g.own.c { st := .rejected e } rfl hR
  | then_ p cb ret rej =>
    simp only [exec]
    have g1 := good_newCore_derived (m := m) {} rfl g
    have R1 : RethOK (m.newCore {}).1.cores := reth_newCore g.own.c {} rfl hR
    have R2 := reth_thenOn (m.newCore {}).1 p { kind := .user cb ret rej, chain := (m.newCore {}).2 } rfl R1
    -- the ownership invariant of the machine after the attach (as in good_exec)
    have ge := good_exec m (.then_ p cb ret rej) g trivial
    have o2 : Own roots (thenOn (m.newCore {}).1 p { kind := .user cb ret rej, chain := (m.newCore {}).2 }) := by
      refine own_thenOn g1.own ⟨rfl, rfl⟩ ?_ ?_ (by simp [DataIn])
      · intro _
        refine ⟨?_, ?_, ?_, ?_⟩
        · show m.cores.length < (m.cores ++ [({} : Core)]).length; rw [List.length_append, List.length_singleton]; omega
        · intro c i y hy hyu hcc
          have hy' : rq (m.cores ++ [({} : Core)]) c i = some y := hy
          rw [rq_append_core m.cores ({} : Core) rfl] at hy'
          have := g.own.c.bound c i y hy' (user_settler hyu)
          have hcc' : y.chain = m.cores.length := hcc
          omega
        · intro hmem; have := g.own.rootsLt _ hmem; exact Nat.lt_irrefl _ this
        · show stOf (m.cores ++ [({} : Core)]) m.cores.length = .pending
          rw [stOf_append_new]
      · intro hc; simp [Req.isChainer] at hc
    exact reth_settleDown _ o2 R2
  | resolve p v =>
    simp only [exec]
    split
    · rename_i hst
      have hp : Pending m.cores p := hst
      have hns := noSpent_of_not_doomed g.own.c hp (root_not_doomed g.own.c hwf)
      have o2 := own_fulfilAndWalk (v := v) g.own (g.own.rootsLt p hwf) hp (root_not_doomed g.own.c hwf)
        (fun c0 i0 r0 h0 hu0 hc0 => absurd hc0 (g.own.c.noHolder p hwf c0 i0 r0 h0 hu0))
      exact reth_settleDown _ o2 (reth_fulfilAndWalk m p v hns hR)
    · exact hR
  | reject p e =>
    simp only [exec]
    split
    · rename_i hst
      have hp : Pending m.cores p := hst
      have hns := noSpent_of_not_doomed g.own.c hp (root_not_doomed g.own.c hwf)
      have o2 := own_rejectAndWalk (e := e) g.own (g.own.rootsLt p hwf) hp
        (fun c0 i0 r0 h0 hu0 hc0 => absurd hc0 (g.own.c.noHolder p hwf c0 i0 r0 h0 hu0))
      refine reth_settleDown _ o2 (reth_rejectAndWalk m p e hns hR ?_)
      intro c0 i0 r0 h0 hu0 _ _ hc0
      exact absurd hc0 (g.own.c.noHolder p hwf c0 i0 r0 h0 hu0)
    · exact hR
  | whenAll ps =>
    simp only [exec]
    have R1 : RethOK (m.newCore {}).1.cores := reth_newCore g.own.c {} rfl hR
    refine reth_settleDown _ (good_combinator g ps.length _ _ _ ?_).own R1
    intro a ha
    simp only [List.mem_map] at ha
    obtain ⟨pi, _, rfl⟩ := ha
    exact ⟨pi.1, _, rfl, rfl, rfl, rfl, by show (m.newCore {}).1.datas.length < m.datas.length + 1; exact Nat.lt_succ_self _⟩
  | whenAny ps =>
    simp only [exec]
    have R1 : RethOK (m.newCore {}).1.cores := reth_newCore g.own.c {} rfl hR
    refine reth_settleDown _ (good_combinator g ps.length _ _ _ ?_).own R1
    intro a ha
    simp only [List.mem_map] at ha
    obtain ⟨pi, _, rfl⟩ := ha
    exact ⟨pi, _, rfl, rfl, rfl, rfl, by show (m.newCore {}).1.datas.length < m.datas.length + 1; exact Nat.lt_succ_self _⟩

end Pistache.Promise
