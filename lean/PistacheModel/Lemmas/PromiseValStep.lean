/-
The provenance invariant of the combinators (Lemmas/PromiseVal.lean) is kept by every machine step.
-/
import PistacheModel.Lemmas.PromiseVal

namespace Pistache.Promise

variable {roots prog : List Nat}

/-- the derived core of a user continuation is nobody's combined promise -/
theorem holder_chain_ne_target {m : M} (o : Own roots m) {c i : Nat} {r : Req} (hr : rq m.cores c i = some r) (hu : r.isUser = true) :
    ∀ (d : Nat) (dd : Data), m.datas[d]? = some dd → dd.target ≠ r.chain := by
  intro d dd hd ht
  exact absurd ht.symm (o.c.noHolder dd.target (o.dTarget dd (List.mem_of_getElem? hd)) c i r hr hu)

/-- an input of an open all-of block that has not fulfilled yet: the combined promise is still pending -/
theorem target_pending_all_open {m : M} (h : DataOK roots prog m) {d : Nat} (hd : d < m.datas.length) (hopen : (m.data d).rejected = false)
    {c i : Nat} {x : Req} (hx : rq m.cores c i = some x) (hk : isAll d x = true) (hrc : x.rc = 0) : Pending m.cores (m.data d).target := by
  have key : stOf m.cores (m.data d).target ≠ .pending → False := by
    intro hne
    rcases h.closed d _ (data_lookup m d hd) hne with hc | hc
    · rw [hopen] at hc; cases hc
    · have := all_spent h (data_lookup m d hd) hopen hc hx hk
      omega
  rcases st_cases m.cores (m.data d).target with hp | hf | hr
  · exact hp
  · exact absurd (by obtain ⟨v, hv⟩ := hf; rw [hv]; intro e; cases e) key
  · exact absurd (by obtain ⟨v, hv⟩ := hr; rw [hv]; intro e; cases e) key

theorem val_resolverOn {m : M} {t : Nat} {v : Int} (w : ValOK m) (hp : Pending m.cores t)
    (hF : ∀ (d : Nat) (dd : Data), m.datas[d]? = some dd → dd.target = t → FWit m.cores d dd v) : ValOK (resolverOn m t v) := by
  rw [resolverOn_pending m t v hp]; exact val_fulfilAndWalk w hp hF

theorem val_rejectionOn {m : M} {t : Nat} {e : Nat} (w : ValOK m) (hp : Pending m.cores t)
    (hR : ∀ (d : Nat) (dd : Data), m.datas[d]? = some dd → dd.target = t → RWit m.cores d e) : ValOK (rejectionOn m t e) := by
  rw [rejectionOn_pending m t e hp]; exact val_rejectAndWalk w hp hR

theorem val_stepResolve (m : M) (c i : Nat) (o : Own roots m) (h : DataOK roots prog m) (w : ValOK m) (hf : Fulfilled m.cores c) :
    ValOK (stepResolve m c i) := by
  unfold stepResolve
  simp only
  split
  · exact w
  · rename_i r hget
    split
    · exact w
    · rename_i hrc'
      have hrc : r.rc = 0 := by omega
      have hget : rq m.cores c i = some r := hget
      have hnoj : r.settler = true → ¬ 1 ≤ r.jc := fun hs hj => fulfilled_not_rejOK hf (o.c.jcOK c i r hget hs hj)
      obtain ⟨arg, harg⟩ := hf
      have hf : Fulfilled m.cores c := ⟨arg, harg⟩
      have hval : (m.core c).st.val = arg := by
        show (stOf m.cores c).val = arg
        rw [harg]; rfl
      rw [hval]
      obtain ⟨r', hr'⟩ : ∃ r', r' = ({ r with rc := r.rc + 1 } : Req) := ⟨_, rfl⟩
      have hk' : r'.kind = r.kind := by rw [hr']
      have hch' : r'.chain = r.chain := by rw [hr']
      have hrc1 : r'.rc = r.rc + 1 := by rw [hr']
      have hjc' : r'.jc = r.jc := by rw [hr']
      rw [← hr']
      have u := reqUpd_setReq m.cores c i r r' hget
      have hb : Own roots (m.setCore c (setReq (m.core c) i r')) :=
        own_setReq o hget hk' hch' (by omega) (by omega) (fun _ _ => hf) (fun hs hj => o.c.jcOK c i r hget hs (by omega))
      have hget1 : rq (m.setCore c (setReq (m.core c) i r')).cores c i = some r' := u.new
      have w1 : ValOK (m.setCore c (setReq (m.core c) i r')) := val_setReq w hget hk' hch' (by omega) (by omega)
      have harg1 : stOf (m.setCore c (setReq (m.core c) i r')).cores c = .fulfilled arg := by
        rw [show stOf (m.setCore c (setReq (m.core c) i r')).cores c = stOf m.cores c from u.st c]; exact harg
      cases hk : r.kind with
      | user cb ret rej =>
        have hu : r.isUser = true := isUser_of_kind hk
        have hu' : r'.isUser = true := by rw [isUser_congr hk']; exact hu
        simp only
        cases ret with
        | value d =>
          simp only
          have hp0 : Pending m.cores r.chain := holder_chain_pending o.c hget hu (by omega) (by omega) (fun hh => hnoj (user_settler hu) hh.2)
          have hp1 : Pending (m.setCore c (setReq (m.core c) i r')).cores r.chain := pending_of_st (u.st _) hp0
          refine val_fulfilAndWalk (val_log _ w1) hp1 ?_
          intro k dd hl ht
          have := holder_chain_ne_target hb hget1 hu' k dd hl
          rw [hch'] at this
          exact absurd ht this
        | void => exact val_log _ w1
        | promise q =>
          simp only
          exact val_thenOn _ q _ (linkReq_settler (by simp [Req.settler, Req.isChainer])) (fun d k => w1.idxU d k) (val_log _ w1)
      | chainer =>
        have hc : r.isChainer = true := isChainer_of_kind hk
        have hc' : r'.isChainer = true := by rw [isChainer_congr hk']; exact hc
        simp only
        have hp0 : Pending m.cores r.chain := chainer_chain_pending o.c hget hc (by omega) (hnoj (chainer_settler hc))
        have hp1 : Pending (m.setCore c (setReq (m.core c) i r')).cores r.chain := pending_of_st (u.st _) hp0
        refine val_fulfilAndWalk w1 hp1 ?_
        intro k dd hl ht
        obtain ⟨c1, i1, r1, h1, hu1, hc1, _, _⟩ := hb.c.prov c i r' hget1 hc'
        have := holder_chain_ne_target hb h1 hu1 k dd hl
        rw [hc1, hch'] at this
        exact absurd ht this
      | allInput d idx =>
        have hd : d < m.datas.length := by have := o.dReq c i r hget; unfold DataIn at this; rw [hk] at this; exact this
        have hisAll : isAll d r = true := isAll_of_kind hk
        simp only
        split
        · exact w1
        · rename_i hopen'
          have hopen : (m.data d).rejected = false := by
            have : ¬ (m.data d).rejected = true := hopen'
            cases hh : (m.data d).rejected <;> simp_all
          have d2 := data_bumpAll h hget hisAll hrc hf hd hopen ((m.data d).results ++ [(idx, arg)])
          rw [← hr'] at d2
          have hpt : Pending m.cores (m.data d).target := target_pending_all_open h hd hopen hget hisAll hrc
          have hpt1 : Pending (m.setCore c (setReq (m.core c) i r')).cores (m.data d).target := pending_of_st (u.st _) hpt
          have w2 : ValOK ((m.setCore c (setReq (m.core c) i r')).setData d { m.data d with results := (m.data d).results ++ [(idx, arg)], resolved := (m.data d).resolved + 1 }) :=
            val_record (m := m.setCore c (setReq (m.core c) i r')) (d0 := d) w1 hd hget1 (by rw [hk', hk]) (by omega) harg1 hpt1
              (idx_fresh w hget hk hrc hd)
          split
          · rename_i hlast
            have hlast' : (m.data d).resolved + 1 = (m.data d).total := hlast
            have hlk : ((m.setCore c (setReq (m.core c) i r')).setData d { m.data d with results := (m.data d).results ++ [(idx, arg)], resolved := (m.data d).resolved + 1 }).datas[d]?
                = some { m.data d with results := (m.data d).results ++ [(idx, arg)], resolved := (m.data d).resolved + 1 } := by
              show (m.datas.set d _)[d]? = _; exact List.getElem?_set_self hd
            refine val_resolverOn w2 hpt1 ?_
            intro k dd hl ht
            have hkd := d2.tgtDistinct k d dd _ hl hlk ht
            subst hkd
            have e2 := Option.some.inj (hl.symm.trans hlk)
            subst e2
            exact Or.inr ⟨hlast', rfl, c, i, r', idx, hget1, by rw [hk', hk], by omega⟩
          · exact w2
      | anyInput d =>
        have hd : d < m.datas.length := by have := o.dReq c i r hget; unfold DataIn at this; rw [hk] at this; exact this
        have hisAny : isAny d r = true := isAny_of_kind hk
        have d1 : DataOK roots prog (m.setCore c (setReq (m.core c) i r')) :=
          data_setReq h hget hk' hch' (by omega) (by omega) (fun _ => hf) (fun hj => h.inJc c i r hget (by omega))
            (fun k _ _ _ => by unfold fAllR; rw [isAll_congr hk', isAll_of_any hk]; rfl)
        simp only
        split
        · exact w1
        · rename_i hopen'
          have hopen : (m.data d).rejected = false := by
            have : ¬ (m.data d).rejected = true := hopen'
            cases hh : (m.data d).rejected <;> simp_all
          have hp0 := target_pending_any h hd hopen hget hisAny
          have hp1 : Pending (m.setCore c (setReq (m.core c) i r')).cores (m.data d).target := pending_of_st (u.st _) hp0
          have d2 := data_setFlag (d0 := d) d1 hd
          have w2 := val_setFlag (d0 := d) w1 hd
          have hlk : ((m.setCore c (setReq (m.core c) i r')).setData d { m.data d with rejected := true }).datas[d]? = some { m.data d with rejected := true } := by
            show (m.datas.set d _)[d]? = _; exact List.getElem?_set_self hd
          refine val_resolverOn w2 hp1 ?_
          intro k dd hl ht
          have hkd := d2.tgtDistinct k d dd _ hl hlk ht
          subst hkd
          exact Or.inl ⟨c, i, r', hget1, by rw [hk', hk], by omega, harg1⟩

theorem val_stepReject (m : M) (c i : Nat) (o : Own roots m) (h : DataOK roots prog m) (w : ValOK m) (hrej : RejOK m.cores c) :
    ValOK (stepReject m c i) := by
  unfold stepReject
  simp only
  split
  · exact w
  · rename_i r hget
    split
    · exact w
    · rename_i hjc'
      have hjc : r.jc = 0 := by omega
      have hget : rq m.cores c i = some r := hget
      have hnor : ¬ 1 ≤ r.rc := fun hj => fulfilled_not_rejOK (h.inRc c i r hget hj) hrej
      have hexc : stOf m.cores c = .rejected (m.core c).st.exc ∨ (m.core c).st.exc = 0 := by
        show stOf m.cores c = .rejected (stOf m.cores c).exc ∨ (stOf m.cores c).exc = 0
        cases stOf m.cores c with
        | pending => exact Or.inr rfl
        | fulfilled v => exact Or.inr rfl
        | rejected e => exact Or.inl rfl
      generalize (m.core c).st.exc = e at hexc ⊢
      obtain ⟨r', hr'⟩ : ∃ r', r' = ({ r with jc := r.jc + 1 } : Req) := ⟨_, rfl⟩
      have hk' : r'.kind = r.kind := by rw [hr']
      have hch' : r'.chain = r.chain := by rw [hr']
      have hrc' : r'.rc = r.rc := by rw [hr']
      have hjc1 : r'.jc = r.jc + 1 := by rw [hr']
      rw [← hr']
      clear hr'
      have u := reqUpd_setReq m.cores c i r r' hget
      have hb : Own roots (m.setCore c (setReq (m.core c) i r')) :=
        own_setReq o hget hk' hch' (by omega) (by omega) (fun hs hj => o.c.rcOK c i r hget hs (by omega)) (fun _ _ => hrej)
      have hget1 : rq (m.setCore c (setReq (m.core c) i r')).cores c i = some r' := u.new
      have d1 : DataOK roots prog (m.setCore c (setReq (m.core c) i r')) :=
        data_setReq h hget hk' hch' (by omega) (by omega) (fun hj => h.inRc c i r hget (by omega)) (fun _ => hrej)
          (fun d _ _ _ => fAllR_congr hk' hrc')
      have w1 : ValOK (m.setCore c (setReq (m.core c) i r')) := val_setReq w hget hk' hch' (by omega) (by omega)
      have hexc1 : stOf (m.setCore c (setReq (m.core c) i r')).cores c = .rejected e ∨ e = 0 := by
        rw [show stOf (m.setCore c (setReq (m.core c) i r')).cores c = stOf m.cores c from u.st c]; exact hexc
      cases hk : r.kind with
      | user cb ret rej =>
        have hu : r.isUser = true := isUser_of_kind hk
        have hu' : r'.isUser = true := by rw [isUser_congr hk']; exact hu
        simp only
        cases rej with
        | rethrow =>
          simp only
          have hp0 : Pending m.cores r.chain := holder_chain_pending o.c hget hu (fun hh => hnor hh.2) (fun hh => hnor hh.2) (by omega)
          refine val_rejectAndWalk w1 (pending_of_st (u.st _) hp0) ?_
          intro k dd hl ht
          have := holder_chain_ne_target hb hget1 hu' k dd hl
          rw [hch'] at this
          exact absurd ht this
        | ignore =>
          cases ret with
          | value d => exact val_pushWalkRej w1
          | void => exact w1
          | promise q => exact val_pushWalkRej w1
        | custom cb' =>
          cases ret with
          | value d => simp only; exact val_congr (m := { (m.setCore c (setReq (m.core c) i r')) with stack := walk Act.rejectReq r.chain ((m.setCore c (setReq (m.core c) i r')).core r.chain).reqs.length ++ (m.setCore c (setReq (m.core c) i r')).stack }) rfl rfl (fun _ _ hm => hm) (fun _ _ => Nat.le_refl _) (val_pushWalkRej w1)
          | void => exact val_log _ w1
          | promise q => simp only; exact val_congr (m := { (m.setCore c (setReq (m.core c) i r')) with stack := walk Act.rejectReq c (m.core c).reqs.length ++ (m.setCore c (setReq (m.core c) i r')).stack }) rfl rfl (fun _ _ hm => hm) (fun _ _ => Nat.le_refl _) (val_pushWalkRej w1)
      | chainer =>
        have hc : r.isChainer = true := isChainer_of_kind hk
        have hc' : r'.isChainer = true := by rw [isChainer_congr hk']; exact hc
        simp only
        have hp0 : Pending m.cores r.chain := chainer_chain_pending o.c hget hc hnor (by omega)
        refine val_rejectAndWalk w1 (pending_of_st (u.st _) hp0) ?_
        intro k dd hl ht
        obtain ⟨c1, i1, r1, h1, hu1, hc1, _, _⟩ := hb.c.prov c i r' hget1 hc'
        have := holder_chain_ne_target hb h1 hu1 k dd hl
        rw [hc1, hch'] at this
        exact absurd ht this
      | allInput d idx =>
        have hd : d < m.datas.length := by have := o.dReq c i r hget; unfold DataIn at this; rw [hk] at this; exact this
        have hisAll : isAll d r = true := isAll_of_kind hk
        simp only
        split
        · exact w1
        · rename_i hopen'
          have hopen : (m.data d).rejected = false := by
            have : ¬ (m.data d).rejected = true := hopen'
            cases hh : (m.data d).rejected <;> simp_all
          have hp0 := target_pending_all_reject h hd hopen hget hisAll hrej
          have hp1 : Pending (m.setCore c (setReq (m.core c) i r')).cores (m.data d).target := pending_of_st (u.st _) hp0
          have d2 := data_setFlag (d0 := d) d1 hd
          have w2 := val_setFlag (d0 := d) w1 hd
          have hlk : ((m.setCore c (setReq (m.core c) i r')).setData d { m.data d with rejected := true }).datas[d]? = some { m.data d with rejected := true } := by
            show (m.datas.set d _)[d]? = _; exact List.getElem?_set_self hd
          refine val_rejectionOn w2 hp1 ?_
          intro k dd hl ht
          have hkd := d2.tgtDistinct k d dd _ hl hlk ht
          subst hkd
          exact ⟨c, i, r', hget1, Or.inl (by rw [isAll_congr hk']; exact hisAll), by omega, hexc1⟩
      | anyInput d =>
        have hd : d < m.datas.length := by have := o.dReq c i r hget; unfold DataIn at this; rw [hk] at this; exact this
        have hisAny : isAny d r = true := isAny_of_kind hk
        simp only
        split
        · exact w1
        · rename_i hopen'
          have hopen : (m.data d).rejected = false := by
            have : ¬ (m.data d).rejected = true := hopen'
            cases hh : (m.data d).rejected <;> simp_all
          have hp0 := target_pending_any h hd hopen hget hisAny
          have hp1 : Pending (m.setCore c (setReq (m.core c) i r')).cores (m.data d).target := pending_of_st (u.st _) hp0
          have d2 := data_setFlag (d0 := d) d1 hd
          have w2 := val_setFlag (d0 := d) w1 hd
          have hlk : ((m.setCore c (setReq (m.core c) i r')).setData d { m.data d with rejected := true }).datas[d]? = some { m.data d with rejected := true } := by
            show (m.datas.set d _)[d]? = _; exact List.getElem?_set_self hd
          refine val_rejectionOn w2 hp1 ?_
          intro k dd hl ht
          have hkd := d2.tgtDistinct k d dd _ hl hlk ht
          subst hkd
          exact ⟨c, i, r', hget1, Or.inr (by rw [isAny_congr hk']; exact hisAny), by omega, hexc1⟩

theorem val_step (m : M) (o : Own roots m) (h : DataOK roots prog m) (w : ValOK m) : ValOK (step m) := by
  rw [step_eq]
  split
  · exact w
  · rename_i p r rest hst
    refine val_thenOn { m with stack := rest } p r ?_ ?_ (val_pop hst w)
    · exact w.linkS p r (by rw [hst]; exact List.mem_cons_self)
    · intro d k
      have := w.idxU d k
      rw [hst, sIdx_cons] at this
      have e : fIdx d k r = (if attIdx d k (.attach p r) then 1 else 0) := rfl
      show tally (fIdx d k) m.cores + sIdx d k rest + fIdx d k r ≤ 1
      rw [e]
      omega
  · rename_i c i rest hst
    have ha := o.s (.resolveReq c i) (by rw [hst]; exact List.mem_cons_self)
    have hpop : Own roots { m with stack := rest } := own_stack rest o (stackOK_cons (hst ▸ o.s)) (stackData_cons (hst ▸ o.dStack))
    exact val_stepResolve _ c i hpop (data_pop hst h) (val_pop hst w) ha
  · rename_i c i rest hst
    have ha := o.s (.rejectReq c i) (by rw [hst]; exact List.mem_cons_self)
    have hpop : Own roots { m with stack := rest } := own_stack rest o (stackOK_cons (hst ▸ o.s)) (stackData_cons (hst ▸ o.dStack))
    exact val_stepReject _ c i hpop (data_pop hst h) (val_pop hst w) ha

theorem val_run (fuel : Nat) (m : M) (o : Own roots m) (h : DataOK roots prog m) (w : ValOK m) : ValOK (run fuel m) := by
  induction fuel generalizing m with
  | zero => exact w
  | succ f ih =>
    unfold run
    split
    · exact w
    · exact ih _ (own_step m o) (data_step m o h) (val_step m o h w)

end Pistache.Promise
