/-
Stability of the three line steps (request line, status line, headers), from the closure lemmas.
-/
import PistacheModel.Lemmas.ParserStable

namespace Pistache.Parser
open Pistache Pistache.Stream Pistache.Num

theorem stable_seq {α β : Type} (p : P α) (q : P β) (hp : Stable p) (hq : Stable q) : Stable (P.seq p q) :=
  stable_bind p (fun _ => q) hp (fun _ => hq)

/-! ### the query scanner (structural) -/

theorem qScan_stable_aux : ∀ (b : Bytes) (m : QMode) (e : Bytes),
    (∀ t a r, qScan m b = (t, .ok a r) → qScan m (b ++ e) = (t, .ok a (r ++ e))) ∧
    (∀ t c, qScan m b ≠ (t, .err c)) ∧ (∀ t, qScan m b ≠ (t, .unspec)) ∧
    (∀ t, qScan m b = (t, .again) → ∃ t2, (qScan m (b ++ e)).1 = t ++ t2) := by
  intro b
  induction b with
  | nil =>
    intro m e
    refine ⟨?_, ?_, ?_, ?_⟩
    · intro t a r h; cases m <;> simp [qScan] at h
    · intro t c h; cases m <;> simp [qScan] at h
    · intro t h; cases m <;> simp [qScan] at h
    · intro t h
      have : t = [] := by cases m <;> simp [qScan] at h <;> exact h
      subst this; exact ⟨(qScan m ([] ++ e)).1, by simp⟩
  | cons c r ih =>
    intro m e
    -- every branch either stops at this byte or continues on `r` in some mode, possibly after emitting one effect
    have cont : ∀ (m' : QMode),
        (∀ t a r', qScan m' r = (t, .ok a r') → qScan m' (r ++ e) = (t, .ok a (r' ++ e))) ∧
        (∀ t c, qScan m' r ≠ (t, .err c)) ∧ (∀ t, qScan m' r ≠ (t, .unspec)) ∧
        (∀ t, qScan m' r = (t, .again) → ∃ t2, (qScan m' (r ++ e)).1 = t ++ t2) := fun m' => ih m' e
    have contE : ∀ (m' : QMode) (x : Eff),
        (∀ t a r', (x :: (qScan m' r).1, (qScan m' r).2) = (t, Out.ok a r') →
            (x :: (qScan m' (r ++ e)).1, (qScan m' (r ++ e)).2) = (t, Out.ok a (r' ++ e))) ∧
        (∀ t c, (x :: (qScan m' r).1, (qScan m' r).2) ≠ (t, Out.err c)) ∧
        (∀ t, (x :: (qScan m' r).1, (qScan m' r).2) ≠ (t, (Out.unspec : Out Unit))) ∧
        (∀ t, (x :: (qScan m' r).1, (qScan m' r).2) = (t, (Out.again : Out Unit)) →
            ∃ t2, (x :: (qScan m' (r ++ e)).1) = t ++ t2) := by
      intro m' x
      obtain ⟨h1, h2, h3, h4⟩ := cont m'
      refine ⟨?_, ?_, ?_, ?_⟩
      · intro t a r' h
        simp only [Prod.mk.injEq] at h
        obtain ⟨rfl, h⟩ := h
        have := h1 (qScan m' r).1 a r' (by rw [← h])
        rw [this]
      · intro t c h; simp only [Prod.mk.injEq] at h; exact h2 (qScan m' r).1 c (by rw [← h.2])
      · intro t h; simp only [Prod.mk.injEq] at h; exact h3 (qScan m' r).1 (by rw [← h.2])
      · intro t h
        simp only [Prod.mk.injEq] at h
        obtain ⟨rfl, h⟩ := h
        obtain ⟨t2, ht2⟩ := h4 (qScan m' r).1 (by rw [← h])
        exact ⟨t2, by rw [ht2]; rfl⟩
    cases m with
    | head =>
      simp only [List.cons_append, qScan]
      by_cases h1 : c = 32
      · simp only [h1, if_true]
        refine ⟨?_, ?_, ?_, ?_⟩
        · intro t a r' h; simp only [Prod.mk.injEq, Out.ok.injEq] at h; obtain ⟨rfl, _, rfl⟩ := h; simp
        · intro t c' h; simp at h
        · intro t h; simp at h
        · intro t h; simp at h
      · by_cases h2 : c = 61
        · simp only [h1, h2, if_false, if_true]; exact cont _
        · by_cases h3 : c = 38
          · simp only [h1, h2, h3, if_false, if_true]
            obtain ⟨a1, a2, a3, a4⟩ := contE .head (Eff.queryAdd [] [])
            exact ⟨a1, a2, a3, a4⟩
          · simp only [h1, h2, h3, if_false]; exact cont _
    | key acc =>
      simp only [List.cons_append, qScan]
      by_cases h1 : c = 32
      · simp only [h1, if_true]
        refine ⟨?_, ?_, ?_, ?_⟩
        · intro t a r' h; simp only [Prod.mk.injEq, Out.ok.injEq] at h; obtain ⟨rfl, _, rfl⟩ := h; simp
        · intro t c' h; simp at h
        · intro t h; simp at h
        · intro t h; simp at h
      · by_cases h3 : c = 38
        · simp only [h1, h3, if_false, if_true]
          obtain ⟨a1, a2, a3, a4⟩ := contE .head (Eff.queryAdd acc [])
          exact ⟨a1, a2, a3, a4⟩
        · by_cases h2 : c = 61
          · simp only [h1, h2, h3, if_false, if_true]; exact cont _
          · simp only [h1, h2, h3, if_false]; exact cont _
    | val k acc =>
      simp only [List.cons_append, qScan]
      by_cases h1 : c = 32
      · simp only [h1, if_true]
        refine ⟨?_, ?_, ?_, ?_⟩
        · intro t a r' h; simp only [Prod.mk.injEq, Out.ok.injEq] at h; obtain ⟨rfl, _, rfl⟩ := h; simp
        · intro t c' h; simp at h
        · intro t h; simp at h
        · intro t h; simp at h
      · by_cases h3 : c = 38
        · simp only [h1, h3, if_false, if_true]
          obtain ⟨a1, a2, a3, a4⟩ := contE .head (Eff.queryAdd k acc)
          exact ⟨a1, a2, a3, a4⟩
        · simp only [h1, h3, if_false]; exact cont _

theorem stable_qScan (m : QMode) : Stable (qScan m) := by
  refine ⟨?_, ?_, ?_, ?_⟩
  · intro b e t a r h; exact (qScan_stable_aux b m e).1 t a r h
  · intro b e t c h; exact absurd h ((qScan_stable_aux b m e).2.1 t c)
  · intro b e t h; exact absurd h ((qScan_stable_aux b m e).2.2.1 t)
  · intro b e t h; exact (qScan_stable_aux b m e).2.2.2 t h

theorem stable_queryOpt : Stable queryOpt := by
  have hq := stable_qScan .head
  have unf : ∀ (c : Nat) (r : Bytes), c ≠ 63 → queryOpt (c :: r) = ([], .ok () (c :: r)) := by
    intro c r hc; unfold queryOpt; split
    · rename_i heq; cases heq
    · rename_i heq; injection heq with h1 _; exact absurd h1 hc
    · rfl
  refine ⟨?_, ?_, ?_, ?_⟩
  · intro b e t a r h
    cases b with
    | nil => simp [queryOpt] at h
    | cons c rest =>
      by_cases hc : c = 63
      · subst hc; simp only [queryOpt, List.cons_append] at h ⊢; exact hq.ok rest e t a r h
      · rw [unf c rest hc] at h
        simp only [Prod.mk.injEq, Out.ok.injEq] at h
        obtain ⟨rfl, _, rfl⟩ := h
        simp only [List.cons_append]; rw [unf c (rest ++ e) hc]
  · intro b e t c h
    cases b with
    | nil => simp [queryOpt] at h
    | cons x rest =>
      by_cases hc : x = 63
      · subst hc; simp only [queryOpt, List.cons_append] at h ⊢; exact hq.err rest e t c h
      · rw [unf x rest hc] at h; simp at h
  · intro b e t h
    cases b with
    | nil => simp [queryOpt] at h
    | cons x rest =>
      by_cases hc : x = 63
      · subst hc; simp only [queryOpt, List.cons_append] at h ⊢; exact hq.unspec rest e t h
      · rw [unf x rest hc] at h; simp at h
  · intro b e t h
    cases b with
    | nil =>
      simp only [queryOpt, Prod.mk.injEq, and_true] at h; subst h
      exact ⟨(queryOpt ([] ++ e)).1, by simp⟩
    | cons x rest =>
      by_cases hc : x = 63
      · subst hc; simp only [queryOpt, List.cons_append] at h ⊢; exact hq.again rest e t h
      · rw [unf x rest hc] at h; simp at h


/-! ### request line -/

theorem stable_versionEff (ver : Bytes) : Stable (versionEff ver) := by
  unfold versionEff
  split
  · exact stable_emit _
  · split
    · exact stable_emit _
    · exact stable_fail _

theorem stable_requestLine : Stable requestLine := by
  unfold requestLine
  apply stable_bind _ _ (stable_untilAny _)
  intro mtok
  split
  · exact stable_fail _
  · apply stable_seq _ _ (stable_emit _)
    apply stable_seq _ _ stable_skip1
    apply stable_bind _ _ (stable_untilAny _)
    intro res
    apply stable_seq _ _ (stable_emit _)
    apply stable_seq _ _ stable_queryOpt
    apply stable_seq _ _ stable_skip1
    apply stable_bind _ _ stable_untilEol
    intro ver
    exact stable_seq _ _ (stable_versionEff ver) stable_skip2

/-! ### status line -/

theorem stable_expectSpOrEof : Stable expectSpOrEof := by
  refine ⟨?_, ?_, ?_, ?_⟩
  · intro b e t a r h
    cases b with
    | nil => simp [expectSpOrEof] at h
    | cons c rest =>
      simp only [expectSpOrEof, List.cons_append] at h ⊢
      split at h
      · rename_i hc; simp only [Prod.mk.injEq, Out.ok.injEq, true_and] at h; obtain ⟨rfl, rfl⟩ := h; simp [hc]
      · simp at h
  · intro b e t c h
    cases b with
    | nil => simp [expectSpOrEof] at h
    | cons x rest =>
      simp only [expectSpOrEof, List.cons_append] at h ⊢
      split at h
      · simp at h
      · rename_i hc; simp only [Prod.mk.injEq, Out.err.injEq] at h; obtain ⟨rfl, rfl⟩ := h; simp [hc]
  · intro b e t h
    cases b with
    | nil => simp [expectSpOrEof] at h
    | cons x rest => simp only [expectSpOrEof] at h; split at h <;> simp at h
  · intro b e t h
    cases b with
    | nil => simp only [expectSpOrEof, Prod.mk.injEq, and_true] at h; subst h; exact ⟨(expectSpOrEof ([] ++ e)).1, by simp⟩
    | cons x rest => simp only [expectSpOrEof] at h; split at h <;> simp at h

theorem stable_codeEff (ctok : Bytes) : Stable (codeEff ctok) := by
  unfold codeEff; split
  · exact stable_fail _
  · exact stable_emit _

theorem stable_statusRest : Stable statusRest := by
  unfold statusRest
  apply stable_seq _ _ stable_expectSpOrEof
  apply stable_bind _ _ (stable_untilAny _)
  intro ctok
  apply stable_seq _ _ (stable_codeEff ctok)
  apply stable_seq _ _ stable_skip1
  apply stable_bind _ _ stable_untilEol
  intro _
  exact stable_skip2

theorem isPrefixOf_append_of_le (pat b e : Bytes) (h : pat.length ≤ b.length) :
    pat.isPrefixOf (b ++ e) = pat.isPrefixOf b := by
  induction pat generalizing b with
  | nil => simp
  | cons x xs ih =>
    cases b with
    | nil => simp at h
    | cons y ys =>
      simp only [List.cons_append, List.isPrefixOf_cons_cons]
      rw [ih ys (by simpa using h)]

theorem stable_responseLine : Stable responseLine := by
  have hs := stable_statusRest
  have h8a : (bytes "HTTP/1.1").length = 8 := by decide
  have h8b : (bytes "HTTP/1.0").length = 8 := by decide
  have key : ∀ (b e : Bytes), 8 ≤ b.length →
      responseLine (b ++ e) =
        (if ¬ ((bytes "HTTP/1.1").isPrefixOf b ∨ (bytes "HTTP/1.0").isPrefixOf b) then ([], .err 400)
         else statusRest (b.drop 8 ++ e)) := by
    intro b e hb
    unfold responseLine
    rw [if_neg (by simp only [List.length_append]; omega)]
    rw [isPrefixOf_append_of_le _ b e (by omega), isPrefixOf_append_of_le _ b e (by omega)]
    rw [List.drop_append_of_le_length hb]
  have base : ∀ (b : Bytes), 8 ≤ b.length →
      responseLine b =
        (if ¬ ((bytes "HTTP/1.1").isPrefixOf b ∨ (bytes "HTTP/1.0").isPrefixOf b) then ([], .err 400)
         else statusRest (b.drop 8)) := by
    intro b hb; have := key b [] hb; simpa using this
  have short : ∀ (b : Bytes), b.length < 8 → responseLine b = ([], .again) := by
    intro b hb; unfold responseLine; rw [if_pos hb]
  refine ⟨?_, ?_, ?_, ?_⟩
  · intro b e t a r h
    by_cases hb : b.length < 8
    · rw [short b hb] at h; simp at h
    · rw [base b (by omega)] at h; rw [key b e (by omega)]
      split at h
      · simp at h
      · rename_i hp; rw [if_neg hp]; exact hs.ok _ e t a r h
  · intro b e t c h
    by_cases hb : b.length < 8
    · rw [short b hb] at h; simp at h
    · rw [base b (by omega)] at h; rw [key b e (by omega)]
      split at h
      · rename_i hp; rw [if_pos hp]; exact h
      · rename_i hp; rw [if_neg hp]; exact hs.err _ e t c h
  · intro b e t h
    by_cases hb : b.length < 8
    · rw [short b hb] at h; simp at h
    · rw [base b (by omega)] at h; rw [key b e (by omega)]
      split at h
      · simp at h
      · rename_i hp; rw [if_neg hp]; exact hs.unspec _ e t h
  · intro b e t h
    by_cases hb : b.length < 8
    · rw [short b hb] at h; simp only [Prod.mk.injEq, and_true] at h; subst h; exact ⟨(responseLine (b ++ e)).1, by simp⟩
    · rw [base b (by omega)] at h; rw [key b e (by omega)]
      split at h
      · simp at h
      · rename_i hp; rw [if_neg hp]; exact hs.again _ e t h

/-! ### headers -/

theorem dropSp_append (b e : Bytes) (h : dropSp b ≠ []) : dropSp (b ++ e) = dropSp b ++ e := by
  induction b with
  | nil => simp [dropSp] at h
  | cons c r ih =>
    by_cases hc : c = 32
    · subst hc; simp only [List.cons_append, dropSp] at h ⊢; exact ih h
    · have unf : ∀ (t : Bytes), dropSp (c :: t) = c :: t := by
        intro t; unfold dropSp; split
        · rename_i heq; injection heq with h1 _; exact absurd h1 hc
        · rfl
      simp only [List.cons_append]; rw [unf, unf]; rfl

theorem untilEol_trace (s : Bytes) : (untilEol s).1 = [] := by unfold untilEol; split <;> rfl

theorem stable_valueTok : Stable valueTok := by
  have hu := stable_untilEol
  refine ⟨?_, ?_, ?_, ?_⟩
  · intro b e t a r h
    unfold valueTok at h ⊢
    have hne : dropSp b ≠ [] := by intro hn; rw [hn] at h; simp [untilEol, splitEol] at h
    rw [dropSp_append b e hne]; exact hu.ok _ e t a r h
  · intro b e t c h
    unfold valueTok at h ⊢
    have hne : dropSp b ≠ [] := by intro hn; rw [hn] at h; simp [untilEol, splitEol] at h
    rw [dropSp_append b e hne]; exact hu.err _ e t c h
  · intro b e t h
    unfold valueTok at h ⊢
    have hne : dropSp b ≠ [] := by intro hn; rw [hn] at h; simp [untilEol, splitEol] at h
    rw [dropSp_append b e hne]; exact hu.unspec _ e t h
  · intro b e t h
    unfold valueTok at h ⊢
    have : t = [] := by have := untilEol_trace (dropSp b); rw [h] at this; exact this
    subst this
    exact ⟨[], by rw [untilEol_trace]; rfl⟩

theorem stable_headerEff (name value : Bytes) : Stable (headerEff name value) := by
  unfold headerEff
  split
  · exact stable_fail _
  · exact stable_failUnspec
  · exact stable_emits _

theorem stable_headerLine : Stable headerLine := by
  unfold headerLine
  apply stable_bind _ _ (stable_untilAny _)
  intro name
  apply stable_seq _ _ stable_skip1
  apply stable_bind _ _ stable_valueTok
  intro value
  exact stable_seq _ _ (stable_headerEff name value) stable_skip2


/-! ### the header loop -/

theorem headerLine_short (b : Bytes) (h : b.length < 2) (q : P Unit) : P.seq headerLine q b = ([], .again) := by
  match b, h with
  | [], _ => simp [P.seq, bind_eq, headerLine, untilAny_eq, untilAny.splitUntilRaw]
  | [x], _ =>
    by_cases hx : x = 58
    · subst hx
      simp [P.seq, bind_eq, headerLine, untilAny_eq, untilAny.splitUntilRaw, skip1, valueTok, dropSp, untilEol, splitEol]
    · simp [P.seq, bind_eq, headerLine, untilAny_eq, untilAny.splitUntilRaw, hx]

theorem headersLoop_crlf (f : Nat) (r : Bytes) : headersLoop (f + 1) (13 :: 10 :: r) = ([], .ok () r) := rfl

theorem headersLoop_other (f : Nat) (s : Bytes) (h : ∀ r, s ≠ 13 :: 10 :: r) :
    headersLoop (f + 1) s = P.seq headerLine (headersLoop f) s := by
  rw [headersLoop]
  show (match s with | 13 :: 10 :: r => ([], Out.ok () r) | _ => headerLine.seq (headersLoop f) s) = _
  split
  · rename_i r; exact absurd rfl (h r)
  · rfl

theorem stable_headersLoop (f : Nat) : Stable (headersLoop f) := by
  induction f with
  | zero =>
    refine ⟨?_, ?_, ?_, ?_⟩
    · intro b e t a r h; simp [headersLoop] at h
    · intro b e t c h; simp [headersLoop] at h
    · intro b e t h; simp [headersLoop] at h
    · intro b e t h; simp [headersLoop] at h ⊢; exact h
  | succ f ih =>
    have hseq := stable_seq headerLine (headersLoop f) stable_headerLine ih
    -- shape analysis of the buffer
    have shape : ∀ (b : Bytes), (∃ r, b = 13 :: 10 :: r) ∨ b.length < 2 ∨ (2 ≤ b.length ∧ ∀ r, b ≠ 13 :: 10 :: r) := by
      intro b
      match b with
      | [] => right; left; simp
      | [_] => right; left; simp
      | x :: y :: r =>
        by_cases h : x = 13 ∧ y = 10
        · left; obtain ⟨rfl, rfl⟩ := h; exact ⟨r, rfl⟩
        · right; right; refine ⟨by simp, ?_⟩
          intro r' heq; injection heq with h1 h2; injection h2 with h2 _; exact h ⟨h1, h2⟩
    have ext_other : ∀ (b e : Bytes), 2 ≤ b.length → (∀ r, b ≠ 13 :: 10 :: r) → ∀ r, b ++ e ≠ 13 :: 10 :: r := by
      intro b e hl hne r heq
      match b, hl with
      | x :: y :: r0, _ =>
        simp only [List.cons_append] at heq
        injection heq with h1 h2; injection h2 with h2 h3
        exact hne r0 (by rw [h1, h2])
    refine ⟨?_, ?_, ?_, ?_⟩
    · intro b e t a r h
      rcases shape b with ⟨r0, rfl⟩ | hs | ⟨hl, hne⟩
      · rw [headersLoop_crlf] at h
        simp only [Prod.mk.injEq, Out.ok.injEq, true_and] at h; obtain ⟨rfl, rfl⟩ := h
        simp [headersLoop]
      · have hne : ∀ r, b ≠ 13 :: 10 :: r := by intro r' heq; rw [heq] at hs; simp at hs; omega
        rw [headersLoop_other f b hne, headerLine_short b hs] at h; simp at h
      · rw [headersLoop_other f b hne] at h
        rw [headersLoop_other f (b ++ e) (ext_other b e hl hne)]
        exact hseq.ok b e t a r h
    · intro b e t c h
      rcases shape b with ⟨r0, rfl⟩ | hs | ⟨hl, hne⟩
      · rw [headersLoop_crlf] at h; simp at h
      · have hne : ∀ r, b ≠ 13 :: 10 :: r := by intro r' heq; rw [heq] at hs; simp at hs; omega
        rw [headersLoop_other f b hne, headerLine_short b hs] at h; simp at h
      · rw [headersLoop_other f b hne] at h
        rw [headersLoop_other f (b ++ e) (ext_other b e hl hne)]
        exact hseq.err b e t c h
    · intro b e t h
      rcases shape b with ⟨r0, rfl⟩ | hs | ⟨hl, hne⟩
      · rw [headersLoop_crlf] at h; simp at h
      · have hne : ∀ r, b ≠ 13 :: 10 :: r := by intro r' heq; rw [heq] at hs; simp at hs; omega
        rw [headersLoop_other f b hne, headerLine_short b hs] at h; simp at h
      · rw [headersLoop_other f b hne] at h
        rw [headersLoop_other f (b ++ e) (ext_other b e hl hne)]
        exact hseq.unspec b e t h
    · intro b e t h
      rcases shape b with ⟨r0, rfl⟩ | hs | ⟨hl, hne⟩
      · rw [headersLoop_crlf] at h; simp at h
      · have hne : ∀ r, b ≠ 13 :: 10 :: r := by intro r' heq; rw [heq] at hs; simp at hs; omega
        rw [headersLoop_other f b hne, headerLine_short b hs] at h
        simp only [Prod.mk.injEq, and_true] at h; subst h
        exact ⟨(headersLoop (f + 1) (b ++ e)).1, by simp⟩
      · rw [headersLoop_other f b hne] at h
        rw [headersLoop_other f (b ++ e) (ext_other b e hl hne)]
        exact hseq.again b e t h

/-! ### enough fuel: one header line consumes at least one byte -/

theorem splitUntilRaw_len (stops : List Nat) (s : Bytes) : (untilAny.splitUntilRaw stops s).2.length ≤ s.length := by
  induction s with
  | nil => simp [untilAny.splitUntilRaw]
  | cons c r ih => simp only [untilAny.splitUntilRaw]; split <;> simp <;> omega

theorem splitEol_len (s : Bytes) : ∀ p, splitEol s = some p → p.2.length ≤ s.length := by
  induction s with
  | nil => intro p h; simp [splitEol] at h
  | cons c r ih =>
    intro p h
    cases r with
    | nil => simp [splitEol] at h
    | cons d r' =>
      by_cases hcd : c = 13 ∧ d = 10
      · obtain ⟨rfl, rfl⟩ := hcd; simp [splitEol] at h; subst h; simp
      · rw [splitEol_cons_ne c d r' hcd] at h
        cases hs : splitEol (d :: r') with
        | none => rw [hs] at h; simp at h
        | some q =>
          rw [hs] at h; simp at h; subst h
          have := ih q hs; simp at this ⊢; omega

theorem dropSp_len (s : Bytes) : (dropSp s).length ≤ s.length := by
  induction s with
  | nil => simp [dropSp]
  | cons c r ih =>
    by_cases hc : c = 32
    · subst hc; simp only [dropSp, List.length_cons]; omega
    · have : dropSp (c :: r) = c :: r := by
        unfold dropSp; split
        · rename_i heq; injection heq with h1 _; exact absurd h1 hc
        · rfl
      rw [this]; exact Nat.le_refl _

theorem headerLine_consumes (s : Bytes) (t : List Eff) (a : Unit) (r : Bytes)
    (h : headerLine s = (t, .ok a r)) : r.length < s.length := by
  unfold headerLine at h
  rw [bind_eq, untilAny_eq] at h
  have hl1 := splitUntilRaw_len [58] s
  cases hs : untilAny.splitUntilRaw [58] s with
  | mk name r1 =>
    rw [hs] at h hl1
    cases r1 with
    | nil => simp at h
    | cons c r2 =>
      simp only [P.seq, bind_eq, skip1] at h
      -- valueTok r2
      unfold valueTok untilEol at h
      cases he : splitEol (dropSp r2) with
      | none => rw [he] at h; simp at h
      | some p =>
        obtain ⟨v, r3⟩ := p
        rw [he] at h
        simp only [List.nil_append] at h
        have hl3 := splitEol_len _ _ he
        have hl2 := dropSp_len r2
        simp only at hl3
        -- headerEff then skip2
        cases hh : headerEff name v r3 with
        | mk t4 o4 =>
          rw [hh] at h
          cases o4 with
          | ok a4 r4 =>
            simp only at h
            have hr4 : r4 = r3 := by
              unfold headerEff at hh
              cases hx : headerEffects name v with
              | error eo => rw [hx] at hh; cases eo <;> simp [fail, failUnspec] at hh
              | ok es => rw [hx] at hh; simp [emits] at hh; exact hh.2.symm
            subst hr4
            unfold skip2 at h
            split at h
            · simp only [Prod.mk.injEq, Out.ok.injEq, true_and] at h
              obtain ⟨_, rfl⟩ := h
              simp only [List.length_cons] at hl1 hl3 ⊢; omega
            · simp at h
          | again => simp at h
          | err c => simp at h
          | unspec => simp at h

theorem headersLoop_fuel (f : Nat) : ∀ (s : Bytes), s.length + 1 ≤ f → headersLoop f s = headersLoop (f + 1) s := by
  induction f with
  | zero => intro s h; omega
  | succ f ih =>
    intro s h
    by_cases hc : ∃ r, s = 13 :: 10 :: r
    · obtain ⟨r, rfl⟩ := hc; rw [headersLoop_crlf, headersLoop_crlf]
    · have hne : ∀ r, s ≠ 13 :: 10 :: r := fun r heq => hc ⟨r, heq⟩
      rw [headersLoop_other f s hne, headersLoop_other (f + 1) s hne]
      simp only [P.seq, bind_eq]
      cases hh : headerLine s with
      | mk t o =>
        cases o with
        | ok a r =>
          have := headerLine_consumes s t a r hh
          simp only
          rw [ih r (by omega)]
        | again => rfl
        | err c => rfl
        | unspec => rfl

theorem headersLoop_fuel_add (s : Bytes) (k : Nat) : headersLoop (s.length + 1) s = headersLoop (s.length + 1 + k) s := by
  induction k with
  | zero => rfl
  | succ k ih => rw [ih]; exact headersLoop_fuel _ s (by omega)

theorem stable_headers : Stable headers := by
  have key : ∀ (b e : Bytes), headers b = headersLoop ((b ++ e).length + 1) b := by
    intro b e
    unfold headers
    have := headersLoop_fuel_add b e.length
    rw [this]; congr 1; simp; omega
  refine ⟨?_, ?_, ?_, ?_⟩
  · intro b e t a r h
    rw [key b e] at h
    exact (stable_headersLoop _).ok b e t a r h
  · intro b e t c h
    rw [key b e] at h
    exact (stable_headersLoop _).err b e t c h
  · intro b e t h
    rw [key b e] at h
    exact (stable_headersLoop _).unspec b e t h
  · intro b e t h
    rw [key b e] at h
    exact (stable_headersLoop _).again b e t h

theorem stable_firstLine (k : Kind) : Stable (firstLine k) := by
  unfold firstLine; split
  · exact stable_requestLine
  · exact stable_responseLine

end Pistache.Parser
