import PistacheModel.Model.Headers
import PistacheModel.Lemmas.Net

namespace Pistache.Headers
open Pistache Pistache.Stream Pistache.Num Pistache.Net

/-! ## exact-prefix tables (`match_raw` chains) -/

def prefixB (a b : Bytes) : Bool := a.isPrefixOf b

/-- no entry is a prefix of another entry (either direction) -/
def noClashRaw : List Bytes → Bool
  | [] => true
  | e :: es => es.all (fun t => !prefixB e t && !prefixB t e) && noClashRaw es

theorem isPrefixOf_append_split (e t tail : Bytes) (h : e.isPrefixOf (t ++ tail) = true) :
    e.isPrefixOf t = true ∨ t.isPrefixOf e = true := by
  induction e generalizing t with
  | nil => left; simp
  | cons x xs ih =>
    cases t with
    | nil => right; simp
    | cons y ys =>
      simp only [List.cons_append, List.isPrefixOf_cons₂, Bool.and_eq_true, beq_iff_eq] at h ⊢
      rcases ih ys h.2 with h' | h'
      · left; exact ⟨h.1, h'⟩
      · right; exact ⟨h.1.symm, h'⟩

theorem matchRaw_self (t tail : Bytes) : matchRaw t (t ++ tail) = some tail := by
  unfold matchRaw
  have : t.isPrefixOf (t ++ tail) = true := by
    rw [List.isPrefixOf_iff_prefix]; exact List.prefix_append _ _
  simp [this]

theorem matchRaw_miss (e t tail : Bytes) (h1 : prefixB e t = false) (h2 : prefixB t e = false) :
    matchRaw e (t ++ tail) = none := by
  unfold matchRaw
  split
  · rename_i h
    rcases isPrefixOf_append_split e t tail h with h' | h'
    · simp [prefixB, h'] at h1
    · simp [prefixB, h'] at h2
  · rfl

theorem matchRawTable_hit (tbl : List (String × String)) (hnc : noClashRaw (tbl.map (fun p => bytes p.1)) = true)
    (p : String × String) (hp : p ∈ tbl) (tail : Bytes) :
    matchRawTable tbl (bytes p.1 ++ tail) = some (p.2, tail) := by
  induction tbl with
  | nil => simp at hp
  | cons e es ih =>
    obtain ⟨etxt, ek⟩ := e
    simp only [List.map_cons, noClashRaw, Bool.and_eq_true, List.all_eq_true] at hnc
    simp only [List.mem_cons] at hp
    rcases hp with rfl | hp
    · simp only [matchRawTable, matchRaw_self]
    · have hc := hnc.1 (bytes p.1) (List.mem_map_of_mem hp)
      simp only [Bool.and_eq_true, Bool.not_eq_true'] at hc
      simp only [matchRawTable, matchRaw_miss _ _ tail hc.1 hc.2]
      exact ih hnc.2 hp

theorem matchRawTable_miss (tbl : List (String × String)) (t tail : Bytes)
    (h : ∀ p ∈ tbl, prefixB (bytes p.1) t = false ∧ prefixB t (bytes p.1) = false) :
    matchRawTable tbl (t ++ tail) = none := by
  induction tbl with
  | nil => rfl
  | cons e es ih =>
    obtain ⟨etxt, ek⟩ := e
    have he := h (etxt, ek) (by simp)
    simp only [matchRawTable, matchRaw_miss _ _ tail he.1 he.2]
    exact ih (fun p hp => h p (by simp [hp]))

/-! ## strtol on a signed decimal followed by clean text -/

def inLong (v : Int) : Prop := -9223372036854775808 ≤ v ∧ v ≤ 9223372036854775807

/-- what may follow delta-seconds: nothing or a comma -/
def CommaRest (t : Bytes) : Prop := t = [] ∨ ∃ t', t = 44 :: t'

theorem spanDigits_commaRest (ds t : Bytes) (hd : AllDigits ds) (ht : CommaRest t) :
    spanDigits (ds ++ t) = (ds, t) := by
  rcases ht with rfl | ⟨t', rfl⟩
  · simpa using spanDigits_all ds hd
  · exact spanDigits_stop ds hd 44 t' (by decide)

theorem strtol10_intToDec (v : Int) (hv : inLong v) (t : Bytes) (ht : CommaRest t) :
    strtol10 (intToDec v ++ t) = (v, t) := by
  unfold intToDec
  by_cases hneg : v < 0
  · simp only [hneg, if_true]
    have hd := natToDec_digits v.natAbs
    have hne : (natToDec v.natAbs).isEmpty = false := by
      cases h : natToDec v.natAbs with | nil => exact absurd h (natToDec_ne_nil _) | cons _ _ => rfl
    unfold strtol10
    simp only [List.cons_append, dropSpaces, isSpace, signOf, afterSign]
    simp only [show (decide ((45:Nat) = 32) || decide (9 ≤ (45:Nat)) && decide ((45:Nat) ≤ 13)) = false by decide,
      Bool.false_eq_true, if_false]
    rw [spanDigits_commaRest _ _ hd ht]
    simp only [hne, Bool.false_eq_true, if_false, if_true, natToDec_val]
    obtain ⟨h1, h2⟩ := hv
    have : ¬ (v.natAbs > longMax + 1) := by unfold longMax; omega
    simp only [this, if_false]
    congr 1; omega
  · simp only [hneg, if_false]
    have hd := natToDec_digits v.toNat
    have hne : (natToDec v.toNat).isEmpty = false := by
      cases h : natToDec v.toNat with | nil => exact absurd h (natToDec_ne_nil _) | cons _ _ => rfl
    obtain ⟨x, r, hx⟩ : ∃ x r, natToDec v.toNat = x :: r := by
      cases h : natToDec v.toNat with | nil => exact absurd h (natToDec_ne_nil _) | cons a b => exact ⟨a, b, rfl⟩
    have hxd : isDigit x = true := hd x (by rw [hx]; simp)
    have hds : dropSpaces (natToDec v.toNat ++ t) = natToDec v.toNat ++ t := by
      rw [hx]; simp only [List.cons_append, dropSpaces]
      have : isSpace x = false := by
        simp only [isDigit, Bool.and_eq_true, decide_eq_true_eq] at hxd; simp [isSpace]; omega
      simp [this]
    have hsg : afterSign (natToDec v.toNat ++ t) = natToDec v.toNat ++ t ∧ signOf (natToDec v.toNat ++ t) = false := by
      rw [hx]; simp only [List.cons_append]
      simp only [isDigit, Bool.and_eq_true, decide_eq_true_eq] at hxd
      constructor
      · unfold afterSign; split <;> first | rfl | (rename_i heq; injection heq with h1 _; omega)
      · unfold signOf; split <;> first | rfl | (rename_i heq; injection heq with h1 _; omega)
    unfold strtol10
    simp only [hds, hsg.1, hsg.2, spanDigits_commaRest _ _ hd ht, hne, Bool.false_eq_true, if_false, natToDec_val]
    obtain ⟨h1, h2⟩ := hv
    have : ¬ (v.toNat > longMax) := by unfold longMax; omega
    simp only [this, if_false]
    congr 1; omega

end Pistache.Headers
