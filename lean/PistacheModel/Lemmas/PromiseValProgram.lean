/-
The provenance invariant of the combinators over the operations of a well-formed program.
-/
import PistacheModel.Lemmas.PromiseValStep

namespace Pistache.Promise

variable {roots prog : List Nat}

theorem val_clear {m : M} (w : ValOK m) : ValOK { m with aborted := false, stack := [] } :=
  val_congr (m := m) rfl rfl (fun _ _ hm => by cases hm) (fun d k => Nat.zero_le _) w

theorem val_settleDown {m : M} (o : Own roots m) (h : DataOK roots prog m) (w : ValOK m) : ValOK (settleDown m).1 :=
  val_clear (val_run (fuelFor m) m o h w)

/-- a new core without requests -/
theorem val_newCore {m : M} (x : Core) (hx : x.reqs = []) (o : Own roots m) (w : ValOK m) : ValOK (m.newCore x).1 := by
  have e := ext_newCore m.cores x hx
  refine val_frame (m' := (m.newCore x).1) w rfl e.fwd e.stable ?_ ?_ (fun _ _ hm => hm) ?_
  · intro dd hdd
    exact stOf_append_core m.cores x _ (o.rootsLt _ (o.dTarget dd hdd))
  · intro c i y hy
    have hy' : rq (m.cores ++ [x]) c i = some y := hy
    rw [rq_append_core m.cores x hx] at hy'
    exact Or.inl ⟨y, hy', rfl⟩
  · intro d k
    show tally (fIdx d k) (m.cores ++ [x]) + sIdx d k m.stack ≤ 1
    rw [tally_append_core, hx]
    have := w.idxU d k
    simpa using this

theorem append_keeps (ds : List Data) (x : Data) :
    ∀ (d : Nat) (dd : Data), ds[d]? = some dd → ∃ dd', (ds ++ [x])[d]? = some dd' ∧ dd'.anyKind = dd.anyKind ∧ dd'.inputs = dd.inputs := by
  intro d dd hd
  have hlt : d < ds.length := by
    rcases Nat.lt_or_ge d ds.length with h | h
    · exact h
    · rw [List.getElem?_eq_none h] at hd; cases hd
  exact ⟨dd, by rw [List.getElem?_append_left hlt]; exact hd, rfl, rfl⟩

/-- no request and no pending attach refers to a data block that does not exist yet -/
theorem fresh_idx_counts {m : M} (o : Own roots m) (k : Nat) :
    tally (fIdx m.datas.length k) m.cores = 0 ∧ sIdx m.datas.length k m.stack = 0 := by
  refine ⟨tally_zero _ _ ?_, ?_⟩
  · intro kk hk r hr
    obtain ⟨c, i, hrq⟩ := mem_reqs_rq hk hr
    have := o.dReq c i r hrq
    unfold DataIn at this
    unfold fIdx isIdx
    cases hkk : r.kind <;> simp_all <;> omega
  · unfold sIdx; rw [List.countP_eq_zero]
    intro a ha
    have := o.dStack a ha
    cases a with
    | attach p r =>
      unfold DataIn at this
      unfold attIdx isIdx
      cases hkk : r.kind <;> simp_all <;> omega
    | resolveReq c i => simp [attIdx]
    | rejectReq c i => simp [attIdx]

/-- the attach actions of whenAll carry pairwise different indices -/
def allAct (d0 : Nat) (pi : Nat × Nat) : Act := .attach pi.1 ({ kind := .allInput d0 pi.2, chain := 0 } : Req)

theorem zipIdx_count (d0 d k : Nat) (l : List Nat) : ∀ n : Nat,
    sIdx d k ((l.zipIdx n).map (allAct d0)) ≤ 1 ∧
    (k < n → sIdx d k ((l.zipIdx n).map (allAct d0)) = 0) ∧
    (d ≠ d0 → sIdx d k ((l.zipIdx n).map (allAct d0)) = 0) := by
  induction l with
  | nil => intro n; simp [sIdx]
  | cons a tl ih =>
    intro n
    obtain ⟨h1, h2, h3⟩ := ih (n + 1)
    have heq : sIdx d k (((a :: tl).zipIdx n).map (allAct d0)) =
        (if (d0 == d && n == k) then 1 else 0) + sIdx d k ((tl.zipIdx (n + 1)).map (allAct d0)) := by
      rw [List.zipIdx_cons, List.map_cons, sIdx_cons]; rfl
    rw [heq]
    cases hv : (d0 == d && n == k)
    · simp only [Bool.false_eq_true, if_false, Nat.zero_add]
      exact ⟨h1, fun hlt => h2 (by omega), h3⟩
    · simp only [if_true]
      have hdk : d0 = d ∧ n = k := by simpa using hv
      obtain ⟨rfl, rfl⟩ := hdk
      have := h2 (Nat.lt_succ_self _)
      exact ⟨by omega, fun hlt => absurd hlt (Nat.lt_irrefl _), fun hne => absurd rfl hne⟩

theorem lookup_last (ds : List Data) (x : Data) : (ds ++ [x])[ds.length]? = some x := by simp

/-- creating a combinator: a new (root) core, a new data block pointing at it, and the attach actions -/
theorem val_combinator {m : M} (o : Own roots m) (w : ValOK m) (total : Nat) (ins : List Nat) (ak : Bool) (acts : List Act)
    (htot : total = ins.length) (hacts : ∀ p r, Act.attach p r ∈ acts →
      LinkReq (m.datas ++ [({ target := m.cores.length, total := total, inputs := ins, anyKind := ak } : Data)]) p r)
    (hidx : ∀ d k, sIdx d k acts ≤ 1) (hidx0 : ∀ d k, d ≠ m.datas.length → sIdx d k acts = 0) :
    ValOK
      { (m.newCore {}).1 with datas := (m.newCore {}).1.datas ++ [({ target := m.cores.length, total := total, inputs := ins, anyKind := ak } : Data)],
                              stack := acts ++ (m.newCore {}).1.stack } := by
  have w1 : ValOK (m.newCore {}).1 := val_newCore {} rfl o w
  have hkeep := append_keeps m.datas ({ target := m.cores.length, total := total, inputs := ins, anyKind := ak } : Data)
  refine ⟨?_, ?_, ?_, ?_, ?_, ?_, ?_, ?_, ?_⟩
  · intro c i x hx; exact linkReq_datas hkeep (w1.link c i x hx)
  · intro p r hm
    rcases List.mem_append.mp hm with hm | hm
    · exact hacts p r hm
    · exact linkReq_datas hkeep (w1.linkS p r hm)
  · intro d dd hd p hp
    rcases append_lookup _ _ _ _ hd with ⟨_, hd'⟩ | ⟨rfl, rfl⟩
    · exact w1.resOK d dd hd' p hp
    · cases hp
  · intro d dd v hd hv
    rcases append_lookup _ _ _ _ hd with ⟨_, hd'⟩ | ⟨rfl, rfl⟩
    · exact w1.tgtF d dd v hd' hv
    · have hv' : stOf (m.cores ++ [({} : Core)]) m.cores.length = .fulfilled v := hv
      rw [stOf_append_new] at hv'; cases hv'
  · intro d dd e hd hv
    rcases append_lookup _ _ _ _ hd with ⟨_, hd'⟩ | ⟨rfl, rfl⟩
    · exact w1.tgtR d dd e hd' hv
    · have hv' : stOf (m.cores ++ [({} : Core)]) m.cores.length = .rejected e := hv
      rw [stOf_append_new] at hv'; cases hv'
  · intro dd hdd
    rcases List.mem_append.mp hdd with hdd | hdd
    · exact w.resLen dd hdd
    · simp only [List.mem_singleton] at hdd; subst hdd; rfl
  · intro dd hdd
    rcases List.mem_append.mp hdd with hdd | hdd
    · exact w.inLen dd hdd
    · simp only [List.mem_singleton] at hdd; subst hdd; exact htot
  · intro d k
    show tally (fIdx d k) (m.cores ++ [({} : Core)]) + sIdx d k (acts ++ m.stack) ≤ 1
    have hs : sIdx d k (acts ++ m.stack) = sIdx d k acts + sIdx d k m.stack := List.countP_append
    rw [tally_append_core, hs]
    simp only [List.map_nil, List.sum_nil, Nat.add_zero]
    by_cases hd : d = m.datas.length
    · subst hd
      obtain ⟨f1, f2⟩ := fresh_idx_counts o k
      have := hidx m.datas.length k
      omega
    · have := hidx0 d k hd
      have := w.idxU d k
      omega
  · intro dd hdd
    rcases List.mem_append.mp hdd with hdd | hdd
    · exact w.resND dd hdd
    · simp only [List.mem_singleton] at hdd; subst hdd; exact List.nodup_nil

theorem val_exec {news : List Nat} (m : M) (op : Op) (g : Good roots m) (h : DataOK roots news m) (w : ValOK m) (hsub : ∀ p ∈ news, p ∈ roots)
    (hwf : wfOp news op) : ValOK (exec m op).1 := by
  have o := g.own
  have hnewsLt : ∀ p ∈ news, p < m.cores.length := fun p hp => o.rootsLt p (hsub p hp)
  cases op with
  | new => exact val_newCore {} rfl o w
  | newResolved v => exact val_newCore _ rfl o w
  | newRejected e => exact val_newCore _ rfl o w
  | then_ p cb ret rej =>
    simp only [exec]
    have g1 := good_newCore_derived (m := m) {} rfl g
    have d1 : DataOK roots news (m.newCore {}).1 := data_newCore {} rfl o h news h.tgtProg
    have d2 := data_thenOn_plain (m.newCore {}).1 p { kind := .user cb ret rej, chain := (m.newCore {}).2 } ⟨rfl, rfl⟩
      (by simp [Req.settler, Req.isUser]) d1
    have w1 : ValOK (m.newCore {}).1 := val_newCore {} rfl o w
    have w2 := val_thenOn (m.newCore {}).1 p { kind := .user cb ret rej, chain := (m.newCore {}).2 }
      (linkReq_settler (by simp [Req.settler, Req.isUser])) (fun d k => w1.idxU d k) w1
    have o2 : Own roots (thenOn (m.newCore {}).1 p { kind := .user cb ret rej, chain := (m.newCore {}).2 }) := by
      refine own_thenOn g1.own ⟨rfl, rfl⟩ ?_ ?_ (by simp [DataIn])
      · intro _
        refine ⟨?_, ?_, ?_, ?_⟩
        · show m.cores.length < (m.cores ++ [({} : Core)]).length; rw [List.length_append, List.length_singleton]; omega
        · intro c i y hy hyu hcc
          have hy' : rq (m.cores ++ [({} : Core)]) c i = some y := hy
          rw [rq_append_core m.cores ({} : Core) rfl] at hy'
          have := o.c.bound c i y hy' (user_settler hyu)
          have hcc' : y.chain = m.cores.length := hcc
          omega
        · intro hmem; have := o.rootsLt _ hmem; exact Nat.lt_irrefl _ this
        · show stOf (m.cores ++ [({} : Core)]) m.cores.length = .pending
          rw [stOf_append_new]
      · intro hc; simp [Req.isChainer] at hc
    exact val_settleDown o2 d2 w2
  | resolve p v =>
    simp only [exec]
    split
    · rename_i hst
      have hp : Pending m.cores p := hst
      have hroot : p ∈ roots := hsub p hwf
      have o2 := own_fulfilAndWalk (v := v) o (o.rootsLt p hroot) hp (root_not_doomed o.c hroot)
        (fun c0 i0 r0 h0 hu0 hc0 => absurd hc0 (o.c.noHolder p hroot c0 i0 r0 h0 hu0))
      have d2 := data_fulfilAndWalk (v := v) h hp (root_not_doomed o.c hroot)
        (fun d dd hd ht => absurd (ht ▸ hwf : dd.target ∈ news) (h.tgtProg dd (List.mem_of_getElem? hd)))
      have w2 := val_fulfilAndWalk (v := v) w hp
        (fun d dd hd ht => absurd (ht ▸ hwf : dd.target ∈ news) (h.tgtProg dd (List.mem_of_getElem? hd)))
      exact val_settleDown o2 d2 w2
    · exact w
  | reject p e =>
    simp only [exec]
    split
    · rename_i hst
      have hp : Pending m.cores p := hst
      have hroot : p ∈ roots := hsub p hwf
      have o2 := own_rejectAndWalk (e := e) o (o.rootsLt p hroot) hp
        (fun c0 i0 r0 h0 hu0 hc0 => absurd hc0 (o.c.noHolder p hroot c0 i0 r0 h0 hu0))
      have d2 := data_rejectAndWalk (e := e) h hp
        (fun d dd hd ht => absurd (ht ▸ hwf : dd.target ∈ news) (h.tgtProg dd (List.mem_of_getElem? hd)))
      have w2 := val_rejectAndWalk (e := e) w hp
        (fun d dd hd ht => absurd (ht ▸ hwf : dd.target ∈ news) (h.tgtProg dd (List.mem_of_getElem? hd)))
      exact val_settleDown o2 d2 w2
    · exact w
  | whenAll ps =>
    simp only [exec]
    have hA : ∀ k, sAll k (ps.zipIdx.map fun (pi : Nat × Nat) => Act.attach pi.1 ({ kind := .allInput (m.newCore {}).1.datas.length pi.2, chain := 0 } : Req))
        = if k = m.datas.length then ps.length else 0 := by
      intro k
      unfold sAll
      rw [countP_map_const _ _ _ (decide (m.datas.length = k)) (by intro x; simp [attAll, isAll]; rfl)]
      by_cases hk : k = m.datas.length
      · subst hk; simp
      · have : ¬ m.datas.length = k := fun e => hk e.symm
        simp [hk, this]
    have hY : ∀ k, sAny k (ps.zipIdx.map fun (pi : Nat × Nat) => Act.attach pi.1 ({ kind := .allInput (m.newCore {}).1.datas.length pi.2, chain := 0 } : Req)) = 0 := by
      intro k; unfold sAny
      rw [countP_map_const _ _ _ false (by intro x; simp [attAny, isAny])]; rfl
    have gc := good_combinator g ps.length ps false (ps.zipIdx.map fun (pi : Nat × Nat) => Act.attach pi.1 ({ kind := .allInput (m.newCore {}).1.datas.length pi.2, chain := 0 } : Req)) (by
      intro a ha
      simp only [List.mem_map] at ha
      obtain ⟨pi, _, rfl⟩ := ha
      exact ⟨pi.1, _, rfl, rfl, rfl, rfl, by show (m.newCore {}).1.datas.length < m.datas.length + 1; exact Nat.lt_succ_self _⟩)
    have dc := data_combinator o h ps.length ps false (ps.zipIdx.map fun (pi : Nat × Nat) => Act.attach pi.1 ({ kind := .allInput (m.newCore {}).1.datas.length pi.2, chain := 0 } : Req))
      hnewsLt (by intro k; rw [hA k, hA]; simp) (by intro k; rw [hY k, hY]; simp) (by rw [hA, hY]; simp) (Or.inr (hY _))
    have wc := val_combinator o w ps.length ps false (ps.zipIdx.map fun (pi : Nat × Nat) => Act.attach pi.1 ({ kind := .allInput (m.newCore {}).1.datas.length pi.2, chain := 0 } : Req)) rfl (by
      intro p r hm
      simp only [List.mem_map] at hm
      obtain ⟨pi, hpi, e⟩ := hm
      cases e
      have hget : ps[pi.2]? = some pi.1 := List.mk_mem_zipIdx_iff_getElem?.mp hpi
      refine ⟨?_, ?_⟩
      · intro d k hk
        cases hk
        exact ⟨({ target := m.cores.length, total := ps.length, inputs := ps, anyKind := false } : Data), lookup_last _ _, rfl, hget⟩
      · intro d hk; cases hk)
      (fun d k => (zipIdx_count _ d k ps 0).1) (fun d k hne => (zipIdx_count _ d k ps 0).2.2 hne)
    exact val_settleDown gc.own (data_roots dc) wc
  | whenAny ps =>
    simp only [exec]
    have hY : ∀ k, sAny k (ps.map fun (p : Nat) => Act.attach p ({ kind := .anyInput (m.newCore {}).1.datas.length, chain := 0 } : Req))
        = if k = m.datas.length then ps.length else 0 := by
      intro k
      unfold sAny
      rw [countP_map_const _ _ _ (decide (m.datas.length = k)) (by intro x; simp [attAny, isAny]; rfl)]
      by_cases hk : k = m.datas.length
      · subst hk; simp
      · have : ¬ m.datas.length = k := fun e => hk e.symm
        simp [hk, this]
    have hA : ∀ k, sAll k (ps.map fun (p : Nat) => Act.attach p ({ kind := .anyInput (m.newCore {}).1.datas.length, chain := 0 } : Req)) = 0 := by
      intro k; unfold sAll
      rw [countP_map_const _ _ _ false (by intro x; simp [attAll, isAll])]; rfl
    have gc := good_combinator g ps.length ps true (ps.map fun (p : Nat) => Act.attach p ({ kind := .anyInput (m.newCore {}).1.datas.length, chain := 0 } : Req)) (by
      intro a ha
      simp only [List.mem_map] at ha
      obtain ⟨pi, _, rfl⟩ := ha
      exact ⟨pi, _, rfl, rfl, rfl, rfl, by show (m.newCore {}).1.datas.length < m.datas.length + 1; exact Nat.lt_succ_self _⟩)
    have dc := data_combinator o h ps.length ps true (ps.map fun (p : Nat) => Act.attach p ({ kind := .anyInput (m.newCore {}).1.datas.length, chain := 0 } : Req))
      hnewsLt (by intro k; rw [hA k, hA]; simp) (by intro k; rw [hY k, hY]; simp) (by rw [hA, hY]; simp) (Or.inl (hA _))
    have hAnyIdx : ∀ d k, sIdx d k (ps.map fun (p : Nat) => Act.attach p ({ kind := .anyInput (m.newCore {}).1.datas.length, chain := 0 } : Req)) = 0 := by
      intro d k; unfold sIdx
      rw [List.countP_eq_zero]; intro a ha; simp only [List.mem_map] at ha; obtain ⟨q, _, rfl⟩ := ha; simp [attIdx, isIdx]
    have wc := val_combinator o w ps.length ps true (ps.map fun (p : Nat) => Act.attach p ({ kind := .anyInput (m.newCore {}).1.datas.length, chain := 0 } : Req)) rfl (by
      intro p r hm
      simp only [List.mem_map] at hm
      obtain ⟨q, hq, e⟩ := hm
      cases e
      refine ⟨?_, ?_⟩
      · intro d k hk; cases hk
      · intro d hk
        cases hk
        exact ⟨({ target := m.cores.length, total := ps.length, inputs := ps, anyKind := true } : Data), lookup_last _ _, rfl, hq⟩)
      (fun d k => by rw [hAnyIdx d k]; exact Nat.zero_le _) (fun d k _ => hAnyIdx d k)
    exact val_settleDown gc.own (data_roots dc) wc

end Pistache.Promise
