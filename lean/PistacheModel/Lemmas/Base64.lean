import PistacheModel.Model.Base64

namespace Pistache.Base64
open Pistache.Gen

/-! ## Finite-table obligations over the REGENERATED leaf functions (whole table, by `decide`) -/

theorem leaf_inverse_fin : ∀ s : Fin 64, decodeChar (encodeByte s.val) = s.val := by decide
theorem leaf_digit_fin : ∀ s : Fin 64, encodeByte s.val = digit s.val := by decide +kernel
theorem leaf_alphabet_fin : ∀ s : Fin 64, encodeByte s.val ∈ alphabet := by decide +kernel
theorem decodeChar_pad : decodeChar 61 = 255 := by decide
theorem decodeChar_nul : decodeChar 0 = 255 := by decide

theorem leaf_inverse {s : Nat} (h : s < 64) : decodeChar (encodeByte s) = s := leaf_inverse_fin ⟨s, h⟩
theorem leaf_digit {s : Nat} (h : s < 64) : encodeByte s = digit s := leaf_digit_fin ⟨s, h⟩
theorem leaf_lt {s : Nat} (h : s < 64) : decodeChar (encodeByte s) < 64 := by rw [leaf_inverse h]; exact h

/-- `CalculateEncodedSize` as regenerated: ((4n/3)+3) & ~3 -/
theorem encodedSize_eq (n : Nat) : encodedSize n = (4 * n / 3 + 3) / 4 * 4 := by
  unfold encodedSize
  have h : (0:Int) ≤ 4 * (n:Int) := by omega
  rw [Int.tdiv_eq_ediv_of_nonneg h]
  omega

/-! ## Bit operators = arithmetic on the operand ranges that occur -/

theorem shl_or (x k y : Nat) (h : y < 2 ^ k) : (x <<< k) ||| y = x * 2 ^ k + y := by
  rw [← Nat.shiftLeft_add_eq_or_of_lt h, Nat.shiftLeft_eq]

theorem e0 (a : Nat) (_ha : a < 256) : (a >>> 2) % 256 = a / 4 := by
  rw [Nat.shiftRight_eq_div_pow]; omega
theorem e1 (a b : Nat) (ha : a < 256) (hb : b < 256) :
    (((a &&& 0x03) <<< 4) ||| (b >>> 4)) % 256 = (a % 4) * 16 + b / 16 := by
  have h1 : a &&& 0x03 = a % 4 := Nat.and_two_pow_sub_one_eq_mod a 2
  have h2 : b >>> 4 = b / 16 := by rw [Nat.shiftRight_eq_div_pow]
  rw [h1, h2, shl_or _ 4 _ (by omega)]; omega
theorem e2 (b c : Nat) (hb : b < 256) (hc : c < 256) :
    (((b &&& 0x0F) <<< 2) ||| (c >>> 6)) % 256 = (b % 16) * 4 + c / 64 := by
  have h1 : b &&& 0x0F = b % 16 := Nat.and_two_pow_sub_one_eq_mod b 4
  have h2 : c >>> 6 = c / 64 := by rw [Nat.shiftRight_eq_div_pow]
  rw [h1, h2, shl_or _ 2 _ (by omega)]; omega
theorem e3 (c : Nat) : c &&& 0x3F = c % 64 := Nat.and_two_pow_sub_one_eq_mod c 6
theorem e1t (a : Nat) : (a &&& 0x03) <<< 4 = (a % 4) * 16 := by
  have h1 : a &&& 0x03 = a % 4 := Nat.and_two_pow_sub_one_eq_mod a 2
  rw [h1, Nat.shiftLeft_eq]
theorem e2t (b : Nat) : (b &&& 0x0F) <<< 2 = (b % 16) * 4 := by
  have h1 : b &&& 0x0F = b % 16 := Nat.and_two_pow_sub_one_eq_mod b 4
  rw [h1, Nat.shiftLeft_eq]

theorem d0 (x y : Nat) (hx : x < 64) (hy : y < 64) :
    ((x <<< 2) ||| (y >>> 4)) % 256 = x * 4 + y / 16 := by
  have h2 : y >>> 4 = y / 16 := by rw [Nat.shiftRight_eq_div_pow]
  rw [h2, shl_or _ 2 _ (by omega)]; omega
theorem d1 (x y : Nat) (hx : x < 64) (hy : y < 64) :
    ((x <<< 4) ||| (y >>> 2)) % 256 = (x % 16) * 16 + y / 4 := by
  have h2 : y >>> 2 = y / 4 := by rw [Nat.shiftRight_eq_div_pow]
  rw [h2, shl_or _ 4 _ (by omega)]; omega
theorem d2 (x y : Nat) (hx : x < 64) (hy : y < 64) :
    ((x <<< 6) ||| y) % 256 = (x % 4) * 64 + y := by
  rw [shl_or _ 6 _ (by omega)]; omega

/-! ## Arithmetic form of the encoder -/

theorem enc3_arith (a b c : Nat) (ha : a < 256) (hb : b < 256) (hc : c < 256) :
    enc3 a b c = [encodeByte (a / 4), encodeByte ((a % 4) * 16 + b / 16),
                  encodeByte ((b % 16) * 4 + c / 64), encodeByte (c % 64)] := by
  simp only [enc3, e0 a ha, e1 a b ha hb, e2 b c hb hc, e3]

theorem dec_enc3 (a b c : Nat) (ha : a < 256) (hb : b < 256) (hc : c < 256) :
    dec0 (encodeByte (a / 4)) (encodeByte ((a % 4) * 16 + b / 16)) = a ∧
    dec1 (encodeByte ((a % 4) * 16 + b / 16)) (encodeByte ((b % 16) * 4 + c / 64)) = b ∧
    dec2 (encodeByte ((b % 16) * 4 + c / 64)) (encodeByte (c % 64)) = c := by
  have s0 : a / 4 < 64 := by omega
  have s1 : (a % 4) * 16 + b / 16 < 64 := by omega
  have s2 : (b % 16) * 4 + c / 64 < 64 := by omega
  have s3 : c % 64 < 64 := by omega
  simp only [dec0, dec1, dec2, leaf_inverse s0, leaf_inverse s1, leaf_inverse s2, leaf_inverse s3]
  rw [d0 _ _ s0 s1, d1 _ _ s1 s2, d2 _ _ s2 s3]
  omega

/-- bytes of a list are octets -/
def Octets (bs : List Nat) : Prop := ∀ b ∈ bs, b < 256

/-- number of alphabet characters (without padding) `Encode` produces -/
def unpadded (n : Nat) : Nat := n / 3 * 4 + (match n % 3 with | 1 => 2 | 2 => 3 | _ => 0)

theorem scan_append_lt (xs ys : List Nat) (h : ∀ x ∈ xs, decodeChar x < 64) :
    scan (xs ++ ys) = xs.length + scan ys := by
  induction xs with
  | nil => simp
  | cons x xs ih =>
    have hx := h x (by simp)
    simp only [List.cons_append, scan, hx, if_true, List.length_cons]
    rw [ih (fun y hy => h y (by simp [hy]))]; omega


theorem decodeBody_step (d c0 c1 c2 c3 : Nat) (rest : List Nat) :
    decodeBody (d + 3) (c0 :: c1 :: c2 :: c3 :: rest) =
      match decodeBody d rest with
      | .ok o => .ok (dec0 c0 c1 :: dec1 c1 c2 :: dec2 c2 c3 :: o)
      | .error e => .error e := by
  have h1 : (d + 3) / 3 = d / 3 + 1 := by omega
  have h2 : (d + 3) % 3 = d % 3 := by omega
  unfold decodeBody
  rw [h1, h2]
  simp only [decodeQuads]
  cases hq : decodeQuads (d / 3) rest with
  | error e => simp
  | ok p =>
    obtain ⟨o, r⟩ := p
    simp only []
    split <;> simp_all

theorem encode_length (bs : List Nat) : (encode bs).length = (4 * bs.length / 3 + 3) / 4 * 4 := by
  fun_induction encode bs with
  | case1 a b c rest ih => simp only [List.length_append, enc3, List.length_cons, List.length_nil, ih]; omega
  | case2 a => simp
  | case3 a b => simp
  | case4 => simp

theorem scan_encode (bs : List Nat) (h : Octets bs) : scan (encode bs) = unpadded bs.length := by
  fun_induction encode bs with
  | case1 a b c rest ih =>
    have ha := h a (by simp); have hb := h b (by simp); have hc := h c (by simp)
    have hr : Octets rest := fun x hx => h x (by simp [hx])
    rw [enc3_arith a b c ha hb hc, scan_append_lt, ih hr]
    · simp only [unpadded, List.length_cons, List.length_nil]
      have : (rest.length + 1 + 1 + 1) / 3 = rest.length / 3 + 1 := by omega
      have h3 : (rest.length + 1 + 1 + 1) % 3 = rest.length % 3 := by omega
      rw [this, h3]; omega
    · intro x hx
      simp only [List.mem_cons, List.not_mem_nil, or_false] at hx
      rcases hx with rfl | rfl | rfl | rfl <;> apply leaf_lt <;> omega
  | case2 a =>
    have ha := h a (by simp)
    simp only [scan, e0 a ha, e1t, decodeChar_pad]
    rw [leaf_inverse (by omega), leaf_inverse (by omega)]
    have : a / 4 < 64 := by omega
    have : a % 4 * 16 < 64 := by omega
    simp [unpadded, *]
  | case3 a b =>
    have ha := h a (by simp); have hb := h b (by simp)
    simp only [scan, e0 a ha, e1 a b ha hb, e2t, decodeChar_pad]
    rw [leaf_inverse (by omega), leaf_inverse (by omega), leaf_inverse (by omega)]
    have : a / 4 < 64 := by omega
    have : a % 4 * 16 + b / 16 < 64 := by omega
    have : b % 16 * 4 < 64 := by omega
    simp [unpadded, *]
  | case4 => simp [scan, unpadded]

theorem decodedSize_encode (bs : List Nat) (h : Octets bs) : decodedSize (encode bs) = .ok bs.length := by
  unfold decodedSize
  have hl := encode_length bs
  have hs := scan_encode bs h
  by_cases hb : bs = []
  · subst hb; simp [encode]
  · have hpos : 0 < bs.length := List.length_pos_iff.mpr hb
    have hne : (encode bs).isEmpty = false := by
      cases he : encode bs with
      | nil => rw [he] at hl; simp at hl; omega
      | cons _ _ => rfl
    rw [hne]
    simp only [Bool.false_eq_true, if_false]
    rw [if_neg (by omega), if_neg (by omega), hs]
    congr 1
    simp only [unpadded, sizeOfScan]
    have : bs.length % 3 = 0 ∨ bs.length % 3 = 1 ∨ bs.length % 3 = 2 := by omega
    rcases this with h0 | h0 | h0 <;> rw [h0] <;> simp only []
    · have e : (bs.length / 3 * 4 + 0) % 4 = 0 := by omega
      rw [e]; simp only []; omega
    · have e : (bs.length / 3 * 4 + 2) % 4 = 2 := by omega
      rw [e]; simp only []; omega
    · have e : (bs.length / 3 * 4 + 3) % 4 = 3 := by omega
      rw [e]; simp only []; omega

theorem sizeOfScan_bound (n : Nat) :
    sizeOfScan n / 3 * 4 + (match sizeOfScan n % 3 with | 1 => 2 | 2 => 3 | _ => 0) ≤ n := by
  unfold sizeOfScan
  have hm : n % 4 = 0 ∨ n % 4 = 1 ∨ n % 4 = 2 ∨ n % 4 = 3 := by omega
  rcases hm with h0 | h0 | h0 | h0 <;> rw [h0] <;> simp only []
  · have : (n / 4 * 3) % 3 = 0 := by omega
    rw [this]; simp only []; omega
  · have : (n / 4 * 3) % 3 = 0 := by omega
    rw [this]; simp only []; omega
  · have : (n / 4 * 3 + 1) % 3 = 1 := by omega
    rw [this]; simp only []; omega
  · have : (n / 4 * 3 + 2) % 3 = 2 := by omega
    rw [this]; simp only []; omega

theorem decodeBody_encode (bs : List Nat) (h : Octets bs) : decodeBody bs.length (encode bs) = .ok bs := by
  fun_induction encode bs with
  | case1 a b c rest ih =>
    have ha := h a (by simp); have hb := h b (by simp); have hc := h c (by simp)
    have hr : Octets rest := fun x hx => h x (by simp [hx])
    rw [enc3_arith a b c ha hb hc]
    simp only [List.length_cons, List.cons_append, List.nil_append]
    rw [decodeBody_step, ih hr]
    obtain ⟨h0, h1, h2⟩ := dec_enc3 a b c ha hb hc
    simp only [h0, h1, h2]
  | case2 a =>
    have ha := h a (by simp)
    show decodeBody 1 _ = _
    simp only [decodeBody, decodeQuads, e0 a ha, e1t, dec0]
    have s0 : a / 4 < 64 := by omega
    have s1 : a % 4 * 16 < 64 := by omega
    simp only [Nat.reduceDiv, Nat.reduceMod, decodeQuads, leaf_inverse s0, leaf_inverse s1, d0 _ _ s0 s1]
    simp; omega
  | case3 a b =>
    have ha := h a (by simp); have hb := h b (by simp)
    show decodeBody 2 _ = _
    simp only [decodeBody, decodeQuads, e0 a ha, e1 a b ha hb, e2t, dec0, dec1]
    have s0 : a / 4 < 64 := by omega
    have s1 : a % 4 * 16 + b / 16 < 64 := by omega
    have s2 : b % 16 * 4 < 64 := by omega
    simp only [Nat.reduceDiv, Nat.reduceMod, decodeQuads, leaf_inverse s0, leaf_inverse s1, leaf_inverse s2,
      d0 _ _ s0 s1, d1 _ _ s1 s2]
    simp; omega
  | case4 => simp [decodeBody, decodeQuads]

end Pistache.Base64
