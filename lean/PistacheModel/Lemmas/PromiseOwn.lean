/-
Ownership invariant of the promise machine (Model/Promise.lean): every derived promise has exactly one
continuation that may settle it, and a settled promise shows that this continuation has been spent.
Consequence (Props/C11Value.lean): a promise never changes its outcome once settled, and every
fulfilment callback has run with the value of the promise it is attached to.

The invariant is stated over two "views" of the core list — `rq cs c i` (request i of core c) and
`stOf cs c` (state of core c) — and each primitive mutation of the machine is characterised by how it
changes the views, so that the preservation lemmas are independent of list manipulation.
-/
import PistacheModel.Model.Promise

namespace Pistache.Promise

def rq (cs : List Core) (c i : Nat) : Option Req := (cs.getD c {}).reqs[i]?
def stOf (cs : List Core) (c : Nat) : St := (cs.getD c {}).st

def Req.isUser (r : Req) : Bool := match r.kind with | .user _ _ _ => true | _ => false
def Req.isChainer (r : Req) : Bool := match r.kind with | .chainer => true | _ => false
def Req.retValue (r : Req) : Bool := match r.kind with | .user _ (.value _) _ => true | _ => false
def Req.retPromise (r : Req) : Bool := match r.kind with | .user _ (.promise _) _ => true | _ => false
def Req.rethrows (r : Req) : Bool := match r.kind with | .user _ _ .rethrow => true | _ => false
/-- user continuation or chainer: the kinds that settle their `chain` core without a guard -/
def Req.settler (r : Req) : Bool := r.isUser || r.isChainer

def Fulfilled (cs : List Core) (c : Nat) : Prop := ∃ v, stOf cs c = .fulfilled v
def Rejected (cs : List Core) (c : Nat) : Prop := ∃ e, stOf cs c = .rejected e
def Pending (cs : List Core) (c : Nat) : Prop := stOf cs c = .pending
/-- a pending derived promise whose only settler has been told of a rejection (its list is walked with
    `reject` although it is pending: the value-returning continuation with an ignore/custom handler) -/
def Doomed (cs : List Core) (c : Nat) : Prop :=
  Pending cs c ∧ ∃ c0 i0 r0, rq cs c0 i0 = some r0 ∧ r0.isUser = true ∧ r0.chain = c ∧ 1 ≤ r0.jc
def RejOK (cs : List Core) (c : Nat) : Prop := Rejected cs c ∨ Doomed cs c

theorem fulfilled_not_rejOK {cs : List Core} {c : Nat} (hf : Fulfilled cs c) (hr : RejOK cs c) : False := by
  obtain ⟨v, hv⟩ := hf
  rcases hr with ⟨e, he⟩ | ⟨hp, _⟩
  · rw [hv] at he; cases he
  · unfold Pending at hp; rw [hv] at hp; cases hp

theorem pending_not_fulfilled {cs : List Core} {c : Nat} (hp : Pending cs c) (hf : Fulfilled cs c) : False := by
  obtain ⟨v, hv⟩ := hf; unfold Pending at hp; rw [hv] at hp; cases hp
theorem pending_not_rejected {cs : List Core} {c : Nat} (hp : Pending cs c) (hf : Rejected cs c) : False := by
  obtain ⟨v, hv⟩ := hf; unfold Pending at hp; rw [hv] at hp; cases hp

theorem st_cases (cs : List Core) (c : Nat) : Pending cs c ∨ Fulfilled cs c ∨ Rejected cs c := by
  unfold Pending Fulfilled Rejected
  cases stOf cs c with
  | pending => exact Or.inl rfl
  | fulfilled v => exact Or.inr (Or.inl ⟨v, rfl⟩)
  | rejected e => exact Or.inr (Or.inr ⟨e, rfl⟩)

/-- the ownership invariant of the cores; `roots` are the cores that are not derived by `then`
    (created by the program or as the target of a combinator) -/
structure OwnC (roots : List Nat) (cs : List Core) : Prop where
  bound : ∀ c i r, rq cs c i = some r → r.settler = true → r.chain < cs.length
  uniqU : ∀ c i r c' i' r', rq cs c i = some r → rq cs c' i' = some r' → r.isUser = true → r'.isUser = true →
    r.chain = r'.chain → c = c' ∧ i = i'
  uniqC : ∀ c i r c' i' r', rq cs c i = some r → rq cs c' i' = some r' → r.isChainer = true → r'.isChainer = true →
    r.chain = r'.chain → c = c' ∧ i = i'
  prov : ∀ q j ch, rq cs q j = some ch → ch.isChainer = true →
    ∃ c i r, rq cs c i = some r ∧ r.isUser = true ∧ r.chain = ch.chain ∧ r.retPromise = true ∧ 1 ≤ r.rc
  noHolder : ∀ d ∈ roots, ∀ c i r, rq cs c i = some r → r.isUser = true → r.chain ≠ d
  rcOK : ∀ c i r, rq cs c i = some r → r.settler = true → 1 ≤ r.rc → Fulfilled cs c
  jcOK : ∀ c i r, rq cs c i = some r → r.settler = true → 1 ≤ r.jc → RejOK cs c
  spentF : ∀ c i r, rq cs c i = some r → r.isUser = true → Fulfilled cs r.chain →
    (r.retValue = true ∧ 1 ≤ r.rc) ∨ (∃ q j ch, rq cs q j = some ch ∧ ch.isChainer = true ∧ ch.chain = r.chain ∧ 1 ≤ ch.rc)
  spentR : ∀ c i r, rq cs c i = some r → r.isUser = true → Rejected cs r.chain →
    (r.rethrows = true ∧ 1 ≤ r.jc) ∨ (∃ q j ch, rq cs q j = some ch ∧ ch.isChainer = true ∧ ch.chain = r.chain ∧ 1 ≤ ch.jc)

/-- the pending actions are consistent with the states: a `resolve` frame belongs to a fulfilled core,
    a `reject` frame to a rejected (or doomed) one -/
def StackOK (cs : List Core) (stack : List Act) : Prop :=
  ∀ a ∈ stack, match a with
    | .resolveReq c _ => Fulfilled cs c
    | .rejectReq c _ => RejOK cs c
    | .attach _ r => r.settler = false ∧ r.rc = 0 ∧ r.jc = 0

/-! ### how the primitive mutations change the views -/

theorem getD_set_ne (cs : List Core) (c c' : Nat) (x : Core) (h : c' ≠ c) : (cs.set c x).getD c' {} = cs.getD c' {} := by
  simp [List.getD, Ne.symm h]

theorem getD_set_eq (cs : List Core) (c : Nat) (x : Core) (h : c < cs.length) : (cs.set c x).getD c {} = x := by
  simp [List.getD, h]

theorem getD_oob (cs : List Core) (c : Nat) (h : cs.length ≤ c) : cs.getD c {} = {} := by
  simp [List.getD, List.getElem?_eq_none h]

theorem rq_oob (cs : List Core) (c i : Nat) (h : cs.length ≤ c) : rq cs c i = none := by
  unfold rq; rw [getD_oob cs c h]; rfl

theorem rq_some_lt {cs : List Core} {c i : Nat} {r : Req} (h : rq cs c i = some r) : c < cs.length := by
  by_cases hc : c < cs.length
  · exact hc
  · have := rq_oob cs c i (by omega); rw [this] at h; cases h

theorem stOf_oob (cs : List Core) (c : Nat) (h : cs.length ≤ c) : stOf cs c = .pending := by
  unfold stOf; rw [getD_oob cs c h]

/-- a relation between two core lists: request (c,i) was replaced by r', everything else is the same -/
structure ReqUpd (cs cs' : List Core) (c i : Nat) (r r' : Req) : Prop where
  old : rq cs c i = some r
  new : rq cs' c i = some r'
  other : ∀ c' i', ¬ (c' = c ∧ i' = i) → rq cs' c' i' = rq cs c' i'
  st : ∀ c', stOf cs' c' = stOf cs c'
  len : cs'.length = cs.length

theorem reqUpd_setReq (cs : List Core) (c i : Nat) (r r' : Req) (h : rq cs c i = some r) :
    ReqUpd cs (cs.set c (setReq (cs.getD c {}) i r')) c i r r' := by
  have hc := rq_some_lt h
  have hi : i < (cs.getD c {}).reqs.length := by
    unfold rq at h
    exact (List.getElem?_eq_some_iff.mp h).1
  refine ⟨h, ?_, ?_, ?_, by simp⟩
  · unfold rq; rw [getD_set_eq cs c _ hc]; exact List.getElem?_set_self hi
  · intro c' i' hne
    unfold rq
    by_cases hcc : c' = c
    · subst hcc
      have hii : i' ≠ i := fun e => hne ⟨rfl, e⟩
      rw [getD_set_eq cs c' _ hc]; exact List.getElem?_set_ne (Ne.symm hii)
    · rw [getD_set_ne cs c c' _ hcc]
  · intro c'
    unfold stOf
    by_cases hcc : c' = c
    · subst hcc; rw [getD_set_eq cs c' _ hc]; rfl
    · rw [getD_set_ne cs c c' _ hcc]

/-- the state of core d was set -/
structure StUpd (cs cs' : List Core) (d : Nat) (s : St) : Prop where
  rqs : ∀ c i, rq cs' c i = rq cs c i
  new : stOf cs' d = s
  other : ∀ c, c ≠ d → stOf cs' c = stOf cs c
  len : cs'.length = cs.length

theorem stUpd_set (cs : List Core) (d : Nat) (s : St) (h : d < cs.length) :
    StUpd cs (cs.set d { cs.getD d {} with st := s }) d s := by
  refine ⟨?_, ?_, ?_, by simp⟩
  · intro c i
    unfold rq
    by_cases hc : c = d
    · subst hc; rw [getD_set_eq cs c _ h]
    · rw [getD_set_ne cs d c _ hc]
  · unfold stOf; rw [getD_set_eq cs d _ h]
  · intro c hc; unfold stOf; rw [getD_set_ne cs d c _ hc]

/-- a request was appended to core p -/
structure AppUpd (cs cs' : List Core) (p : Nat) (r : Req) : Prop where
  idxNone : rq cs p (cs.getD p {}).reqs.length = none
  new : rq cs' p (cs.getD p {}).reqs.length = some r
  other : ∀ c i, ¬ (c = p ∧ i = (cs.getD p {}).reqs.length) → rq cs' c i = rq cs c i
  st : ∀ c, stOf cs' c = stOf cs c
  len : cs'.length = cs.length

theorem appUpd_set (cs : List Core) (p : Nat) (r : Req) (h : p < cs.length) :
    AppUpd cs (cs.set p { cs.getD p {} with reqs := (cs.getD p {}).reqs ++ [r] }) p r := by
  refine ⟨?_, ?_, ?_, ?_, by simp⟩
  · unfold rq; simp
  · unfold rq; rw [getD_set_eq cs p _ h]; simp
  · intro c i hne
    unfold rq
    by_cases hc : c = p
    · subst hc
      have hi : i ≠ (cs.getD c {}).reqs.length := fun e => hne ⟨rfl, e⟩
      rw [getD_set_eq cs c _ h]
      by_cases hlt : i < (cs.getD c {}).reqs.length
      · exact List.getElem?_append_left hlt
      · have h1 : ((cs.getD c {}).reqs ++ [r])[i]? = none := List.getElem?_eq_none (by rw [List.length_append, List.length_singleton]; omega)
        have h2 : (cs.getD c {}).reqs[i]? = none := List.getElem?_eq_none (by omega)
        show ((cs.getD c {}).reqs ++ [r])[i]? = (cs.getD c {}).reqs[i]?
        rw [h1, h2]
    · rw [getD_set_ne cs p c _ hc]
  · intro c
    unfold stOf
    by_cases hc : c = p
    · subst hc; rw [getD_set_eq cs c _ h]
    · rw [getD_set_ne cs p c _ hc]

/-! ### predicates that depend on the kind only -/

theorem isUser_congr {r r' : Req} (h : r'.kind = r.kind) : r'.isUser = r.isUser := by unfold Req.isUser; rw [h]
theorem isChainer_congr {r r' : Req} (h : r'.kind = r.kind) : r'.isChainer = r.isChainer := by unfold Req.isChainer; rw [h]
theorem retValue_congr {r r' : Req} (h : r'.kind = r.kind) : r'.retValue = r.retValue := by unfold Req.retValue; rw [h]
theorem retPromise_congr {r r' : Req} (h : r'.kind = r.kind) : r'.retPromise = r.retPromise := by unfold Req.retPromise; rw [h]
theorem rethrows_congr {r r' : Req} (h : r'.kind = r.kind) : r'.rethrows = r.rethrows := by unfold Req.rethrows; rw [h]
theorem settler_congr {r r' : Req} (h : r'.kind = r.kind) : r'.settler = r.settler := by
  unfold Req.settler; rw [isUser_congr h, isChainer_congr h]

theorem user_not_chainer {r : Req} (h : r.isUser = true) : r.isChainer = false := by
  unfold Req.isUser at h; unfold Req.isChainer; split at h <;> simp_all
theorem user_settler {r : Req} (h : r.isUser = true) : r.settler = true := by unfold Req.settler; simp [h]
theorem chainer_settler {r : Req} (h : r.isChainer = true) : r.settler = true := by unfold Req.settler; simp [h]
theorem retValue_not_retPromise {r : Req} (h : r.retValue = true) (h' : r.retPromise = true) : False := by
  unfold Req.retValue at h; unfold Req.retPromise at h'; split at h <;> simp_all
theorem retPromise_user {r : Req} (h : r.retPromise = true) : r.isUser = true := by
  unfold Req.retPromise at h; unfold Req.isUser; split at h <;> simp_all

/-- every request of `cs` is still there in `cs'`, with the same kind and chain and counters that did not decrease -/
def Fwd (cs cs' : List Core) : Prop :=
  ∀ c i y, rq cs c i = some y → ∃ x, rq cs' c i = some x ∧ x.kind = y.kind ∧ x.chain = y.chain ∧ y.rc ≤ x.rc ∧ y.jc ≤ x.jc

theorem fulfilled_of_st {cs cs' : List Core} {c : Nat} (h : stOf cs' c = stOf cs c) (hf : Fulfilled cs c) : Fulfilled cs' c := by
  obtain ⟨v, hv⟩ := hf; exact ⟨v, by rw [h, hv]⟩
theorem rejected_of_st {cs cs' : List Core} {c : Nat} (h : stOf cs' c = stOf cs c) (hf : Rejected cs c) : Rejected cs' c := by
  obtain ⟨v, hv⟩ := hf; exact ⟨v, by rw [h, hv]⟩
theorem pending_of_st {cs cs' : List Core} {c : Nat} (h : stOf cs' c = stOf cs c) (hf : Pending cs c) : Pending cs' c := by
  unfold Pending at *; rw [h, hf]

theorem doomed_fwd {cs cs' : List Core} {c : Nat} (hst : stOf cs' c = stOf cs c) (hf : Fwd cs cs') (h : Doomed cs c) : Doomed cs' c := by
  obtain ⟨hp, c0, i0, r0, h0, hu, hc, hj⟩ := h
  obtain ⟨x, hx, hk, hch, _, hjc⟩ := hf c0 i0 r0 h0
  exact ⟨pending_of_st hst hp, c0, i0, x, hx, by rw [isUser_congr hk]; exact hu, by rw [hch]; exact hc, by omega⟩

theorem rejOK_fwd {cs cs' : List Core} {c : Nat} (hst : stOf cs' c = stOf cs c) (hf : Fwd cs cs') (h : RejOK cs c) : RejOK cs' c := by
  rcases h with h | h
  · exact Or.inl (rejected_of_st hst h)
  · exact Or.inr (doomed_fwd hst hf h)

/-! ### a counter of one request goes up -/

theorem ReqUpd.fwd {cs cs' : List Core} {c i : Nat} {r r' : Req} (u : ReqUpd cs cs' c i r r')
    (hk : r'.kind = r.kind) (hch : r'.chain = r.chain) (hrc : r.rc ≤ r'.rc) (hjc : r.jc ≤ r'.jc) : Fwd cs cs' := by
  intro c' i' y hy
  by_cases h : c' = c ∧ i' = i
  · obtain ⟨rfl, rfl⟩ := h
    rw [u.old] at hy; cases hy
    exact ⟨r', u.new, hk, hch, hrc, hjc⟩
  · exact ⟨y, by rw [u.other c' i' h]; exact hy, rfl, rfl, Nat.le_refl _, Nat.le_refl _⟩

/-- where a request of `cs'` comes from -/
theorem ReqUpd.back {cs cs' : List Core} {c i : Nat} {r r' : Req} (u : ReqUpd cs cs' c i r r')
    (hk : r'.kind = r.kind) (hch : r'.chain = r.chain) (hrc : r.rc ≤ r'.rc) (hjc : r.jc ≤ r'.jc)
    {c' i' : Nat} {x : Req} (hx : rq cs' c' i' = some x) :
    ∃ y, rq cs c' i' = some y ∧ y.kind = x.kind ∧ y.chain = x.chain ∧ y.rc ≤ x.rc ∧ y.jc ≤ x.jc ∧ (¬ (c' = c ∧ i' = i) → y = x) ∧
      ((c' = c ∧ i' = i) → x = r' ∧ y = r) := by
  by_cases h : c' = c ∧ i' = i
  · obtain ⟨rfl, rfl⟩ := h
    rw [u.new] at hx; cases hx
    exact ⟨r, u.old, hk.symm, hch.symm, hrc, hjc, fun hn => absurd ⟨rfl, rfl⟩ hn, fun _ => ⟨rfl, rfl⟩⟩
  · rw [u.other c' i' h] at hx
    exact ⟨x, hx, rfl, rfl, Nat.le_refl _, Nat.le_refl _, fun _ => rfl, fun hh => absurd hh h⟩

theorem ownC_reqUpd {roots : List Nat} {cs cs' : List Core} {c i : Nat} {r r' : Req} (o : OwnC roots cs)
    (u : ReqUpd cs cs' c i r r') (hk : r'.kind = r.kind) (hch : r'.chain = r.chain) (hrc : r.rc ≤ r'.rc) (hjc : r.jc ≤ r'.jc)
    (hF : r.settler = true → 1 ≤ r'.rc → Fulfilled cs c) (hR : r.settler = true → 1 ≤ r'.jc → RejOK cs c) : OwnC roots cs' := by
  have fwd := u.fwd hk hch hrc hjc
  have back := fun {c' i' x} (hx : rq cs' c' i' = some x) => u.back hk hch hrc hjc hx
  refine ⟨?_, ?_, ?_, ?_, ?_, ?_, ?_, ?_, ?_⟩
  · intro c' i' x hx hs
    obtain ⟨y, hy, hyk, hyc, _, _, _, _⟩ := back hx
    rw [u.len, ← hyc]; exact o.bound c' i' y hy (by rw [settler_congr hyk]; exact hs)
  · intro c1 i1 x1 c2 i2 x2 h1 h2 hu1 hu2 hcc
    obtain ⟨y1, hy1, hk1, hc1, _⟩ := back h1
    obtain ⟨y2, hy2, hk2, hc2, _⟩ := back h2
    exact o.uniqU c1 i1 y1 c2 i2 y2 hy1 hy2 (by rw [isUser_congr hk1]; exact hu1) (by rw [isUser_congr hk2]; exact hu2) (by rw [hc1, hc2]; exact hcc)
  · intro c1 i1 x1 c2 i2 x2 h1 h2 hu1 hu2 hcc
    obtain ⟨y1, hy1, hk1, hc1, _⟩ := back h1
    obtain ⟨y2, hy2, hk2, hc2, _⟩ := back h2
    exact o.uniqC c1 i1 y1 c2 i2 y2 hy1 hy2 (by rw [isChainer_congr hk1]; exact hu1) (by rw [isChainer_congr hk2]; exact hu2) (by rw [hc1, hc2]; exact hcc)
  · intro q j ch hch' hcc
    obtain ⟨y, hy, hyk, hyc, _⟩ := back hch'
    obtain ⟨c0, i0, r0, h0, hu0, hc0, hp0, hrc0⟩ := o.prov q j y hy (by rw [isChainer_congr hyk]; exact hcc)
    obtain ⟨x0, hx0, hxk, hxc, hxr, _⟩ := fwd c0 i0 r0 h0
    exact ⟨c0, i0, x0, hx0, by rw [isUser_congr hxk]; exact hu0, by rw [hxc, hc0, hyc], by rw [retPromise_congr hxk]; exact hp0, by omega⟩
  · intro d hd c' i' x hx hu
    obtain ⟨y, hy, hyk, hyc, _⟩ := back hx
    rw [← hyc]; exact o.noHolder d hd c' i' y hy (by rw [isUser_congr hyk]; exact hu)
  · intro c' i' x hx hs h1
    obtain ⟨y, hy, hyk, hyc, _, _, hne, heq⟩ := back hx
    apply fulfilled_of_st (u.st c')
    by_cases h : c' = c ∧ i' = i
    · obtain ⟨hx', hy'⟩ := heq h
      obtain ⟨rfl, rfl⟩ := h
      subst hx'; subst hy'
      exact hF (by rw [← settler_congr hk]; exact hs) h1
    · have := hne h; subst this
      exact o.rcOK c' i' y hy hs h1
  · intro c' i' x hx hs h1
    obtain ⟨y, hy, hyk, hyc, _, _, hne, heq⟩ := back hx
    apply rejOK_fwd (u.st c') fwd
    by_cases h : c' = c ∧ i' = i
    · obtain ⟨hx', hy'⟩ := heq h
      obtain ⟨rfl, rfl⟩ := h
      subst hx'; subst hy'
      exact hR (by rw [← settler_congr hk]; exact hs) h1
    · have := hne h; subst this
      exact o.jcOK c' i' y hy hs h1
  · intro c' i' x hx hu hf
    obtain ⟨y, hy, hyk, hyc, hyr, _⟩ := back hx
    have hf' : Fulfilled cs y.chain := by rw [hyc]; exact fulfilled_of_st (u.st _).symm hf
    rcases o.spentF c' i' y hy (by rw [isUser_congr hyk]; exact hu) hf' with ⟨hv, h1⟩ | ⟨q, j, ch, hq, hcc, hcd, h1⟩
    · exact Or.inl ⟨by rw [← retValue_congr hyk]; exact hv, by omega⟩
    · obtain ⟨z, hz, hzk, hzc, hzr, _⟩ := fwd q j ch hq
      exact Or.inr ⟨q, j, z, hz, by rw [isChainer_congr hzk]; exact hcc, by rw [hzc, hcd, hyc], by omega⟩
  · intro c' i' x hx hu hf
    obtain ⟨y, hy, hyk, hyc, _, hyj, _⟩ := back hx
    have hf' : Rejected cs y.chain := by rw [hyc]; exact rejected_of_st (u.st _).symm hf
    rcases o.spentR c' i' y hy (by rw [isUser_congr hyk]; exact hu) hf' with ⟨hv, h1⟩ | ⟨q, j, ch, hq, hcc, hcd, h1⟩
    · exact Or.inl ⟨by rw [← rethrows_congr hyk]; exact hv, by omega⟩
    · obtain ⟨z, hz, hzk, hzc, _, hzj⟩ := fwd q j ch hq
      exact Or.inr ⟨q, j, z, hz, by rw [isChainer_congr hzk]; exact hcc, by rw [hzc, hcd, hyc], by omega⟩

/-! ### a pending core is settled -/

theorem StUpd.fwd {cs cs' : List Core} {d : Nat} {s : St} (u : StUpd cs cs' d s) : Fwd cs cs' := by
  intro c i y hy; exact ⟨y, by rw [u.rqs]; exact hy, rfl, rfl, Nat.le_refl _, Nat.le_refl _⟩

theorem StUpd.fulfilled_mono {cs cs' : List Core} {d : Nat} {s : St} (u : StUpd cs cs' d s) (hp : Pending cs d) {c : Nat}
    (h : Fulfilled cs c) : Fulfilled cs' c := by
  by_cases hc : c = d
  · subst hc; exact absurd h (fun h => pending_not_fulfilled hp h)
  · exact fulfilled_of_st (u.other c hc) h

theorem StUpd.rejected_mono {cs cs' : List Core} {d : Nat} {s : St} (u : StUpd cs cs' d s) (hp : Pending cs d) {c : Nat}
    (h : Rejected cs c) : Rejected cs' c := by
  by_cases hc : c = d
  · subst hc; exact absurd h (fun h => pending_not_rejected hp h)
  · exact rejected_of_st (u.other c hc) h

/-- RejOK survives the settlement of `d`, unless `d` itself was doomed and is now fulfilled -/
theorem StUpd.rejOK_mono {cs cs' : List Core} {d : Nat} {s : St} (u : StUpd cs cs' d s) (hp : Pending cs d)
    (hd : Doomed cs d → Rejected cs' d) {c : Nat} (h : RejOK cs c) : RejOK cs' c := by
  rcases h with h | h
  · exact Or.inl (u.rejected_mono hp h)
  · by_cases hc : c = d
    · subst hc; exact Or.inl (hd h)
    · exact Or.inr (doomed_fwd (u.other c hc) u.fwd h)

theorem ownC_fulfil {roots : List Nat} {cs cs' : List Core} {d : Nat} {v : Int} (o : OwnC roots cs)
    (u : StUpd cs cs' d (.fulfilled v)) (hp : Pending cs d) (hnd : ¬ Doomed cs d)
    (hF : ∀ c i r, rq cs c i = some r → r.isUser = true → r.chain = d →
      (r.retValue = true ∧ 1 ≤ r.rc) ∨ (∃ q j ch, rq cs q j = some ch ∧ ch.isChainer = true ∧ ch.chain = d ∧ 1 ≤ ch.rc)) :
    OwnC roots cs' := by
  refine ⟨?_, ?_, ?_, ?_, ?_, ?_, ?_, ?_, ?_⟩
  · intro c i r hr hs; rw [u.rqs] at hr; rw [u.len]; exact o.bound c i r hr hs
  · intro c1 i1 x1 c2 i2 x2 h1 h2; rw [u.rqs] at h1 h2; exact o.uniqU c1 i1 x1 c2 i2 x2 h1 h2
  · intro c1 i1 x1 c2 i2 x2 h1 h2; rw [u.rqs] at h1 h2; exact o.uniqC c1 i1 x1 c2 i2 x2 h1 h2
  · intro q j ch h hc; rw [u.rqs] at h
    obtain ⟨c0, i0, r0, h0, rest⟩ := o.prov q j ch h hc
    exact ⟨c0, i0, r0, by rw [u.rqs]; exact h0, rest⟩
  · intro d' hd c i r hr; rw [u.rqs] at hr; exact o.noHolder d' hd c i r hr
  · intro c i r hr hs h1; rw [u.rqs] at hr; exact u.fulfilled_mono hp (o.rcOK c i r hr hs h1)
  · intro c i r hr hs h1; rw [u.rqs] at hr
    exact u.rejOK_mono hp (fun h => absurd h hnd) (o.jcOK c i r hr hs h1)
  · intro c i r hr hu hf; rw [u.rqs] at hr
    by_cases hc : r.chain = d
    · rcases hF c i r hr hu hc with h | ⟨q, j, ch, hq, rest⟩
      · exact Or.inl h
      · exact Or.inr ⟨q, j, ch, by rw [u.rqs]; exact hq, by rw [hc]; exact rest⟩
    · have hf' : Fulfilled cs r.chain := fulfilled_of_st (u.other _ hc).symm hf
      rcases o.spentF c i r hr hu hf' with h | ⟨q, j, ch, hq, rest⟩
      · exact Or.inl h
      · exact Or.inr ⟨q, j, ch, by rw [u.rqs]; exact hq, rest⟩
  · intro c i r hr hu hf; rw [u.rqs] at hr
    by_cases hc : r.chain = d
    · obtain ⟨e, he⟩ := hf; rw [hc, u.new] at he; cases he
    · have hf' : Rejected cs r.chain := rejected_of_st (u.other _ hc).symm hf
      rcases o.spentR c i r hr hu hf' with h | ⟨q, j, ch, hq, rest⟩
      · exact Or.inl h
      · exact Or.inr ⟨q, j, ch, by rw [u.rqs]; exact hq, rest⟩

theorem ownC_reject {roots : List Nat} {cs cs' : List Core} {d : Nat} {e : Nat} (o : OwnC roots cs)
    (u : StUpd cs cs' d (.rejected e)) (hp : Pending cs d)
    (hR : ∀ c i r, rq cs c i = some r → r.isUser = true → r.chain = d →
      (r.rethrows = true ∧ 1 ≤ r.jc) ∨ (∃ q j ch, rq cs q j = some ch ∧ ch.isChainer = true ∧ ch.chain = d ∧ 1 ≤ ch.jc)) :
    OwnC roots cs' := by
  have hrej : Rejected cs' d := ⟨e, u.new⟩
  refine ⟨?_, ?_, ?_, ?_, ?_, ?_, ?_, ?_, ?_⟩
  · intro c i r hr hs; rw [u.rqs] at hr; rw [u.len]; exact o.bound c i r hr hs
  · intro c1 i1 x1 c2 i2 x2 h1 h2; rw [u.rqs] at h1 h2; exact o.uniqU c1 i1 x1 c2 i2 x2 h1 h2
  · intro c1 i1 x1 c2 i2 x2 h1 h2; rw [u.rqs] at h1 h2; exact o.uniqC c1 i1 x1 c2 i2 x2 h1 h2
  · intro q j ch h hc; rw [u.rqs] at h
    obtain ⟨c0, i0, r0, h0, rest⟩ := o.prov q j ch h hc
    exact ⟨c0, i0, r0, by rw [u.rqs]; exact h0, rest⟩
  · intro d' hd c i r hr; rw [u.rqs] at hr; exact o.noHolder d' hd c i r hr
  · intro c i r hr hs h1; rw [u.rqs] at hr; exact u.fulfilled_mono hp (o.rcOK c i r hr hs h1)
  · intro c i r hr hs h1; rw [u.rqs] at hr
    exact u.rejOK_mono hp (fun _ => hrej) (o.jcOK c i r hr hs h1)
  · intro c i r hr hu hf; rw [u.rqs] at hr
    by_cases hc : r.chain = d
    · obtain ⟨v, hv⟩ := hf; rw [hc, u.new] at hv; cases hv
    · have hf' : Fulfilled cs r.chain := fulfilled_of_st (u.other _ hc).symm hf
      rcases o.spentF c i r hr hu hf' with h | ⟨q, j, ch, hq, rest⟩
      · exact Or.inl h
      · exact Or.inr ⟨q, j, ch, by rw [u.rqs]; exact hq, rest⟩
  · intro c i r hr hu hf; rw [u.rqs] at hr
    by_cases hc : r.chain = d
    · rcases hR c i r hr hu hc with h | ⟨q, j, ch, hq, rest⟩
      · exact Or.inl h
      · exact Or.inr ⟨q, j, ch, by rw [u.rqs]; exact hq, by rw [hc]; exact rest⟩
    · have hf' : Rejected cs r.chain := rejected_of_st (u.other _ hc).symm hf
      rcases o.spentR c i r hr hu hf' with h | ⟨q, j, ch, hq, rest⟩
      · exact Or.inl h
      · exact Or.inr ⟨q, j, ch, by rw [u.rqs]; exact hq, rest⟩

/-! ### a fresh request is appended -/

theorem AppUpd.fwd {cs cs' : List Core} {p : Nat} {r : Req} (u : AppUpd cs cs' p r) : Fwd cs cs' := by
  intro c i y hy
  have hne : ¬ (c = p ∧ i = (cs.getD p {}).reqs.length) := by
    rintro ⟨rfl, rfl⟩; rw [u.idxNone] at hy; cases hy
  exact ⟨y, by rw [u.other c i hne]; exact hy, rfl, rfl, Nat.le_refl _, Nat.le_refl _⟩

theorem AppUpd.back {cs cs' : List Core} {p : Nat} {r : Req} (u : AppUpd cs cs' p r) {c i : Nat} {x : Req}
    (hx : rq cs' c i = some x) : (c = p ∧ i = (cs.getD p {}).reqs.length ∧ x = r) ∨ rq cs c i = some x := by
  by_cases h : c = p ∧ i = (cs.getD p {}).reqs.length
  · obtain ⟨rfl, rfl⟩ := h
    rw [u.new] at hx; cases hx
    exact Or.inl ⟨rfl, rfl, rfl⟩
  · rw [u.other c i h] at hx; exact Or.inr hx

theorem ownC_append {roots : List Nat} {cs cs' : List Core} {p : Nat} {r : Req} (o : OwnC roots cs) (u : AppUpd cs cs' p r)
    (h0 : r.rc = 0 ∧ r.jc = 0)
    (hU : r.isUser = true → r.chain < cs.length ∧ (∀ c i y, rq cs c i = some y → y.isUser = true → y.chain ≠ r.chain) ∧
      r.chain ∉ roots ∧ Pending cs r.chain)
    (hC : r.isChainer = true → r.chain < cs.length ∧ (∀ c i y, rq cs c i = some y → y.isChainer = true → y.chain ≠ r.chain) ∧
      (∃ c i y, rq cs c i = some y ∧ y.isUser = true ∧ y.chain = r.chain ∧ y.retPromise = true ∧ 1 ≤ y.rc)) :
    OwnC roots cs' := by
  have fwd := u.fwd
  refine ⟨?_, ?_, ?_, ?_, ?_, ?_, ?_, ?_, ?_⟩
  · intro c i x hx hs
    rw [u.len]
    rcases u.back hx with ⟨_, _, rfl⟩ | hx
    · unfold Req.settler at hs
      cases hu : x.isUser with
      | true => exact (hU hu).1
      | false => rw [hu] at hs; simp only [Bool.false_or] at hs; exact (hC hs).1
    · exact o.bound c i x hx hs
  · intro c1 i1 x1 c2 i2 x2 h1 h2 hu1 hu2 hcc
    rcases u.back h1 with ⟨e1, e1', rfl⟩ | h1
    · rcases u.back h2 with ⟨e2, e2', rfl⟩ | h2
      · exact ⟨by rw [e1, e2], by rw [e1', e2']⟩
      · exact absurd hcc.symm ((hU hu1).2.1 c2 i2 x2 h2 hu2)
    · rcases u.back h2 with ⟨e2, e2', rfl⟩ | h2
      · exact absurd hcc ((hU hu2).2.1 c1 i1 x1 h1 hu1)
      · exact o.uniqU c1 i1 x1 c2 i2 x2 h1 h2 hu1 hu2 hcc
  · intro c1 i1 x1 c2 i2 x2 h1 h2 hu1 hu2 hcc
    rcases u.back h1 with ⟨e1, e1', rfl⟩ | h1
    · rcases u.back h2 with ⟨e2, e2', rfl⟩ | h2
      · exact ⟨by rw [e1, e2], by rw [e1', e2']⟩
      · exact absurd hcc.symm ((hC hu1).2.1 c2 i2 x2 h2 hu2)
    · rcases u.back h2 with ⟨e2, e2', rfl⟩ | h2
      · exact absurd hcc ((hC hu2).2.1 c1 i1 x1 h1 hu1)
      · exact o.uniqC c1 i1 x1 c2 i2 x2 h1 h2 hu1 hu2 hcc
  · intro q j ch hch hcc
    have key : ∃ c i y, rq cs c i = some y ∧ y.isUser = true ∧ y.chain = ch.chain ∧ y.retPromise = true ∧ 1 ≤ y.rc := by
      rcases u.back hch with ⟨_, _, rfl⟩ | hch
      · exact (hC hcc).2.2
      · exact o.prov q j ch hch hcc
    obtain ⟨c0, i0, y, hy, hu, hc, hp, h1⟩ := key
    obtain ⟨x0, hx0, hxk, hxc, hxr, _⟩ := fwd c0 i0 y hy
    exact ⟨c0, i0, x0, hx0, by rw [isUser_congr hxk]; exact hu, by rw [hxc, hc], by rw [retPromise_congr hxk]; exact hp, by omega⟩
  · intro d hd c i x hx hu
    rcases u.back hx with ⟨_, _, rfl⟩ | hx
    · intro e; exact (hU hu).2.2.1 (e ▸ hd)
    · exact o.noHolder d hd c i x hx hu
  · intro c i x hx hs h1
    rcases u.back hx with ⟨_, _, rfl⟩ | hx
    · omega
    · exact fulfilled_of_st (u.st c) (o.rcOK c i x hx hs h1)
  · intro c i x hx hs h1
    rcases u.back hx with ⟨_, _, rfl⟩ | hx
    · omega
    · exact rejOK_fwd (u.st c) fwd (o.jcOK c i x hx hs h1)
  · intro c i x hx hu hf
    rcases u.back hx with ⟨_, _, rfl⟩ | hx
    · exact absurd (fulfilled_of_st (u.st _).symm hf) (fun h => pending_not_fulfilled (hU hu).2.2.2 h)
    · rcases o.spentF c i x hx hu (fulfilled_of_st (u.st _).symm hf) with h | ⟨q, j, ch, hq, hcc, hcd, h1⟩
      · exact Or.inl h
      · obtain ⟨z, hz, hzk, hzc, hzr, _⟩ := fwd q j ch hq
        exact Or.inr ⟨q, j, z, hz, by rw [isChainer_congr hzk]; exact hcc, by rw [hzc, hcd], by omega⟩
  · intro c i x hx hu hf
    rcases u.back hx with ⟨_, _, rfl⟩ | hx
    · exact absurd (rejected_of_st (u.st _).symm hf) (fun h => pending_not_rejected (hU hu).2.2.2 h)
    · rcases o.spentR c i x hx hu (rejected_of_st (u.st _).symm hf) with h | ⟨q, j, ch, hq, hcc, hcd, h1⟩
      · exact Or.inl h
      · obtain ⟨z, hz, hzk, hzc, _, hzj⟩ := fwd q j ch hq
        exact Or.inr ⟨q, j, z, hz, by rw [isChainer_congr hzk]; exact hcc, by rw [hzc, hcd], by omega⟩

/-! ### a new core -/

theorem rq_append_core (cs : List Core) (x : Core) (hx : x.reqs = []) (c i : Nat) : rq (cs ++ [x]) c i = rq cs c i := by
  unfold rq
  by_cases hc : c < cs.length
  · simp [List.getD, List.getElem?_append_left hc]
  · by_cases hc' : c = cs.length
    · subst hc'; simp [List.getD, hx]
    · have h1 : (cs ++ [x])[c]? = none := List.getElem?_eq_none (by rw [List.length_append, List.length_singleton]; omega)
      have h2 : cs[c]? = none := List.getElem?_eq_none (by omega)
      simp [List.getD, h1, h2]

theorem stOf_append_core (cs : List Core) (x : Core) (c : Nat) (hc : c < cs.length) : stOf (cs ++ [x]) c = stOf cs c := by
  unfold stOf; simp [List.getD, List.getElem?_append_left hc]

theorem stOf_append_new (cs : List Core) (x : Core) : stOf (cs ++ [x]) cs.length = x.st := by
  unfold stOf; simp [List.getD]

theorem ownC_newCore {roots : List Nat} {cs : List Core} (x : Core) (hx : x.reqs = []) (o : OwnC roots cs) :
    OwnC (cs.length :: roots) (cs ++ [x]) := by
  have hrq := rq_append_core cs x hx
  have hlt : ∀ {c i r}, rq cs c i = some r → c < cs.length := fun h => rq_some_lt h
  have fwd : Fwd cs (cs ++ [x]) := by
    intro c i y hy; exact ⟨y, by rw [hrq]; exact hy, rfl, rfl, Nat.le_refl _, Nat.le_refl _⟩
  refine ⟨?_, ?_, ?_, ?_, ?_, ?_, ?_, ?_, ?_⟩
  · intro c i r hr hs; rw [hrq] at hr
    have := o.bound c i r hr hs
    rw [List.length_append, List.length_singleton]; omega
  · intro c1 i1 x1 c2 i2 x2 h1 h2; rw [hrq] at h1 h2; exact o.uniqU c1 i1 x1 c2 i2 x2 h1 h2
  · intro c1 i1 x1 c2 i2 x2 h1 h2; rw [hrq] at h1 h2; exact o.uniqC c1 i1 x1 c2 i2 x2 h1 h2
  · intro q j ch h hc; rw [hrq] at h
    obtain ⟨c0, i0, r0, h0, rest⟩ := o.prov q j ch h hc
    exact ⟨c0, i0, r0, by rw [hrq]; exact h0, rest⟩
  · intro d hd c i r hr hu; rw [hrq] at hr
    rcases List.mem_cons.mp hd with rfl | hd
    · have := o.bound c i r hr (user_settler hu); omega
    · exact o.noHolder d hd c i r hr hu
  · intro c i r hr hs h1; rw [hrq] at hr
    exact fulfilled_of_st (stOf_append_core cs x c (hlt hr)) (o.rcOK c i r hr hs h1)
  · intro c i r hr hs h1; rw [hrq] at hr
    exact rejOK_fwd (stOf_append_core cs x c (hlt hr)) fwd (o.jcOK c i r hr hs h1)
  · intro c i r hr hu hf; rw [hrq] at hr
    have hb := o.bound c i r hr (user_settler hu)
    rcases o.spentF c i r hr hu (fulfilled_of_st (stOf_append_core cs x _ hb).symm hf) with h | ⟨q, j, ch, hq, rest⟩
    · exact Or.inl h
    · exact Or.inr ⟨q, j, ch, by rw [hrq]; exact hq, rest⟩
  · intro c i r hr hu hf; rw [hrq] at hr
    have hb := o.bound c i r hr (user_settler hu)
    rcases o.spentR c i r hr hu (rejected_of_st (stOf_append_core cs x _ hb).symm hf) with h | ⟨q, j, ch, hq, rest⟩
    · exact Or.inl h
    · exact Or.inr ⟨q, j, ch, by rw [hrq]; exact hq, rest⟩

/-- the same with the roots unchanged (the new core is a derived one) -/
theorem ownC_newCore' {roots : List Nat} {cs : List Core} (x : Core) (hx : x.reqs = []) (o : OwnC roots cs) :
    OwnC roots (cs ++ [x]) := by
  have h := ownC_newCore x hx o
  exact { h with noHolder := fun d hd => h.noHolder d (List.mem_cons_of_mem _ hd) }

end Pistache.Promise
