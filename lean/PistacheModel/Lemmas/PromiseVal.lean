/-
Provenance invariant of the combinators (whenAll / whenAny): the outcome of a combined promise is the outcome of
its inputs.
  * every request that is an input of block `d` sits on an argument promise of the combinator that created `d`
    (an all-of input with index k sits on the k-th argument);
  * every recorded result (k, a) of an all-of block is the value of a fulfilled input with index k;
  * a fulfilled combined promise carries either the value of a fulfilled any-of input, or the positional encoding
    of the recorded results of a complete all-of block;
  * a rejected combined promise carries the exception of a rejected input (or the null exception 0 that a
    swallowed rejection hands down — as the code is).
The fields `inputs` / `anyKind` of `Data` are ghost state: `step` never reads them.
-/
import PistacheModel.Lemmas.PromiseDataProgram

namespace Pistache.Promise

/-- positional encoding of the results of an all-of block (what the model hands to the combined promise) -/
def enc (res : List (Nat × Int)) : Int := res.foldl (fun s p => s + p.2 * (100 : Int) ^ p.1) 0

def LinkReq (ds : List Data) (c : Nat) (x : Req) : Prop :=
  (∀ d k, x.kind = .allInput d k → ∃ dd, ds[d]? = some dd ∧ dd.anyKind = false ∧ dd.inputs[k]? = some c) ∧
  (∀ d, x.kind = .anyInput d → ∃ dd, ds[d]? = some dd ∧ dd.anyKind = true ∧ c ∈ dd.inputs)

def ResWit (cs : List Core) (d : Nat) (p : Nat × Int) : Prop :=
  ∃ c i x, rq cs c i = some x ∧ x.kind = .allInput d p.1 ∧ 1 ≤ x.rc ∧ stOf cs c = .fulfilled p.2

def FWit (cs : List Core) (d : Nat) (dd : Data) (v : Int) : Prop :=
  (∃ c i x, rq cs c i = some x ∧ x.kind = .anyInput d ∧ 1 ≤ x.rc ∧ stOf cs c = .fulfilled v) ∨
  (dd.resolved = dd.total ∧ v = enc dd.results ∧ ∃ c i x k, rq cs c i = some x ∧ x.kind = .allInput d k ∧ 1 ≤ x.rc)

def RWit (cs : List Core) (d : Nat) (e : Nat) : Prop :=
  ∃ c i x, rq cs c i = some x ∧ (isAll d x = true ∨ isAny d x = true) ∧ 1 ≤ x.jc ∧ (stOf cs c = .rejected e ∨ e = 0)

/-- the request is input number `k` of the all-of block `d` -/
def isIdx (d k : Nat) (r : Req) : Bool := match r.kind with | .allInput d' k' => d' == d && k' == k | _ => false
def fIdx (d k : Nat) (r : Req) : Nat := if isIdx d k r then 1 else 0
def attIdx (d k : Nat) : Act → Bool | .attach _ r => isIdx d k r | _ => false
def sIdx (d k : Nat) (stack : List Act) : Nat := stack.countP (attIdx d k)

theorem isIdx_congr {d k : Nat} {r r' : Req} (h : r'.kind = r.kind) : isIdx d k r' = isIdx d k r := by unfold isIdx; rw [h]
theorem fIdx_congr {d k : Nat} {r r' : Req} (h : r'.kind = r.kind) : fIdx d k r' = fIdx d k r := by unfold fIdx; rw [isIdx_congr h]
theorem fIdx_of_kind {d k : Nat} {r : Req} (h : r.kind = .allInput d k) : fIdx d k r = 1 := by unfold fIdx isIdx; rw [h]; simp
theorem fIdx_settler {d k : Nat} {r : Req} (hs : r.settler = true) : fIdx d k r = 0 := by
  unfold Req.settler Req.isUser Req.isChainer at hs
  unfold fIdx isIdx
  cases hk : r.kind <;> rw [hk] at hs <;> simp at hs <;> rfl
theorem sIdx_cons (d k : Nat) (a : Act) (st : List Act) : sIdx d k (a :: st) = (if attIdx d k a then 1 else 0) + sIdx d k st := by
  unfold sIdx; rw [List.countP_cons]; omega
theorem sIdx_walk (d k : Nat) (mk : Nat → Nat → Act) (hmk : ∀ c i p r, mk c i ≠ .attach p r) (c n : Nat) (st : List Act) :
    sIdx d k (walk mk c n ++ st) = sIdx d k st := by
  unfold sIdx walk
  rw [List.countP_append]
  have : List.countP (attIdx d k) ((List.range n).map (mk c)) = 0 := by
    rw [List.countP_eq_zero]; intro a ha; simp only [List.mem_map] at ha; obtain ⟨i, _, rfl⟩ := ha
    have := hmk c i
    cases hh : mk c i with
    | attach p r => exact absurd hh (this p r)
    | resolveReq _ _ => simp [attIdx]
    | rejectReq _ _ => simp [attIdx]
  omega

structure ValOK (m : M) : Prop where
  link : ∀ c i x, rq m.cores c i = some x → LinkReq m.datas c x
  linkS : ∀ p r, Act.attach p r ∈ m.stack → LinkReq m.datas p r
  resOK : ∀ (d : Nat) (dd : Data), m.datas[d]? = some dd → ∀ p ∈ dd.results, ResWit m.cores d p
  tgtF : ∀ (d : Nat) (dd : Data) (v : Int), m.datas[d]? = some dd → stOf m.cores dd.target = .fulfilled v → FWit m.cores d dd v
  tgtR : ∀ (d : Nat) (dd : Data) (e : Nat), m.datas[d]? = some dd → stOf m.cores dd.target = .rejected e → RWit m.cores d e
  resLen : ∀ dd ∈ m.datas, dd.results.length = dd.resolved
  inLen : ∀ dd ∈ m.datas, dd.total = dd.inputs.length
  idxU : ∀ d k, tally (fIdx d k) m.cores + sIdx d k m.stack ≤ 1
  resND : ∀ dd ∈ m.datas, (dd.results.map (·.1)).Nodup

/-! ### transfer lemmas -/

theorem linkReq_congr {ds : List Data} {c : Nat} {x y : Req} (hk : y.kind = x.kind) (h : LinkReq ds c y) : LinkReq ds c x :=
  ⟨fun d k hx => h.1 d k (by rw [hk]; exact hx), fun d hx => h.2 d (by rw [hk]; exact hx)⟩

theorem linkReq_datas {ds ds' : List Data} {c : Nat} {x : Req}
    (hds : ∀ (d : Nat) (dd : Data), ds[d]? = some dd → ∃ dd', ds'[d]? = some dd' ∧ dd'.anyKind = dd.anyKind ∧ dd'.inputs = dd.inputs)
    (h : LinkReq ds c x) : LinkReq ds' c x := by
  refine ⟨?_, ?_⟩
  · intro d k hx
    obtain ⟨dd, hd, ha, hi⟩ := h.1 d k hx
    obtain ⟨dd', hd', ha', hi'⟩ := hds d dd hd
    exact ⟨dd', hd', by rw [ha', ha], by rw [hi', hi]⟩
  · intro d hx
    obtain ⟨dd, hd, ha, hi⟩ := h.2 d hx
    obtain ⟨dd', hd', ha', hi'⟩ := hds d dd hd
    exact ⟨dd', hd', by rw [ha', ha], by rw [hi']; exact hi⟩

theorem linkReq_settler {ds : List Data} {c : Nat} {x : Req} (hs : x.settler = true) : LinkReq ds c x := by
  unfold Req.settler Req.isUser Req.isChainer at hs
  refine ⟨?_, ?_⟩
  · intro d k hk; rw [hk] at hs; simp at hs
  · intro d hk; rw [hk] at hs; simp at hs

theorem stable_fulfilled {cs cs' : List Core} (hs : Stable cs cs') {c : Nat} {v : Int} (h : stOf cs c = .fulfilled v) : stOf cs' c = .fulfilled v := by
  rw [hs c (by rw [h]; intro e; cases e), h]
theorem stable_rejected {cs cs' : List Core} (hs : Stable cs cs') {c : Nat} {e : Nat} (h : stOf cs c = .rejected e) : stOf cs' c = .rejected e := by
  rw [hs c (by rw [h]; intro e; cases e), h]

theorem resWit_mono {cs cs' : List Core} (hf : Fwd cs cs') (hs : Stable cs cs') {d : Nat} {p : Nat × Int} (h : ResWit cs d p) : ResWit cs' d p := by
  obtain ⟨c, i, x, hx, hk, hr, hst⟩ := h
  obtain ⟨y, hy, hyk, _, hyr, _⟩ := hf c i x hx
  exact ⟨c, i, y, hy, by rw [hyk, hk], by omega, stable_fulfilled hs hst⟩

theorem fWit_mono {cs cs' : List Core} (hf : Fwd cs cs') (hs : Stable cs cs') {d : Nat} {dd : Data} {v : Int} (h : FWit cs d dd v) : FWit cs' d dd v := by
  rcases h with ⟨c, i, x, hx, hk, hr, hst⟩ | ⟨h1, h2, c, i, x, k, hx, hk, hr⟩
  · obtain ⟨y, hy, hyk, _, hyr, _⟩ := hf c i x hx
    exact Or.inl ⟨c, i, y, hy, by rw [hyk, hk], by omega, stable_fulfilled hs hst⟩
  · obtain ⟨y, hy, hyk, _, hyr, _⟩ := hf c i x hx
    exact Or.inr ⟨h1, h2, c, i, y, k, hy, by rw [hyk, hk], by omega⟩

theorem fWit_data {cs : List Core} {d : Nat} {dd dd' : Data} {v : Int} (h1 : dd'.resolved = dd.resolved) (h2 : dd'.total = dd.total)
    (h3 : dd'.results = dd.results) (h : FWit cs d dd v) : FWit cs d dd' v := by
  rcases h with h | ⟨ha, hb, hc⟩
  · exact Or.inl h
  · exact Or.inr ⟨by rw [h1, h2]; exact ha, by rw [h3]; exact hb, hc⟩

theorem rWit_mono {cs cs' : List Core} (hf : Fwd cs cs') (hs : Stable cs cs') {d : Nat} {e : Nat} (h : RWit cs d e) : RWit cs' d e := by
  obtain ⟨c, i, x, hx, hk, hj, hst⟩ := h
  obtain ⟨y, hy, hyk, _, _, hyj⟩ := hf c i x hx
  refine ⟨c, i, y, hy, ?_, by omega, ?_⟩
  · rw [isAll_congr hyk, isAny_congr hyk]; exact hk
  · rcases hst with hst | hst
    · exact Or.inl (stable_rejected hs hst)
    · exact Or.inr hst

/-- the frame rule: requests persist, settled cores keep their state, the states of the combined promises and
    the data blocks are untouched, and whatever request is new satisfies the link -/
theorem val_frame {m m' : M} (h : ValOK m) (hd : m'.datas = m.datas) (hf : Fwd m.cores m'.cores) (hs : Stable m.cores m'.cores)
    (htg : ∀ dd ∈ m.datas, stOf m'.cores dd.target = stOf m.cores dd.target)
    (hnew : ∀ c i x, rq m'.cores c i = some x → (∃ y, rq m.cores c i = some y ∧ y.kind = x.kind) ∨ LinkReq m.datas c x)
    (hst : ∀ p r, Act.attach p r ∈ m'.stack → Act.attach p r ∈ m.stack)
    (hcnt : ∀ d k, tally (fIdx d k) m'.cores + sIdx d k m'.stack ≤ 1) : ValOK m' := by
  refine ⟨?_, ?_, ?_, ?_, ?_, ?_, ?_, ?_, ?_⟩
  · intro c i x hx
    rw [hd]
    rcases hnew c i x hx with ⟨y, hy, hk⟩ | hl
    · exact linkReq_congr hk (h.link c i y hy)
    · exact hl
  · intro p r hm; rw [hd]; exact h.linkS p r (hst p r hm)
  · intro d dd hl p hp; rw [hd] at hl; exact resWit_mono hf hs (h.resOK d dd hl p hp)
  · intro d dd v hl hv; rw [hd] at hl
    rw [htg dd (List.mem_of_getElem? hl)] at hv
    exact fWit_mono hf hs (h.tgtF d dd v hl hv)
  · intro d dd e hl hv; rw [hd] at hl
    rw [htg dd (List.mem_of_getElem? hl)] at hv
    exact rWit_mono hf hs (h.tgtR d dd e hl hv)
  · rw [hd]; exact h.resLen
  · rw [hd]; exact h.inLen
  · exact hcnt
  · rw [hd]; exact h.resND

theorem fwd_refl (cs : List Core) : Fwd cs cs := fun _ _ y hy => ⟨y, hy, rfl, rfl, Nat.le_refl _, Nat.le_refl _⟩

/-- the invariant only looks at cores, datas and the attach actions of the stack -/
theorem val_congr {m m' : M} (hc : m'.cores = m.cores) (hd : m'.datas = m.datas)
    (hst : ∀ p r, Act.attach p r ∈ m'.stack → Act.attach p r ∈ m.stack)
    (hcnt : ∀ d k, sIdx d k m'.stack ≤ sIdx d k m.stack) (h : ValOK m) : ValOK m' :=
  val_frame h hd (by rw [hc]; exact fwd_refl _) (by rw [hc]; intro _ _; rfl) (by intro dd _; rw [hc])
    (by intro c i x hx; rw [hc] at hx; exact Or.inl ⟨x, hx, rfl⟩) hst (by intro d k; rw [hc]; have := hcnt d k; have := h.idxU d k; omega)

theorem attach_not_in_walk {mk : Nat → Nat → Act} (hmk : ∀ c i p r, mk c i ≠ .attach p r) {t n : Nat} {p : Nat} {r : Req} {st : List Act}
    (h : Act.attach p r ∈ walk mk t n ++ st) : Act.attach p r ∈ st := by
  rcases List.mem_append.mp h with h | h
  · unfold walk at h
    simp only [List.mem_map] at h
    obtain ⟨i, _, hi⟩ := h
    exact absurd hi (hmk t i p r)
  · exact h

theorem val_log {m : M} (l : List Ev) (h : ValOK m) : ValOK { m with log := l } :=
  val_congr (m := m) rfl rfl (fun _ _ hm => hm) (fun _ _ => Nat.le_refl _) h

theorem val_pop {m : M} {a : Act} {rest : List Act} (hst : m.stack = a :: rest) (h : ValOK m) : ValOK { m with stack := rest } :=
  val_congr (m := m) rfl rfl (fun p r hm => by rw [hst]; exact List.mem_cons_of_mem _ hm)
    (fun d k => by rw [hst, sIdx_cons]; show sIdx d k rest ≤ _; omega) h

theorem val_pushWalkRej {m : M} {d n : Nat} (h : ValOK m) : ValOK { m with stack := walk Act.rejectReq d n ++ m.stack } :=
  val_congr (m := m) rfl rfl (fun p r hm => attach_not_in_walk (by intro _ _ _ _ e; cases e) hm)
    (fun d' k => by show sIdx d' k (walk Act.rejectReq d n ++ m.stack) ≤ _; rw [sIdx_walk d' k _ (by intro _ _ _ _ e; cases e)]; exact Nat.le_refl _) h

/-! ### a counter bump -/

theorem val_setReq {m : M} {c i : Nat} {r r' : Req} (h : ValOK m) (hr : rq m.cores c i = some r)
    (hk : r'.kind = r.kind) (hch : r'.chain = r.chain) (hrc : r.rc ≤ r'.rc) (hjc : r.jc ≤ r'.jc) :
    ValOK (m.setCore c (setReq (m.core c) i r')) := by
  have u := reqUpd_setReq m.cores c i r r' hr
  refine val_frame h rfl (u.fwd hk hch hrc hjc) (fun k _ => u.st k) (fun dd _ => u.st _) ?_ (fun _ _ hm => hm) ?_
  · intro c' i' x hx
    obtain ⟨y, hy, hyk, _⟩ := u.back hk hch hrc hjc hx
    exact Or.inl ⟨y, hy, hyk⟩
  · intro d k
    rw [tally_setReq_eq _ m c i r r' hr (fIdx_congr hk)]
    exact h.idxU d k

/-! ### attaching a request -/

theorem thenOn_sIdx (m : M) (p : Nat) (r : Req) (d k : Nat) : sIdx d k (thenOn m p r).stack = sIdx d k m.stack := by
  unfold thenOn
  simp only []
  split
  · rfl
  · show sIdx d k (_ :: m.stack) = _; rw [sIdx_cons]; simp [attIdx]
  · show sIdx d k (_ :: m.stack) = _; rw [sIdx_cons]; simp [attIdx]

/-- `thenOn m p r`; the budget hypothesis says that `r` was still counted as a pending attach (or counts for nothing) -/
theorem val_thenOn (m : M) (p : Nat) (r : Req) (hl : LinkReq m.datas p r)
    (hbud : ∀ d k, tally (fIdx d k) m.cores + sIdx d k m.stack + fIdx d k r ≤ 1) (h : ValOK m) : ValOK (thenOn m p r) := by
  have hcs := thenOn_cores m p r
  have hstk : ∀ q x, Act.attach q x ∈ (thenOn m p r).stack → Act.attach q x ∈ m.stack := by
    intro q x hm
    unfold thenOn at hm
    simp only [] at hm
    split at hm
    · exact hm
    · rcases List.mem_cons.mp hm with e | hm'
      · cases e
      · exact hm'
    · rcases List.mem_cons.mp hm with e | hm'
      · cases e
      · exact hm'
  by_cases hlt : p < m.cores.length
  · have u := appUpd_set m.cores p r hlt
    refine val_frame h (thenOn_datas m p r) (by rw [hcs]; exact u.fwd) (by rw [hcs]; exact fun k _ => u.st k)
      (by intro dd _; rw [hcs]; exact u.st _) ?_ hstk ?_
    · intro c i x hx
      rw [hcs] at hx
      rcases u.back hx with ⟨rfl, _, rfl⟩ | hx'
      · exact Or.inr hl
      · exact Or.inl ⟨x, hx', rfl⟩
    · intro d k
      have hb := hbud d k
      have hk : tally (fIdx d k) (thenOn m p r).cores ≤ tally (fIdx d k) m.cores + fIdx d k r := by
        rw [hcs]; exact tally_set_append_le (fIdx d k) m.cores p r _
      rw [thenOn_sIdx]
      omega
  · have e : (thenOn m p r).cores = m.cores := by rw [hcs]; exact List.set_eq_of_length_le (by omega)
    exact val_congr e (thenOn_datas m p r) hstk (fun d k => by rw [thenOn_sIdx]; exact Nat.le_refl _) h

/-! ### settling a core -/

/-- settling the pending core `t`; if `t` is the combined promise of a block, the caller supplies the witness -/
theorem val_settle {m : M} {t : Nat} {s : St} (h : ValOK m) (hp : Pending m.cores t)
    (hF : ∀ (d : Nat) (dd : Data) (v : Int), m.datas[d]? = some dd → dd.target = t → s = .fulfilled v → FWit m.cores d dd v)
    (hR : ∀ (d : Nat) (dd : Data) (e : Nat), m.datas[d]? = some dd → dd.target = t → s = .rejected e → RWit m.cores d e)
    (mk : Nat → Nat → Act) (hmk : ∀ c i p r, mk c i ≠ .attach p r) (n : Nat) :
    ValOK { m with cores := m.cores.set t { m.cores.getD t {} with st := s }, stack := walk mk t n ++ m.stack } := by
  by_cases hlt : t < m.cores.length
  · have u := stUpd_set m.cores t s hlt
    have hfw : Fwd m.cores (m.cores.set t { m.cores.getD t {} with st := s }) := u.fwd
    have hsb : Stable m.cores (m.cores.set t { m.cores.getD t {} with st := s }) := by
      intro k hk
      by_cases hkt : k = t
      · subst hkt; exact absurd hp hk
      · exact u.other k hkt
    refine ⟨?_, ?_, ?_, ?_, ?_, h.resLen, h.inLen, ?_, h.resND⟩
    · intro c i x hx
      have hx' : rq m.cores c i = some x := by rw [← u.rqs]; exact hx
      exact h.link c i x hx'
    · intro p r hm; exact h.linkS p r (attach_not_in_walk hmk hm)
    · intro d dd hl p hpp; exact resWit_mono hfw hsb (h.resOK d dd hl p hpp)
    · intro d dd v hl hv
      by_cases ht : dd.target = t
      · have hv' : stOf (m.cores.set t { m.cores.getD t {} with st := s }) dd.target = .fulfilled v := hv
        rw [ht, u.new] at hv'
        exact fWit_mono hfw hsb (hF d dd v hl ht hv')
      · have hv' : stOf (m.cores.set t { m.cores.getD t {} with st := s }) dd.target = .fulfilled v := hv
        rw [u.other _ ht] at hv'
        exact fWit_mono hfw hsb (h.tgtF d dd v hl hv')
    · intro d dd e hl hv
      by_cases ht : dd.target = t
      · have hv' : stOf (m.cores.set t { m.cores.getD t {} with st := s }) dd.target = .rejected e := hv
        rw [ht, u.new] at hv'
        exact rWit_mono hfw hsb (hR d dd e hl ht hv')
      · have hv' : stOf (m.cores.set t { m.cores.getD t {} with st := s }) dd.target = .rejected e := hv
        rw [u.other _ ht] at hv'
        exact rWit_mono hfw hsb (h.tgtR d dd e hl hv')
    · intro d k
      show tally (fIdx d k) (m.cores.set t _) + sIdx d k (walk mk t n ++ m.stack) ≤ 1
      rw [tally_setSt, sIdx_walk d k mk hmk]; exact h.idxU d k
  · have hset : m.cores.set t { m.cores.getD t {} with st := s } = m.cores := List.set_eq_of_length_le (by omega)
    exact val_congr (m := m) hset rfl (fun p r hm => attach_not_in_walk hmk hm)
      (fun d k => by show sIdx d k (walk mk t n ++ m.stack) ≤ _; rw [sIdx_walk d k mk hmk]; exact Nat.le_refl _) h

theorem val_fulfilAndWalk {m : M} {t : Nat} {v : Int} (h : ValOK m) (hp : Pending m.cores t)
    (hF : ∀ (d : Nat) (dd : Data), m.datas[d]? = some dd → dd.target = t → FWit m.cores d dd v) : ValOK (fulfilAndWalk m t v) :=
  val_settle h hp (fun d dd v' hl ht e => by cases e; exact hF d dd hl ht) (fun _ _ _ _ _ e => by cases e) Act.resolveReq
    (by intro _ _ _ _ e; cases e) _

theorem val_rejectAndWalk {m : M} {t : Nat} {e : Nat} (h : ValOK m) (hp : Pending m.cores t)
    (hR : ∀ (d : Nat) (dd : Data), m.datas[d]? = some dd → dd.target = t → RWit m.cores d e) : ValOK (rejectAndWalk m t e) :=
  val_settle h hp (fun _ _ _ _ _ e => by cases e) (fun d dd e' hl ht he => by cases he; exact hR d dd hl ht) Act.rejectReq
    (by intro _ _ _ _ e; cases e) _

/-! ### updating a data block -/

/-- a change of block `d0` that keeps the ghost fields -/
theorem set_keeps {ds : List Data} {d0 : Nat} {x : Data} (hl : ds[d0]? = some (ds.getD d0 { target := 0, total := 0 }))
    (ha : x.anyKind = (ds.getD d0 { target := 0, total := 0 }).anyKind) (hi : x.inputs = (ds.getD d0 { target := 0, total := 0 }).inputs) :
    ∀ (d : Nat) (dd : Data), ds[d]? = some dd → ∃ dd', (ds.set d0 x)[d]? = some dd' ∧ dd'.anyKind = dd.anyKind ∧ dd'.inputs = dd.inputs := by
  intro d dd hd
  by_cases hdd : d = d0
  · subst hdd
    rw [hl] at hd; cases hd
    have hlt : d < ds.length := by
      rcases Nat.lt_or_ge d ds.length with h | h
      · exact h
      · rw [List.getElem?_eq_none h] at hl; cases hl
    exact ⟨x, List.getElem?_set_self hlt, ha, hi⟩
  · exact ⟨dd, by rw [List.getElem?_set_ne (Ne.symm hdd)]; exact hd, rfl, rfl⟩

/-- closing a block whose combined promise is still pending: the `rejected` / `done` flag is set -/
theorem val_setFlag {m : M} {d0 : Nat} (h : ValOK m) (hd0 : d0 < m.datas.length) :
    ValOK (m.setData d0 { m.data d0 with rejected := true }) := by
  have hl := data_lookup m d0 hd0
  have hkeep := set_keeps (ds := m.datas) (d0 := d0) (x := { m.data d0 with rejected := true }) hl rfl rfl
  refine ⟨?_, ?_, ?_, ?_, ?_, ?_, ?_, h.idxU, ?_⟩
  · intro c i x hx; exact linkReq_datas hkeep (h.link c i x hx)
  · intro p r hm; exact linkReq_datas hkeep (h.linkS p r hm)
  · intro d dd hd p hp
    rcases set_lookup _ _ _ _ _ hd with ⟨rfl, rfl, _⟩ | ⟨_, hd'⟩
    · exact h.resOK d (m.data d) hl p hp
    · exact h.resOK d dd hd' p hp
  · intro d dd v hd hv
    rcases set_lookup _ _ _ _ _ hd with ⟨rfl, rfl, _⟩ | ⟨_, hd'⟩
    · exact fWit_data rfl rfl rfl (h.tgtF d (m.data d) v hl hv)
    · exact h.tgtF d dd v hd' hv
  · intro d dd e hd hv
    rcases set_lookup _ _ _ _ _ hd with ⟨rfl, rfl, _⟩ | ⟨_, hd'⟩
    · exact h.tgtR d (m.data d) e hl hv
    · exact h.tgtR d dd e hd' hv
  · intro dd hdd
    rcases List.mem_or_eq_of_mem_set hdd with hdd | rfl
    · exact h.resLen dd hdd
    · exact h.resLen (m.data d0) (List.mem_of_getElem? hl)
  · intro dd hdd
    rcases List.mem_or_eq_of_mem_set hdd with hdd | rfl
    · exact h.inLen dd hdd
    · exact h.inLen (m.data d0) (List.mem_of_getElem? hl)
  · intro dd hdd
    rcases List.mem_or_eq_of_mem_set hdd with hdd | rfl
    · exact h.resND dd hdd
    · exact h.resND (m.data d0) (List.mem_of_getElem? hl)

/-- the value of a fulfilled input is recorded in an all-of block whose combined promise is still pending -/
theorem val_record {m : M} {d0 c i idx : Nat} {x : Req} {arg : Int} (h : ValOK m) (hd0 : d0 < m.datas.length)
    (hx : rq m.cores c i = some x) (hk : x.kind = .allInput d0 idx) (hrc : 1 ≤ x.rc) (hst : stOf m.cores c = .fulfilled arg)
    (hp : Pending m.cores (m.data d0).target) (hfresh : idx ∉ (m.data d0).results.map (·.1)) :
    ValOK (m.setData d0 { m.data d0 with results := (m.data d0).results ++ [(idx, arg)], resolved := (m.data d0).resolved + 1 }) := by
  have hl := data_lookup m d0 hd0
  have hkeep := set_keeps (ds := m.datas) (d0 := d0)
    (x := { m.data d0 with results := (m.data d0).results ++ [(idx, arg)], resolved := (m.data d0).resolved + 1 }) hl rfl rfl
  refine ⟨?_, ?_, ?_, ?_, ?_, ?_, ?_, h.idxU, ?_⟩
  · intro c' i' y hy; exact linkReq_datas hkeep (h.link c' i' y hy)
  · intro p r hm; exact linkReq_datas hkeep (h.linkS p r hm)
  · intro d dd hd p hpp
    rcases set_lookup _ _ _ _ _ hd with ⟨rfl, rfl, _⟩ | ⟨_, hd'⟩
    · rcases List.mem_append.mp hpp with hpp | hpp
      · exact h.resOK d (m.data d) hl p hpp
      · simp only [List.mem_singleton] at hpp; subst hpp
        exact ⟨c, i, x, hx, hk, hrc, hst⟩
    · exact h.resOK d dd hd' p hpp
  · intro d dd v hd hv
    rcases set_lookup _ _ _ _ _ hd with ⟨rfl, rfl, _⟩ | ⟨_, hd'⟩
    · have hv' : stOf m.cores (m.data d).target = .fulfilled v := hv
      rw [hp] at hv'; cases hv'
    · exact h.tgtF d dd v hd' hv
  · intro d dd e hd hv
    rcases set_lookup _ _ _ _ _ hd with ⟨rfl, rfl, _⟩ | ⟨_, hd'⟩
    · exact h.tgtR d (m.data d) e hl hv
    · exact h.tgtR d dd e hd' hv
  · intro dd hdd
    rcases List.mem_or_eq_of_mem_set hdd with hdd | rfl
    · exact h.resLen dd hdd
    · have := h.resLen (m.data d0) (List.mem_of_getElem? hl)
      show ((m.data d0).results ++ [(idx, arg)]).length = (m.data d0).resolved + 1
      rw [List.length_append, List.length_singleton, this]
  · intro dd hdd
    rcases List.mem_or_eq_of_mem_set hdd with hdd | rfl
    · exact h.inLen dd hdd
    · exact h.inLen (m.data d0) (List.mem_of_getElem? hl)
  · intro dd hdd
    rcases List.mem_or_eq_of_mem_set hdd with hdd | rfl
    · exact h.resND dd hdd
    · have := h.resND (m.data d0) (List.mem_of_getElem? hl)
      show (((m.data d0).results ++ [(idx, arg)]).map (·.1)).Nodup
      rw [List.map_append, List.nodup_append]
      refine ⟨this, by simp, ?_⟩
      intro a ha b hb
      simp only [List.map_cons, List.map_nil, List.mem_singleton] at hb
      subst hb
      intro e; subst e; exact hfresh ha

/-- two different requests that both count: the tally is at least two -/
theorem tally_two (f : Req → Nat) (cs : List Core) {c i c' i' : Nat} {x x' : Req} (hx : rq cs c i = some x) (hx' : rq cs c' i' = some x')
    (hne : ¬ (c' = c ∧ i' = i)) (h1 : f x = 1) (h2 : f x' = 1) (r0 : Req) (h0 : f r0 = 0) : 2 ≤ tally f cs := by
  have u := reqUpd_setReq cs c i x r0 hx
  have ht := tally_setReq f cs c i x r0 hx
  have hx2 : rq (cs.set c (setReq (cs.getD c {}) i r0)) c' i' = some x' := by rw [u.other c' i' hne]; exact hx'
  obtain ⟨k, hk1, hk2⟩ := rq_mem hx2
  have := tally_ge_elem f _ k hk1 x' hk2
  omega

/-- an input of an all-of block that has not fulfilled yet has no recorded result -/
theorem idx_fresh {m : M} (h : ValOK m) {c i d idx : Nat} {x : Req} (hx : rq m.cores c i = some x) (hk : x.kind = .allInput d idx)
    (hrc : x.rc = 0) (hd : d < m.datas.length) : idx ∉ (m.data d).results.map (·.1) := by
  intro hmem
  simp only [List.mem_map] at hmem
  obtain ⟨q, hq, hq1⟩ := hmem
  obtain ⟨c', i', x', hx', hk', hrc', _⟩ := h.resOK d (m.data d) (data_lookup m d hd) q hq
  rw [hq1] at hk'
  have hne : ¬ (c' = c ∧ i' = i) := by
    rintro ⟨rfl, rfl⟩
    rw [hx] at hx'; cases hx'; omega
  have := tally_two (fIdx d idx) m.cores hx hx' hne (fIdx_of_kind hk) (fIdx_of_kind hk') { kind := .chainer, chain := 0 } rfl
  have := h.idxU d idx
  omega

end Pistache.Promise
