/- Invariants of the queue model relating items to the producers in flight (used by Props/C13). -/
import PistacheModel.Model.Queue

namespace Pistache.Queue
open Pistache

/-- sequence numbers of producer `pid`'s items, in exchange order -/
def seqsOf (pid : Nat) (items : List Item) : List Nat :=
  items.filterMap (fun it => if it.pid = pid then some it.seq else none)

/-- how many pushes producer `p` has started (performed the exchange of) -/
def started (p : Prod) : Nat :=
  match p.pc with
  | .start => 0
  | .xchg i => i
  | .link i => i + 1
  | .notify i => i + 1
  | .done => p.pushes

def pcOk (p : Prod) : Prop :=
  match p.pc with
  | .xchg i => i < p.pushes
  | .link i => i < p.pushes
  | .notify i => i < p.pushes
  | _ => True

/-- (A) a producer between exchange and notification owns the item at `cur` -/
def OwnInv (s : QS) : Prop :=
  ∀ (pid : Nat) (p : Prod), s.prods[pid]? = some p → ∀ i : Nat, (p.pc = .link i ∨ p.pc = .notify i) →
    ∃ it : Item, s.items[p.cur]? = some it ∧ it.pid = pid ∧ it.seq = i

/-- (B) an item that is not yet notified is the one its producer is working on -/
def PendInv (s : QS) : Prop :=
  ∀ (k : Nat) (it : Item), s.items[k]? = some it → it.st ≠ .notified →
    ∃ p : Prod, s.prods[it.pid]? = some p ∧ p.cur = k ∧ (p.pc = .link it.seq ∨ p.pc = .notify it.seq)

/-- (C) per producer, the items in exchange order carry 0,1,…,started-1; nobody else's id appears -/
def OrderInv (s : QS) : Prop :=
  (∀ (pid : Nat) (p : Prod), s.prods[pid]? = some p → pcOk p ∧ seqsOf pid s.items = List.range (started p)) ∧
  (∀ it ∈ s.items, it.pid < s.prods.length)

theorem setSt_cons_zero (a : Item) (t : List Item) (st : ISt) : setSt (a :: t) 0 st = { a with st := st } :: t := by
  simp [setSt]

theorem setSt_cons_succ (a : Item) (t : List Item) (k : Nat) (st : ISt) : setSt (a :: t) (k + 1) st = a :: setSt t k st := by
  unfold setSt
  simp only [List.getElem?_cons_succ]
  split <;> simp

theorem setSt_filterMap {β : Type} (f : Item → Option β) (hf : ∀ it st, f { it with st := st } = f it)
    (items : List Item) (k : Nat) (st : ISt) : (setSt items k st).filterMap f = items.filterMap f := by
  induction items generalizing k with
  | nil => simp [setSt]
  | cons a t ih =>
    cases k with
    | zero => rw [setSt_cons_zero]; simp only [List.filterMap_cons, hf]
    | succ k => rw [setSt_cons_succ]; simp only [List.filterMap_cons, ih]

theorem seqsOf_setSt (pid : Nat) (items : List Item) (k : Nat) (st : ISt) : seqsOf pid (setSt items k st) = seqsOf pid items :=
  setSt_filterMap _ (fun _ _ => rfl) items k st

theorem setSt_getElem? (items : List Item) (k j : Nat) (st : ISt) :
    (setSt items k st)[j]? = if j = k then (items[k]?).map (fun it => { it with st := st }) else items[j]? := by
  unfold setSt
  split
  · rename_i it h
    obtain ⟨hk, hg⟩ := List.getElem?_eq_some_iff.mp h
    rw [List.getElem?_set]
    by_cases hjk : j = k
    · subst hjk; simp [hk, hg]
    · simp [hjk, Ne.symm hjk]
  · rename_i h
    by_cases hjk : j = k
    · subst hjk; simp [h]
    · simp [hjk]

theorem setSt_mem (items : List Item) (k : Nat) (st : ISt) (x : Item) (h : x ∈ setSt items k st) :
    ∃ y ∈ items, y.pid = x.pid ∧ y.seq = x.seq ∧ y.val = x.val := by
  obtain ⟨j, hj⟩ := List.mem_iff_getElem?.mp h
  rw [setSt_getElem?] at hj
  split at hj
  · cases hk : items[k]? with
    | none => rw [hk] at hj; cases hj
    | some y =>
      rw [hk] at hj; simp only [Option.map_some, Option.some.injEq] at hj
      exact ⟨y, List.mem_of_getElem? hk, by rw [← hj], by rw [← hj], by rw [← hj]⟩
  · exact ⟨x, List.mem_of_getElem? hj, rfl, rfl, rfl⟩


theorem prods_setP_ne (pid q : Nat) (s : QS) (p' : Prod) (h : q ≠ pid) : (setP pid s p').prods[q]? = s.prods[q]? := by
  simp only [setP]; exact List.getElem?_set_ne (Ne.symm h)

theorem prods_setP_self (pid : Nat) (s : QS) (p' : Prod) (h : pid < s.prods.length) : (setP pid s p').prods[pid]? = some p' := by
  simp only [setP]; exact List.getElem?_set_self h

theorem lt_of_getElem?_some {α : Type} {l : List α} {i : Nat} {a : α} (h : l[i]? = some a) : i < l.length :=
  (List.getElem?_eq_some_iff.mp h).1

structure Inv3 (s : QS) : Prop where
  own : OwnInv s
  pend : PendInv s
  order : OrderInv s

/-- what a producer step must provide, in terms of the new items and the new record of `pid` -/
theorem inv3_of (s s' : QS) (pid : Nat) (p p' : Prod) (hp : s.prods[pid]? = some p)
    (hprods : s'.prods = s.prods.set pid p')
    (hown_self : ∀ i : Nat, (p'.pc = .link i ∨ p'.pc = .notify i) → ∃ it : Item, s'.items[p'.cur]? = some it ∧ it.pid = pid ∧ it.seq = i)
    (hown_other : ∀ (q : Nat) (pq : Prod), q ≠ pid → s.prods[q]? = some pq → ∀ it : Item, s.items[pq.cur]? = some it → it.pid = q → s'.items[pq.cur]? = some it)
    (hpend : ∀ (k : Nat) (it : Item), s'.items[k]? = some it → it.st ≠ .notified →
        (it.pid = pid ∧ p'.cur = k ∧ (p'.pc = .link it.seq ∨ p'.pc = .notify it.seq)) ∨
        (it.pid ≠ pid ∧ ∃ it0 : Item, s.items[k]? = some it0 ∧ it0.pid = it.pid ∧ it0.seq = it.seq ∧ it0.st ≠ .notified))
    (hok : pcOk p')
    (hseq_self : seqsOf pid s'.items = List.range (started p'))
    (hseq_other : ∀ q : Nat, q ≠ pid → seqsOf q s'.items = seqsOf q s.items)
    (hmem : ∀ it ∈ s'.items, it.pid < s.prods.length)
    (h : Inv3 s) : Inv3 s' := by
  have hlen : pid < s.prods.length := lt_of_getElem?_some hp
  have hself : s'.prods[pid]? = some p' := by rw [hprods]; exact List.getElem?_set_self hlen
  have hne : ∀ q : Nat, q ≠ pid → s'.prods[q]? = s.prods[q]? := by
    intro q hq; rw [hprods]; exact List.getElem?_set_ne (Ne.symm hq)
  refine ⟨?_, ?_, ?_, ?_⟩
  · intro q pq hq i hpc
    by_cases hqp : q = pid
    · subst hqp; rw [hself] at hq; cases hq; exact hown_self i hpc
    · rw [hne q hqp] at hq
      obtain ⟨it, h1, h2, h3⟩ := h.own q pq hq i hpc
      exact ⟨it, hown_other q pq hqp hq it h1 h2, h2, h3⟩
  · intro k it hk hst
    rcases hpend k it hk hst with ⟨h1, h2, h3⟩ | ⟨h1, it0, h2, h3, h4, h5⟩
    · exact ⟨p', by rw [h1]; exact hself, h2, h3⟩
    · obtain ⟨po, h6, h7, h8⟩ := h.pend k it0 h2 h5
      rw [h3] at h6; rw [h4] at h8
      exact ⟨po, by rw [hne _ h1]; exact h6, h7, h8⟩
  · intro q pq hq
    by_cases hqp : q = pid
    · subst hqp; rw [hself] at hq; cases hq; exact ⟨hok, hseq_self⟩
    · rw [hne q hqp] at hq
      obtain ⟨h1, h2⟩ := h.order.1 q pq hq
      exact ⟨h1, by rw [hseq_other q hqp]; exact h2⟩
  · intro it hit; rw [hprods, List.length_set]; exact hmem it hit


theorem pend_other (s : QS) (h : Inv3 s) (pid : Nat) (p : Prod) (hp : s.prods[pid]? = some p) (k : Nat) (it0 : Item)
    (hk : s.items[k]? = some it0) (hst : it0.st ≠ .notified)
    (hc : ¬ (p.cur = k ∧ (p.pc = .link it0.seq ∨ p.pc = .notify it0.seq))) : it0.pid ≠ pid := by
  intro heq
  obtain ⟨po, h6, h7, h8⟩ := h.pend k it0 hk hst
  rw [heq, hp] at h6; cases h6
  exact hc ⟨h7, h8⟩

theorem seqsOf_append_self (pid : Nat) (items : List Item) (it : Item) (h : it.pid = pid) :
    seqsOf pid (items ++ [it]) = seqsOf pid items ++ [it.seq] := by
  simp [seqsOf, List.filterMap_append, h]

theorem seqsOf_append_other (q : Nat) (items : List Item) (it : Item) (h : it.pid ≠ q) :
    seqsOf q (items ++ [it]) = seqsOf q items := by
  simp [seqsOf, List.filterMap_append, h]

theorem inv3_prod (s : QS) (pid : Nat) (p : Prod) (hp : s.prods[pid]? = some p) (h : Inv3 s) : Inv3 (stepProdAt s pid p) := by
  have hlen : pid < s.prods.length := lt_of_getElem?_some hp
  obtain ⟨hokp, hseqp⟩ := h.order.1 pid p hp
  unfold stepProdAt
  split
  · -- start
    rename_i hpc
    apply inv3_of s _ pid p _ hp rfl _ _ _ _ _ _ _ h
    · intro i hi; simp only at hi; split at hi <;> rcases hi with hi | hi <;> cases hi
    · intro q pq _ _ it hit _; exact hit
    · intro k it hk hst
      right
      have := pend_other s h pid p hp k it hk hst (by rw [hpc]; intro ⟨_, hx⟩; rcases hx with hx | hx <;> cases hx)
      exact ⟨this, it, hk, rfl, rfl, hst⟩
    · by_cases h0 : p.pushes = 0
      · simp [pcOk, h0]
      · simp [pcOk, h0]; omega
    · simp only [setP]; rw [hseqp]
      by_cases h0 : p.pushes = 0 <;> simp [started, hpc, h0]
    · intro q _; rfl
    · exact h.order.2
  · -- xchg i
    rename_i i hpc
    have hi : i < p.pushes := by simpa [pcOk, hpc] using hokp
    apply inv3_of s _ pid p _ hp rfl _ _ _ _ _ _ _ h
    · intro j hj
      simp only [PPc.link.injEq, reduceCtorEq, or_false] at hj
      subst hj
      exact ⟨_, by simp only [setP]; exact List.getElem?_concat_length, rfl, rfl⟩
    · intro q pq _ _ it hit _
      simp only [setP]; rw [List.getElem?_append_left (lt_of_getElem?_some hit)]; exact hit
    · intro k it hk hst
      simp only [setP] at hk
      by_cases hkl : k < s.items.length
      · rw [List.getElem?_append_left hkl] at hk
        right
        have := pend_other s h pid p hp k it hk hst (by rw [hpc]; intro ⟨_, hx⟩; rcases hx with hx | hx <;> cases hx)
        exact ⟨this, it, hk, rfl, rfl, hst⟩
      · have hkeq : k = s.items.length := by
          have := lt_of_getElem?_some hk
          simp only [List.length_append, List.length_cons, List.length_nil] at this; omega
        subst hkeq
        rw [List.getElem?_concat_length] at hk; cases hk
        left; exact ⟨rfl, rfl, Or.inl rfl⟩
    · simp only [pcOk]; exact hi
    · simp only [setP]; rw [seqsOf_append_self pid _ _ rfl, hseqp]; simp only [started, hpc]; exact List.range_succ.symm
    · intro q hq; simp only [setP]; exact seqsOf_append_other q _ _ (Ne.symm hq)
    · intro it hit
      simp only [setP, List.mem_append, List.mem_singleton] at hit
      rcases hit with hit | hit
      · exact h.order.2 it hit
      · subst hit; exact hlen
  · -- link i
    rename_i i hpc
    have hi : i < p.pushes := by simpa [pcOk, hpc] using hokp
    obtain ⟨itc, hc1, hc2, hc3⟩ := h.own pid p hp i (Or.inl hpc)
    apply inv3_of s _ pid p _ hp rfl _ _ _ _ _ _ _ h
    · intro j hj
      simp only [reduceCtorEq, PPc.notify.injEq, false_or] at hj
      subst hj
      refine ⟨{ itc with st := .linked }, ?_, hc2, hc3⟩
      simp only [setP, setSt_getElem?, if_true, hc1, Option.map_some]
    · intro q pq hq hpq it hit hitq
      simp only [setP, setSt_getElem?]
      split
      · rename_i heq; rw [heq, hc1] at hit; cases hit; exact absurd (hc2.symm.trans hitq).symm hq
      · exact hit
    · intro k it hk hst
      simp only [setP, setSt_getElem?] at hk
      split at hk
      · rename_i heq
        rw [hc1] at hk; simp only [Option.map_some, Option.some.injEq] at hk
        left; subst hk; exact ⟨hc2, heq.symm, Or.inr (by simp only [hc3])⟩
      · rename_i hne
        right
        have := pend_other s h pid p hp k it hk hst (by intro ⟨hx, _⟩; exact hne hx.symm)
        exact ⟨this, it, hk, rfl, rfl, hst⟩
    · simp only [pcOk]; exact hi
    · simp only [setP, seqsOf_setSt]; rw [hseqp]; simp only [started, hpc]
    · intro q _; simp only [setP, seqsOf_setSt]
    · intro it hit
      simp only [setP] at hit
      obtain ⟨y, hy, hy2, _⟩ := setSt_mem _ _ _ _ hit
      rw [← hy2]; exact h.order.2 y hy
  · -- notify i
    rename_i i hpc
    have hi : i < p.pushes := by simpa [pcOk, hpc] using hokp
    obtain ⟨itc, hc1, hc2, hc3⟩ := h.own pid p hp i (Or.inr hpc)
    apply inv3_of s _ pid p _ hp rfl _ _ _ _ _ _ _ h
    · intro j hj; simp only at hj; split at hj <;> rcases hj with hj | hj <;> cases hj
    · intro q pq hq hpq it hit hitq
      simp only [setP, setSt_getElem?]
      split
      · rename_i heq; rw [heq, hc1] at hit; cases hit; exact absurd (hc2.symm.trans hitq).symm hq
      · exact hit
    · intro k it hk hst
      simp only [setP, setSt_getElem?] at hk
      split at hk
      · rw [hc1] at hk; simp only [Option.map_some, Option.some.injEq] at hk
        subst hk; exact absurd rfl hst
      · rename_i hne
        right
        have := pend_other s h pid p hp k it hk hst (by intro ⟨hx, _⟩; exact hne hx.symm)
        exact ⟨this, it, hk, rfl, rfl, hst⟩
    · by_cases h1 : i + 1 < p.pushes
      · simp [pcOk, h1]
      · simp [pcOk, h1]
    · simp only [setP, seqsOf_setSt]; rw [hseqp]
      by_cases h1 : i + 1 < p.pushes
      · simp [started, hpc, h1]
      · have : p.pushes = i + 1 := by omega
        simp [started, hpc, this]
    · intro q _; simp only [setP, seqsOf_setSt]
    · intro it hit
      simp only [setP] at hit
      obtain ⟨y, hy, hy2, _⟩ := setSt_mem _ _ _ _ hit
      rw [← hy2]; exact h.order.2 y hy
  · exact h

theorem stepCons_items (s : QS) : (stepCons s).items = s.items ∧ (stepCons s).prods = s.prods := by
  unfold stepCons
  split
  · exact ⟨rfl, rfl⟩
  · split
    · exact ⟨rfl, rfl⟩
    · split <;> exact ⟨rfl, rfl⟩
  · exact ⟨rfl, rfl⟩
  · split
    · split <;> exact ⟨rfl, rfl⟩
    · exact ⟨rfl, rfl⟩
  · exact ⟨rfl, rfl⟩

theorem inv3_congr (s s' : QS) (h1 : s'.items = s.items) (h2 : s'.prods = s.prods) (h : Inv3 s) : Inv3 s' := by
  obtain ⟨a, b, c, d⟩ := h
  refine ⟨?_, ?_, ?_, ?_⟩
  · unfold OwnInv; rw [h1, h2]; exact a
  · unfold PendInv; rw [h1, h2]; exact b
  · rw [h1, h2]; exact c
  · rw [h1, h2]; exact d

theorem inv3_step (s : QS) (tid : Nat) (h : Inv3 s) : Inv3 (stepThread s tid) := by
  unfold stepThread
  split
  · unfold stepProd
    split
    · exact h
    · rename_i p hp; exact inv3_prod s tid p hp h
  · split
    · exact inv3_congr _ _ (stepCons_items s).1 (stepCons_items s).2 h
    · exact h

theorem inv3_init (nprod pushes : Nat) : Inv3 (init nprod pushes) := by
  refine ⟨?_, ?_, ?_, ?_⟩
  · intro pid p hp i hpc
    simp only [init, List.getElem?_replicate] at hp
    split at hp
    · cases hp; rcases hpc with hpc | hpc <;> cases hpc
    · cases hp
  · intro k it hk; simp [init] at hk
  · intro pid p hp
    simp only [init, List.getElem?_replicate] at hp
    split at hp
    · cases hp; exact ⟨by simp [pcOk], by simp [seqsOf, started, init]⟩
    · cases hp
  · intro it hit; simp [init] at hit

end Pistache.Queue
