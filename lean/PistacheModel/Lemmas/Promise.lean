/-
Accounting invariant of the promise machine (Model/Promise.lean): every fulfilment callback that ran is
accounted for by the resolve counter of the request that ran it, every custom rejection handler by a reject
counter, and no counter exceeds one.  Used by Props/C11 for the whole-program "at most once" statement.
-/
import PistacheModel.Model.Promise

namespace Pistache.Promise

/-- Σ over all requests of all cores -/
def tally (f : Req → Nat) (cores : List Core) : Nat := (cores.map fun k => (k.reqs.map f).sum).sum

theorem sum_set (l : List Nat) (i : Nat) (old new : Nat) (h : l[i]? = some old) : (l.set i new).sum + old = l.sum + new := by
  induction l generalizing i with
  | nil => simp at h
  | cons x xs ih =>
    cases i with
    | zero => simp only [List.getElem?_cons_zero, Option.some.injEq] at h; subst h; simp only [List.set_cons_zero, List.sum_cons]; omega
    | succ j =>
      simp only [List.getElem?_cons_succ] at h
      have := ih j h
      simp only [List.set_cons_succ, List.sum_cons]; omega

theorem tally_set (f : Req → Nat) (cores : List Core) (c : Nat) (k k' : Core) (h : cores[c]? = some k) :
    tally f (cores.set c k') + (k.reqs.map f).sum = tally f cores + (k'.reqs.map f).sum := by
  unfold tally
  have := sum_set (cores.map fun k => (k.reqs.map f).sum) c (k.reqs.map f).sum (k'.reqs.map f).sum (by simp [h])
  rw [← List.map_set] at this
  exact this

theorem tally_set_oob (f : Req → Nat) (cores : List Core) (c : Nat) (k' : Core) (h : cores[c]? = none) :
    tally f (cores.set c k') = tally f cores := by
  have : cores.length ≤ c := by simpa using h
  rw [List.set_eq_of_length_le this]

theorem getD_eq (cores : List Core) (c : Nat) : cores[c]? = some (cores.getD c {}) ∨ cores[c]? = none := by
  cases h : cores[c]? with
  | none => exact Or.inr rfl
  | some k => left; simp [List.getD, h]

/-- replacing a core by one with the same requests (a state change) keeps every tally -/
theorem tally_set_same (f : Req → Nat) (cores : List Core) (c : Nat) (k' : Core) (h : k'.reqs = (cores.getD c {}).reqs) :
    tally f (cores.set c k') = tally f cores := by
  rcases getD_eq cores c with hk | hk
  · have := tally_set f cores c _ k' hk
    rw [h] at this; omega
  · exact tally_set_oob f cores c k' hk

/-- appending a request that counts for nothing keeps the tally -/
theorem tally_set_append (f : Req → Nat) (cores : List Core) (c : Nat) (r : Req) (st : St) (hr : f r = 0) :
    tally f (cores.set c { st := st, reqs := (cores.getD c {}).reqs ++ [r] }) = tally f cores := by
  rcases getD_eq cores c with hk | hk
  · have := tally_set f cores c _ { st := st, reqs := (cores.getD c {}).reqs ++ [r] } hk
    simp only [List.map_append, List.map_cons, List.map_nil, List.sum_append, List.sum_cons, List.sum_nil, hr] at this
    omega
  · exact tally_set_oob f cores c _ hk

/-- replacing one request -/
theorem tally_setReq (f : Req → Nat) (cores : List Core) (c i : Nat) (r r' : Req) (h : (cores.getD c {}).reqs[i]? = some r) :
    tally f (cores.set c (setReq (cores.getD c {}) i r')) + f r = tally f cores + f r' := by
  rcases getD_eq cores c with hk | hk
  · have h1 := tally_set f cores c _ (setReq (cores.getD c {}) i r') hk
    have h2 := sum_set ((cores.getD c {}).reqs.map f) i (f r) (f r') (by rw [List.getElem?_map, h]; rfl)
    rw [← List.map_set] at h2
    simp only [setReq] at h1 ⊢
    omega
  · -- out of range: the default core has no requests
    have : cores.getD c {} = {} := by simp [List.getD, hk]
    rw [this] at h; simp at h

/-! ### the invariant -/

def callCount (cb : Nat) (log : List Ev) : Nat := log.countP fun e => match e with | .call c _ => c == cb | _ => false
def rejCount (cb : Nat) (log : List Ev) : Nat := log.countP fun e => match e with | .callRej c _ => c == cb | _ => false

/-- this request's contribution to the calls of fulfilment callback `cb` -/
def rcOf (cb : Nat) (r : Req) : Nat := match r.kind with | .user c _ _ => if c = cb then r.rc else 0 | _ => 0
/-- … to the calls of the custom rejection handler `cb` -/
def jcOf (cb : Nat) (r : Req) : Nat := match r.kind with | .user _ _ (.custom c) => if c = cb then r.jc else 0 | _ => 0

structure Acc (cores : List Core) (log : List Ev) : Prop where
  calls : ∀ cb, callCount cb log = tally (rcOf cb) cores
  rejs : ∀ cb, rejCount cb log = tally (jcOf cb) cores
  bound : ∀ k ∈ cores, ∀ r ∈ k.reqs, r.rc ≤ 1 ∧ r.jc ≤ 1

/-- 1 for a user continuation with fulfilment callback `cb` -/
def userOf (cb : Nat) (r : Req) : Nat := match r.kind with | .user c _ _ => if c = cb then 1 else 0 | _ => 0
/-- 1 for a user continuation with the custom rejection handler `cb` -/
def rejUserOf (cb : Nat) (r : Req) : Nat := match r.kind with | .user _ _ (.custom c) => if c = cb then 1 else 0 | _ => 0

def Internal (r : Req) : Prop := ∀ cb, userOf cb r = 0 ∧ rejUserOf cb r = 0

def FreshAct : Act → Prop
  | .attach _ r => r.rc = 0 ∧ r.jc = 0 ∧ Internal r
  | _ => True

/-- the machine invariant: the accounting holds and every request still to be attached is fresh -/
structure Inv (U J : Nat → Nat) (m : M) : Prop where
  acc : Acc m.cores m.log
  fresh : ∀ a ∈ m.stack, FreshAct a
  /-- how many user continuations carry callback cb / custom handler cb: fixed by the program, not by the cascade -/
  users : ∀ cb, tally (userOf cb) m.cores ≤ U cb
  rejUsers : ∀ cb, tally (rejUserOf cb) m.cores ≤ J cb

theorem callCount_append (cb : Nat) (l : List Ev) (e : Ev) :
    callCount cb (l ++ [e]) = callCount cb l + (match e with | .call c _ => if c = cb then 1 else 0 | _ => 0) := by
  unfold callCount
  rw [List.countP_append]
  cases e <;> simp [List.countP_cons]

theorem rejCount_append (cb : Nat) (l : List Ev) (e : Ev) :
    rejCount cb (l ++ [e]) = rejCount cb l + (match e with | .callRej c _ => if c = cb then 1 else 0 | _ => 0) := by
  unfold rejCount
  rw [List.countP_append]
  cases e <;> simp [List.countP_cons]

theorem mem_set_core (cores : List Core) (c : Nat) (k' k : Core) (h : k ∈ cores.set c k') : k ∈ cores ∨ k = k' := by
  rcases List.mem_or_eq_of_mem_set h with h | h
  · exact Or.inl h
  · exact Or.inr h

theorem getD_mem_reqs (cores : List Core) (c : Nat) (r : Req) (h : r ∈ (cores.getD c {}).reqs) : ∃ k ∈ cores, r ∈ k.reqs := by
  rcases getD_eq cores c with hk | hk
  · exact ⟨_, List.mem_of_getElem? hk, h⟩
  · have : cores.getD c {} = {} := by simp [List.getD, hk]
    rw [this] at h; simp at h

/-- a state change of one core -/
theorem acc_setSt (cores : List Core) (log : List Ev) (c : Nat) (st : St) (h : Acc cores log) :
    Acc (cores.set c { cores.getD c {} with st := st }) log := by
  refine ⟨?_, ?_, ?_⟩
  · intro cb; have := tally_set_same (rcOf cb) cores c { cores.getD c {} with st := st } rfl; rw [this]; exact h.calls cb
  · intro cb; have := tally_set_same (jcOf cb) cores c { cores.getD c {} with st := st } rfl; rw [this]; exact h.rejs cb
  · intro k hk r hr
    rcases mem_set_core _ _ _ _ hk with hk | hk
    · exact h.bound k hk r hr
    · subst hk
      obtain ⟨k0, hk0, hr0⟩ := getD_mem_reqs cores c r hr
      exact h.bound k0 hk0 r hr0

/-- attaching a fresh request (both counters zero) -/
theorem acc_append (cores : List Core) (log : List Ev) (c : Nat) (r : Req) (hrc : r.rc = 0) (hjc : r.jc = 0) (h : Acc cores log) :
    Acc (cores.set c { cores.getD c {} with reqs := (cores.getD c {}).reqs ++ [r] }) log := by
  have hr0 : ∀ cb, rcOf cb r = 0 := by intro cb; unfold rcOf; split <;> simp [hrc]
  have hj0 : ∀ cb, jcOf cb r = 0 := by intro cb; unfold jcOf; split <;> simp [hjc]
  refine ⟨?_, ?_, ?_⟩
  · intro cb; rw [tally_set_append _ _ _ _ _ (hr0 cb)]; exact h.calls cb
  · intro cb; rw [tally_set_append _ _ _ _ _ (hj0 cb)]; exact h.rejs cb
  · intro k hk x hx
    rcases mem_set_core _ _ _ _ hk with hk | hk
    · exact h.bound k hk x hx
    · subst hk
      simp only [List.mem_append, List.mem_singleton] at hx
      rcases hx with hx | hx
      · obtain ⟨k0, hk0, hr0'⟩ := getD_mem_reqs cores c x hx
        exact h.bound k0 hk0 x hr0'
      · subst hx; omega

/-- counting one fulfilment: the request's resolve counter goes from 0 to 1; if it is a user continuation
    its callback is logged -/
theorem acc_bump_rc (cores : List Core) (log : List Ev) (c i : Nat) (r : Req) (arg : Int)
    (h : (cores.getD c {}).reqs[i]? = some r) (hrc : r.rc = 0) (ha : Acc cores log) :
    Acc (cores.set c (setReq (cores.getD c {}) i { r with rc := r.rc + 1 }))
      (match r.kind with | .user cb _ _ => log ++ [.call cb arg] | _ => log) := by
  have hmem : ∃ k ∈ cores, r ∈ k.reqs := getD_mem_reqs cores c r (List.mem_of_getElem? h)
  refine ⟨?_, ?_, ?_⟩
  · intro cb
    have ht := tally_setReq (rcOf cb) cores c i r { r with rc := r.rc + 1 } h
    have hold : rcOf cb r = 0 := by unfold rcOf; split <;> simp [hrc]
    have hnew : rcOf cb { r with rc := r.rc + 1 } = (match r.kind with | .user c' _ _ => if c' = cb then 1 else 0 | _ => 0) := by
      unfold rcOf; simp only [hrc]
    rw [hold, hnew] at ht
    generalize cores.set c (setReq (cores.getD c {}) i { r with rc := r.rc + 1 }) = cs at ht ⊢
    revert ht
    cases r.kind with
    | user c' ret rej => intro ht; simp only at ht ⊢; rw [callCount_append, ha.calls cb]; simp only; omega
    | chainer => intro ht; simp only at ht ⊢; rw [ha.calls cb]; omega
    | allInput d idx => intro ht; simp only at ht ⊢; rw [ha.calls cb]; omega
    | anyInput d => intro ht; simp only at ht ⊢; rw [ha.calls cb]; omega
  · intro cb
    have ht := tally_setReq (jcOf cb) cores c i r { r with rc := r.rc + 1 } h
    have hsame : jcOf cb { r with rc := r.rc + 1 } = jcOf cb r := rfl
    rw [hsame] at ht
    have hlog : rejCount cb (match r.kind with | .user cb' _ _ => log ++ [.call cb' arg] | _ => log) = rejCount cb log := by
      cases r.kind <;> simp [rejCount_append]
    rw [hlog, ha.rejs cb]; omega
  · intro k hk x hx
    rcases mem_set_core _ _ _ _ hk with hk | hk
    · exact ha.bound k hk x hx
    · subst hk
      simp only [setReq] at hx
      rcases List.mem_or_eq_of_mem_set hx with hx | hx
      · obtain ⟨k0, hk0, hr0⟩ := getD_mem_reqs cores c x hx
        exact ha.bound k0 hk0 x hr0
      · subst hx
        obtain ⟨k0, hk0, hr0⟩ := hmem
        have := ha.bound k0 hk0 r hr0
        simp only; omega

/-- counting one rejection: the reject counter goes from 0 to 1; a custom handler is logged -/
theorem acc_bump_jc (cores : List Core) (log : List Ev) (c i : Nat) (r : Req) (e : Nat)
    (h : (cores.getD c {}).reqs[i]? = some r) (hjc : r.jc = 0) (ha : Acc cores log) :
    Acc (cores.set c (setReq (cores.getD c {}) i { r with jc := r.jc + 1 }))
      (match r.kind with | .user _ _ (.custom cb) => log ++ [.callRej cb e] | _ => log) := by
  have hmem : ∃ k ∈ cores, r ∈ k.reqs := getD_mem_reqs cores c r (List.mem_of_getElem? h)
  refine ⟨?_, ?_, ?_⟩
  · intro cb
    have ht := tally_setReq (rcOf cb) cores c i r { r with jc := r.jc + 1 } h
    have hsame : rcOf cb { r with jc := r.jc + 1 } = rcOf cb r := rfl
    rw [hsame] at ht
    have hlog : callCount cb (match r.kind with | .user _ _ (.custom cb') => log ++ [.callRej cb' e] | _ => log) = callCount cb log := by
      split <;> simp [callCount_append]
    rw [hlog, ha.calls cb]; omega
  · intro cb
    have ht := tally_setReq (jcOf cb) cores c i r { r with jc := r.jc + 1 } h
    have hold : jcOf cb r = 0 := by unfold jcOf; split <;> simp [hjc]
    have hnew : jcOf cb { r with jc := r.jc + 1 } = (match r.kind with | .user _ _ (.custom c') => if c' = cb then 1 else 0 | _ => 0) := by
      unfold jcOf; simp only [hjc]
    rw [hold, hnew] at ht
    generalize cores.set c (setReq (cores.getD c {}) i { r with jc := r.jc + 1 }) = cs at ht ⊢
    split
    · rename_i c0 r0 c' hk
      simp only [hk] at ht
      rw [rejCount_append, ha.rejs cb]; simp only; omega
    · rename_i hk
      have : (match r.kind with | .user _ _ (.custom c') => if c' = cb then 1 else 0 | _ => 0) = 0 := by
        split
        · rename_i c0 r0 c' hk'
          exact absurd hk' (hk c0 r0 c')
        · rfl
      rw [this] at ht; rw [ha.rejs cb]; omega
  · intro k hk x hx
    rcases mem_set_core _ _ _ _ hk with hk | hk
    · exact ha.bound k hk x hx
    · subst hk
      simp only [setReq] at hx
      rcases List.mem_or_eq_of_mem_set hx with hx | hx
      · obtain ⟨k0, hk0, hr0⟩ := getD_mem_reqs cores c x hx
        exact ha.bound k0 hk0 x hr0
      · subst hx
        obtain ⟨k0, hk0, hr0⟩ := hmem
        have := ha.bound k0 hk0 r hr0
        simp only; omega

/-! ### the machine operations keep the invariant -/

theorem fresh_walk (mk : Nat → Nat → Act) (hmk : ∀ c i, FreshAct (mk c i)) (c n : Nat) : ∀ a ∈ walk mk c n, FreshAct a := by
  intro a ha
  simp only [walk, List.mem_map] at ha
  obtain ⟨i, _, rfl⟩ := ha
  exact hmk c i

theorem fresh_append (a b : List Act) (ha : ∀ x ∈ a, FreshAct x) (hb : ∀ x ∈ b, FreshAct x) : ∀ x ∈ a ++ b, FreshAct x := by
  intro x hx
  simp only [List.mem_append] at hx
  rcases hx with hx | hx
  · exact ha x hx
  · exact hb x hx

variable {U J : Nat → Nat}

theorem inv_stack (m : M) (s : List Act) (h : Inv U J m) (hs : ∀ a ∈ s, FreshAct a) : Inv U J { m with stack := s } := ⟨h.acc, hs, h.users, h.rejUsers⟩

theorem inv_fulfilAndWalk (m : M) (c : Nat) (v : Int) (h : Inv U J m) : Inv U J (fulfilAndWalk m c v) := by
  unfold fulfilAndWalk
  refine ⟨?_, ?_, ?_, ?_⟩
  · exact acc_setSt m.cores m.log c (.fulfilled v) h.acc
  · exact fresh_append _ _ (fresh_walk Act.resolveReq (fun _ _ => trivial) _ _) h.fresh
  · intro cb; have := tally_set_same (userOf cb) m.cores c { m.cores.getD c {} with st := .fulfilled v } rfl
    simp only [M.setCore, M.core]; rw [this]; exact h.users cb
  · intro cb; have := tally_set_same (rejUserOf cb) m.cores c { m.cores.getD c {} with st := .fulfilled v } rfl
    simp only [M.setCore, M.core]; rw [this]; exact h.rejUsers cb

theorem inv_rejectAndWalk (m : M) (c : Nat) (e : Nat) (h : Inv U J m) : Inv U J (rejectAndWalk m c e) := by
  unfold rejectAndWalk
  refine ⟨?_, ?_, ?_, ?_⟩
  · exact acc_setSt m.cores m.log c (.rejected e) h.acc
  · exact fresh_append _ _ (fresh_walk Act.rejectReq (fun _ _ => trivial) _ _) h.fresh
  · intro cb; have := tally_set_same (userOf cb) m.cores c { m.cores.getD c {} with st := .rejected e } rfl
    simp only [M.setCore, M.core]; rw [this]; exact h.users cb
  · intro cb; have := tally_set_same (rejUserOf cb) m.cores c { m.cores.getD c {} with st := .rejected e } rfl
    simp only [M.setCore, M.core]; rw [this]; exact h.rejUsers cb

theorem inv_thenOn (m : M) (p : Nat) (r : Req) (hr : r.rc = 0 ∧ r.jc = 0 ∧ Internal r) (h : Inv U J m) : Inv U J (thenOn m p r) := by
  unfold thenOn
  have hacc : Acc (m.cores.set p { m.cores.getD p {} with reqs := (m.cores.getD p {}).reqs ++ [r] }) m.log :=
    acc_append m.cores m.log p r hr.1 hr.2.1 h.acc
  have hu : ∀ cb, tally (userOf cb) (m.cores.set p { m.cores.getD p {} with reqs := (m.cores.getD p {}).reqs ++ [r] }) ≤ U cb := by
    intro cb; rw [tally_set_append _ _ _ _ _ (hr.2.2 cb).1]; exact h.users cb
  have hj : ∀ cb, tally (rejUserOf cb) (m.cores.set p { m.cores.getD p {} with reqs := (m.cores.getD p {}).reqs ++ [r] }) ≤ J cb := by
    intro cb; rw [tally_set_append _ _ _ _ _ (hr.2.2 cb).2]; exact h.rejUsers cb
  simp only [M.core, M.setCore]
  split
  · exact ⟨hacc, h.fresh, hu, hj⟩
  · refine ⟨hacc, ?_, hu, hj⟩
    intro a ha; simp only [List.mem_cons] at ha
    rcases ha with rfl | ha
    · trivial
    · exact h.fresh a ha
  · refine ⟨hacc, ?_, hu, hj⟩
    intro a ha; simp only [List.mem_cons] at ha
    rcases ha with rfl | ha
    · trivial
    · exact h.fresh a ha

theorem acc_log_internal (cores : List Core) (log : List Ev) (c : Nat) (h : Acc cores log) : Acc cores (log ++ [.internalThrow c]) :=
  ⟨by intro cb; rw [callCount_append]; simpa using h.calls cb, by intro cb; rw [rejCount_append]; simpa using h.rejs cb, h.bound⟩

theorem inv_resolverOn (m : M) (c : Nat) (v : Int) (h : Inv U J m) : Inv U J (resolverOn m c v) := by
  unfold resolverOn
  split
  · exact inv_fulfilAndWalk m c v h
  · exact ⟨acc_log_internal _ _ c h.acc, by intro a ha; simp at ha, h.users, h.rejUsers⟩

theorem inv_rejectionOn (m : M) (c : Nat) (e : Nat) (h : Inv U J m) : Inv U J (rejectionOn m c e) := by
  unfold rejectionOn
  split
  · exact inv_rejectAndWalk m c e h
  · exact ⟨acc_log_internal _ _ c h.acc, by intro a ha; simp at ha, h.users, h.rejUsers⟩

theorem inv_setData (m : M) (d : Nat) (x : Data) (h : Inv U J m) : Inv U J (m.setData d x) := ⟨h.acc, h.fresh, h.users, h.rejUsers⟩

theorem inv_pushWalk (m : M) (mk : Nat → Nat → Act) (hmk : ∀ c i, FreshAct (mk c i)) (c n : Nat) (h : Inv U J m) :
    Inv U J { m with stack := walk mk c n ++ m.stack } := ⟨h.acc, fresh_append _ _ (fresh_walk mk hmk c n) h.fresh, h.users, h.rejUsers⟩

/-- after the counters of request (c,i) were bumped and (for a user continuation) its callback logged -/
theorem tally_setReq_same (f : Req → Nat) (cores : List Core) (c i : Nat) (r r' : Req) (h : (cores.getD c {}).reqs[i]? = some r)
    (hf : f r' = f r) : tally f (cores.set c (setReq (cores.getD c {}) i r')) = tally f cores := by
  have := tally_setReq f cores c i r r' h; omega

theorem inv_bump_rc (m : M) (c i : Nat) (r : Req) (arg : Int) (hget : (m.core c).reqs[i]? = some r) (hrc : r.rc = 0) (h : Inv U J m) :
    Inv U J { (m.setCore c (setReq (m.core c) i { r with rc := r.rc + 1 })) with
      log := (match r.kind with | .user cb _ _ => m.log ++ [.call cb arg] | _ => m.log) } :=
  ⟨acc_bump_rc m.cores m.log c i r arg hget hrc h.acc, h.fresh,
   by intro cb; simp only [M.setCore, M.core]; rw [tally_setReq_same (userOf cb) m.cores c i r { r with rc := r.rc + 1 } hget rfl]; exact h.users cb,
   by intro cb; simp only [M.setCore, M.core]; rw [tally_setReq_same (rejUserOf cb) m.cores c i r { r with rc := r.rc + 1 } hget rfl]; exact h.rejUsers cb⟩

theorem inv_bump_jc (m : M) (c i : Nat) (r : Req) (e : Nat) (hget : (m.core c).reqs[i]? = some r) (hjc : r.jc = 0) (h : Inv U J m) :
    Inv U J { (m.setCore c (setReq (m.core c) i { r with jc := r.jc + 1 })) with
      log := (match r.kind with | .user _ _ (.custom cb) => m.log ++ [.callRej cb e] | _ => m.log) } :=
  ⟨acc_bump_jc m.cores m.log c i r e hget hjc h.acc, h.fresh,
   by intro cb; simp only [M.setCore, M.core]; rw [tally_setReq_same (userOf cb) m.cores c i r { r with jc := r.jc + 1 } hget rfl]; exact h.users cb,
   by intro cb; simp only [M.setCore, M.core]; rw [tally_setReq_same (rejUserOf cb) m.cores c i r { r with jc := r.jc + 1 } hget rfl]; exact h.rejUsers cb⟩

/-- the part of `step` that handles `reqs[i]->resolve(core)` on a machine whose action was already popped -/
def stepResolve (m : M) (c i : Nat) : M :=
  let k := m.core c
  match k.reqs[i]? with
  | none => m
  | some r =>
    if r.rc ≥ 1 then m
    else
      let m := m.setCore c (setReq k i { r with rc := r.rc + 1 })
      let arg : Int := k.st.val
      match r.kind with
      | .user cb ret _ =>
        let m := { m with log := m.log ++ [.call cb arg] }
        match ret with
        | .value d => fulfilAndWalk m r.chain (arg + d)
        | .void => m
        | .promise q => thenOn m q { kind := .chainer, chain := r.chain }
      | .chainer => fulfilAndWalk m r.chain arg
      | .allInput d idx =>
        let dd := m.data d
        if dd.rejected then m
        else
          let dd' := { dd with results := dd.results ++ [(idx, arg)], resolved := dd.resolved + 1 }
          let m := m.setData d dd'
          if dd'.resolved = dd'.total then resolverOn m dd'.target (dd'.results.foldl (fun s p => s + p.2 * (100 : Int) ^ p.1) 0) else m
      | .anyInput d =>
        let dd := m.data d
        if dd.rejected then m
        else resolverOn (m.setData d { dd with rejected := true }) dd.target arg

def stepReject (m : M) (c i : Nat) : M :=
  let k := m.core c
  match k.reqs[i]? with
  | none => m
  | some r =>
    if r.jc ≥ 1 then m
    else
      let m := m.setCore c (setReq k i { r with jc := r.jc + 1 })
      let e : Nat := k.st.exc
      match r.kind with
      | .user _ ret rej =>
        match rej with
        | .rethrow => rejectAndWalk m r.chain e
        | .ignore =>
          match ret with
          | .value _ => { m with stack := walk Act.rejectReq r.chain (m.core r.chain).reqs.length ++ m.stack }
          | .void => m
          | .promise _ => { m with stack := walk Act.rejectReq c k.reqs.length ++ m.stack }
        | .custom cb =>
          let m := { m with log := m.log ++ [.callRej cb e] }
          match ret with
          | .value _ => { m with stack := walk Act.rejectReq r.chain (m.core r.chain).reqs.length ++ m.stack }
          | .void => m
          | .promise _ => { m with stack := walk Act.rejectReq c k.reqs.length ++ m.stack }
      | .chainer => rejectAndWalk m r.chain e
      | .allInput d _ =>
        let dd := m.data d
        if dd.rejected then m
        else rejectionOn (m.setData d { dd with rejected := true }) dd.target e
      | .anyInput d =>
        let dd := m.data d
        if dd.rejected then m
        else rejectionOn (m.setData d { dd with rejected := true }) dd.target e

theorem step_eq (m : M) : step m = match m.stack with
    | [] => m
    | .attach p r :: rest => thenOn { m with stack := rest } p r
    | .resolveReq c i :: rest => stepResolve { m with stack := rest } c i
    | .rejectReq c i :: rest => stepReject { m with stack := rest } c i := by
  unfold step
  cases hs : m.stack with
  | nil => rfl
  | cons a rest => cases a <;> rfl

theorem inv_stepResolve (m : M) (c i : Nat) (h : Inv U J m) : Inv U J (stepResolve m c i) := by
  unfold stepResolve
  simp only
  split
  · exact h
  · rename_i r hget
    split
    · exact h
    · rename_i hrc'
      have hrc : r.rc = 0 := by omega
      generalize harg : (m.core c).st.val = arg
      have hb := inv_bump_rc m c i r arg hget hrc h
      cases hk : r.kind with
      | user cb ret rej =>
        simp only [hk] at hb
        cases ret with
        | value d => exact inv_fulfilAndWalk _ _ _ hb
        | void => exact hb
        | promise q => exact inv_thenOn _ q _ ⟨rfl, rfl, fun _ => ⟨rfl, rfl⟩⟩ hb
      | chainer =>
        simp only [hk] at hb
        exact inv_fulfilAndWalk _ _ _ hb
      | allInput d idx =>
        simp only [hk] at hb
        simp only
        split
        · exact hb
        · split
          · exact inv_resolverOn _ _ _ (inv_setData _ _ _ hb)
          · exact inv_setData _ _ _ hb
      | anyInput d =>
        simp only [hk] at hb
        simp only
        split
        · exact hb
        · exact inv_resolverOn _ _ _ (inv_setData _ _ _ hb)

theorem inv_stepReject (m : M) (c i : Nat) (h : Inv U J m) : Inv U J (stepReject m c i) := by
  unfold stepReject
  simp only
  split
  · exact h
  · rename_i r hget
    split
    · exact h
    · rename_i hjc'
      have hjc : r.jc = 0 := by omega
      generalize he : (m.core c).st.exc = e
      have hb := inv_bump_jc m c i r e hget hjc h
      cases hk : r.kind with
      | user cb ret rej =>
        cases rej with
        | rethrow => simp only [hk] at hb; exact inv_rejectAndWalk _ _ _ hb
        | ignore =>
          simp only [hk] at hb
          cases ret with
          | value d => exact inv_pushWalk _ Act.rejectReq (fun _ _ => trivial) _ _ hb
          | void => exact hb
          | promise q => exact inv_pushWalk _ Act.rejectReq (fun _ _ => trivial) _ _ hb
        | custom cb' =>
          simp only [hk] at hb
          cases ret with
          | value d => exact inv_pushWalk _ Act.rejectReq (fun _ _ => trivial) _ _ hb
          | void => exact hb
          | promise q => exact inv_pushWalk _ Act.rejectReq (fun _ _ => trivial) _ _ hb
      | chainer => simp only [hk] at hb; exact inv_rejectAndWalk _ _ _ hb
      | allInput d idx =>
        simp only [hk] at hb
        simp only
        split
        · exact hb
        · exact inv_rejectionOn _ _ _ (inv_setData _ _ _ hb)
      | anyInput d =>
        simp only [hk] at hb
        simp only
        split
        · exact hb
        · exact inv_rejectionOn _ _ _ (inv_setData _ _ _ hb)

theorem inv_step (m : M) (h : Inv U J m) : Inv U J (step m) := by
  rw [step_eq]
  split
  · exact h
  · rename_i p r rest hst
    have hf : FreshAct (.attach p r) := h.fresh _ (by rw [hst]; simp)
    exact inv_thenOn _ p r hf ⟨h.acc, fun x hx => h.fresh x (by rw [hst]; exact List.mem_cons_of_mem _ hx), h.users, h.rejUsers⟩
  · rename_i c i rest hst
    exact inv_stepResolve _ c i ⟨h.acc, fun x hx => h.fresh x (by rw [hst]; exact List.mem_cons_of_mem _ hx), h.users, h.rejUsers⟩
  · rename_i c i rest hst
    exact inv_stepReject _ c i ⟨h.acc, fun x hx => h.fresh x (by rw [hst]; exact List.mem_cons_of_mem _ hx), h.users, h.rejUsers⟩

theorem inv_run (fuel : Nat) (m : M) (h : Inv U J m) : Inv U J (run fuel m) := by
  induction fuel generalizing m with
  | zero => exact h
  | succ f ih =>
    unfold run
    split
    · exact h
    · exact ih _ (inv_step m h)

/-! ### the program level -/

theorem tally_le (f g : Req → Nat) (cores : List Core) (h : ∀ k ∈ cores, ∀ r ∈ k.reqs, f r ≤ g r) : tally f cores ≤ tally g cores := by
  unfold tally
  induction cores with
  | nil => simp
  | cons k ks ih =>
    simp only [List.map_cons, List.sum_cons]
    have h1 : (k.reqs.map f).sum ≤ (k.reqs.map g).sum := by
      have hk := h k (by simp)
      generalize k.reqs = rs at hk
      induction rs with
      | nil => simp
      | cons r rs ih2 =>
        simp only [List.map_cons, List.sum_cons]
        have := hk r (by simp)
        have := ih2 (fun x hx => hk x (List.mem_cons_of_mem _ hx))
        omega
    have := ih (fun k' hk' => h k' (List.mem_cons_of_mem _ hk'))
    omega

theorem tally_append_core (f : Req → Nat) (cores : List Core) (x : Core) : tally f (cores ++ [x]) = tally f cores + (x.reqs.map f).sum := by
  simp [tally]

theorem inv_newCore (m : M) (x : Core) (hx : x.reqs = []) (h : Inv U J m) : Inv U J (m.newCore x).1 := by
  simp only [M.newCore]
  refine ⟨⟨?_, ?_, ?_⟩, h.fresh, ?_, ?_⟩
  · intro cb; rw [tally_append_core, hx]; simpa using h.acc.calls cb
  · intro cb; rw [tally_append_core, hx]; simpa using h.acc.rejs cb
  · intro k hk r hr
    simp only [List.mem_append, List.mem_singleton] at hk
    rcases hk with hk | hk
    · exact h.acc.bound k hk r hr
    · subst hk; rw [hx] at hr; simp at hr
  · intro cb; rw [tally_append_core, hx]; simpa using h.users cb
  · intro cb; rw [tally_append_core, hx]; simpa using h.rejUsers cb

theorem inv_settleDown (m : M) (h : Inv U J m) : Inv U J (settleDown m).1 := by
  have := inv_run (fuelFor m) m h
  exact ⟨this.acc, by intro a ha; simp [settleDown] at ha, this.users, this.rejUsers⟩

theorem inv_mono {U' J' : Nat → Nat} (m : M) (h : Inv U J m) (hU : ∀ cb, U cb ≤ U' cb) (hJ : ∀ cb, J cb ≤ J' cb) : Inv U' J' m :=
  ⟨h.acc, h.fresh, fun cb => Nat.le_trans (h.users cb) (hU cb), fun cb => Nat.le_trans (h.rejUsers cb) (hJ cb)⟩

/-- attaching a user continuation: one more continuation carries its callback (and its custom handler) -/
theorem tally_set_append_le (f : Req → Nat) (cores : List Core) (c : Nat) (r : Req) (st : St) :
    tally f (cores.set c { st := st, reqs := (cores.getD c {}).reqs ++ [r] }) ≤ tally f cores + f r := by
  rcases getD_eq cores c with hk | hk
  · have := tally_set f cores c _ { st := st, reqs := (cores.getD c {}).reqs ++ [r] } hk
    simp only [List.map_append, List.map_cons, List.map_nil, List.sum_append, List.sum_cons, List.sum_nil] at this
    omega
  · rw [tally_set_oob f cores c _ hk]; omega

theorem thenOn_cores' (m : M) (p : Nat) (r : Req) :
    (thenOn m p r).cores = m.cores.set p { m.cores.getD p {} with reqs := (m.cores.getD p {}).reqs ++ [r] } := by
  unfold thenOn; simp only [M.core, M.setCore]; split <;> rfl
theorem thenOn_log' (m : M) (p : Nat) (r : Req) : (thenOn m p r).log = m.log := by
  unfold thenOn; simp only [M.core, M.setCore]; split <;> rfl
theorem thenOn_stack' (m : M) (p : Nat) (r : Req) : ∀ a ∈ (thenOn m p r).stack, a ∈ m.stack ∨ FreshAct a := by
  intro a ha
  unfold thenOn at ha; simp only [M.core, M.setCore] at ha
  split at ha
  · exact Or.inl ha
  · simp only [List.mem_cons] at ha; rcases ha with rfl | ha
    · exact Or.inr trivial
    · exact Or.inl ha
  · simp only [List.mem_cons] at ha; rcases ha with rfl | ha
    · exact Or.inr trivial
    · exact Or.inl ha

def rejBump (rej : Rej) (c : Nat) : Nat := match rej with | .custom x => if c = x then 1 else 0 | _ => 0

theorem inv_thenOn_user (m : M) (p cb : Nat) (ret : Ret) (rej : Rej) (d : Nat) (h : Inv U J m) :
    Inv (fun c => U c + (if c = cb then 1 else 0)) (fun c => J c + rejBump rej c)
      (thenOn m p { kind := .user cb ret rej, chain := d }) := by
  have hacc : Acc (m.cores.set p { m.cores.getD p {} with reqs := (m.cores.getD p {}).reqs ++ [{ kind := .user cb ret rej, chain := d }] }) m.log :=
    acc_append m.cores m.log p _ rfl rfl h.acc
  have hu : ∀ c, tally (userOf c) (m.cores.set p { m.cores.getD p {} with reqs := (m.cores.getD p {}).reqs ++ [{ kind := .user cb ret rej, chain := d }] })
      ≤ U c + (if c = cb then 1 else 0) := by
    intro c
    have this : tally (userOf c) (m.cores.set p { m.cores.getD p {} with reqs := (m.cores.getD p {}).reqs ++ [{ kind := .user cb ret rej, chain := d }] })
        ≤ tally (userOf c) m.cores + userOf c ({ kind := .user cb ret rej, chain := d } : Req) :=
      tally_set_append_le (userOf c) m.cores p { kind := .user cb ret rej, chain := d } (m.cores.getD p {}).st
    have h0 := h.users c
    have hval : userOf c ({ kind := .user cb ret rej, chain := d } : Req) = if c = cb then 1 else 0 := by
      simp only [userOf]; by_cases hc : cb = c
      · subst hc; simp
      · have : ¬ c = cb := fun e => hc e.symm
        simp [hc, this]
    rw [hval] at this
    exact Nat.le_trans this (Nat.add_le_add_right h0 _)
  have hj : ∀ c, tally (rejUserOf c) (m.cores.set p { m.cores.getD p {} with reqs := (m.cores.getD p {}).reqs ++ [{ kind := .user cb ret rej, chain := d }] })
      ≤ J c + rejBump rej c := by
    intro c
    have this : tally (rejUserOf c) (m.cores.set p { m.cores.getD p {} with reqs := (m.cores.getD p {}).reqs ++ [{ kind := .user cb ret rej, chain := d }] })
        ≤ tally (rejUserOf c) m.cores + rejUserOf c ({ kind := .user cb ret rej, chain := d } : Req) :=
      tally_set_append_le (rejUserOf c) m.cores p { kind := .user cb ret rej, chain := d } (m.cores.getD p {}).st
    have h0 := h.rejUsers c
    have hval : rejUserOf c ({ kind := .user cb ret rej, chain := d } : Req) = rejBump rej c := by
      cases rej with
      | custom x =>
        simp only [rejUserOf, rejBump]; by_cases hc : x = c
        · subst hc; simp
        · have : ¬ c = x := fun e => hc e.symm
          simp [hc, this]
      | ignore => rfl
      | rethrow => rfl
    rw [hval] at this
    exact Nat.le_trans this (Nat.add_le_add_right h0 _)
  refine ⟨?_, ?_, ?_, ?_⟩
  · rw [thenOn_cores', thenOn_log']; exact hacc
  · intro a ha
    rcases thenOn_stack' m p _ a ha with h1 | h1
    · exact h.fresh a h1
    · exact h1
  · intro c; rw [thenOn_cores']; exact hu c
  · intro c; rw [thenOn_cores']; exact hj c

end Pistache.Promise
