/-
Helper lemmas for Props/C09Shutdown.lean: the invariant of the shutdown protocol (a flag is stored before its eventfd is
written; a written eventfd stays visible until its thread has seen it) and the ranking functions that bound the number of
own steps every thread needs to end once shutdown() has returned.
-/
import PistacheModel.Model.Shutdown

namespace Pistache.Shutdown

def cfg0 : Cfg := {}

/-! ### frame lemmas -/

@[simp] theorem setW_same (s : St) (j : Nat) (w : Worker) : (s.setW j w).ws j = w := by simp [St.setW]
@[simp] theorem setW_other (s : St) (j k : Nat) (w : Worker) (h : k ≠ j) : (s.setW j w).ws k = s.ws k := by simp [St.setW, h]
@[simp] theorem setW_n (s : St) (j : Nat) (w : Worker) : (s.setW j w).n = s.n := rfl
@[simp] theorem setW_acc (s : St) (j : Nat) (w : Worker) : (s.setW j w).acc = s.acc := rfl
@[simp] theorem setW_caller (s : St) (j : Nat) (w : Worker) : (s.setW j w).caller = s.caller := rfl

/-- what a step may do to a worker it does not belong to: at most make another source ready -/
def SameCore (a b : Worker) : Prop := a.pc = b.pc ∧ a.flag = b.flag ∧ a.edge = b.edge

theorem SameCore.refl (a : Worker) : SameCore a a := ⟨rfl, rfl, rfl⟩
theorem SameCore.trans {a b c : Worker} (h1 : SameCore a b) (h2 : SameCore b c) : SameCore a c :=
  ⟨h1.1.trans h2.1, h1.2.1.trans h2.2.1, h1.2.2.trans h2.2.2⟩

theorem accept_frame (s : St) :
    (accept s).n = s.n ∧ (accept s).caller = s.caller ∧ (accept s).acc.ready = s.acc.ready ∧ (accept s).acc.pc = s.acc.pc ∧
    (accept s).acc.batch = s.acc.batch ∧ ∀ k, SameCore ((accept s).ws k) (s.ws k) := by
  unfold accept
  split
  · exact ⟨rfl, rfl, rfl, rfl, rfl, fun k => SameCore.refl _⟩
  · rename_i j rest _
    refine ⟨rfl, rfl, rfl, rfl, rfl, fun k => ?_⟩
    by_cases h : k = j
    · subst h; simp [SameCore]
    · simp [h, SameCore]

theorem handleBatch_frame (fail : Bool) (b : List Src) (s : St) :
    (handleBatch fail s b).1.n = s.n ∧ (handleBatch fail s b).1.caller = s.caller ∧ (handleBatch fail s b).1.acc.ready = s.acc.ready ∧
    (handleBatch fail s b).1.acc.pc = s.acc.pc ∧ (∀ k, SameCore ((handleBatch fail s b).1.ws k) (s.ws k)) ∧
    (Src.shut ∈ b → (handleBatch fail s b).2 = true) := by
  induction b generalizing s with
  | nil => exact ⟨rfl, rfl, rfl, rfl, fun k => SameCore.refl _, by simp⟩
  | cons e rest ih =>
    cases e with
    | shut => exact ⟨rfl, rfl, rfl, rfl, fun k => SameCore.refl _, fun _ => rfl⟩
    | listen =>
      simp only [handleBatch]
      cases fail with
      | true =>
        obtain ⟨h1, h2, h3, h4, h5, h6⟩ := ih s
        exact ⟨h1, h2, h3, h4, h5, fun hm => h6 (by simpa using hm)⟩
      | false =>
        obtain ⟨h1, h2, h3, h4, h5, h6⟩ := ih (accept s)
        obtain ⟨a1, a2, a3, a4, _, a6⟩ := accept_frame s
        refine ⟨h1.trans a1, h2.trans a2, h3.trans a3, h4.trans a4, fun k => (h5 k).trans (a6 k), ?_⟩
        intro hm
        apply h6
        simpa using hm

/-! ### the invariant -/

/-- the caller of shutdown() has stored worker `j`'s flag -/
def flagged (c : CPc) (j : Nat) : Prop :=
  match c with
  | .wPre k => j ≤ k | .wPost k => j ≤ k | .done => True | _ => False

/-- the caller of shutdown() has written worker `j`'s eventfd -/
def notified (c : CPc) (j : Nat) : Prop :=
  match c with
  | .wPre k => j < k | .wPost k => j ≤ k | .done => True | _ => False

/-- the caller of shutdown() has written the acceptor's eventfd -/
def accNotified (c : CPc) : Prop :=
  match c with
  | .start | .accPre => False | _ => True

theorem notified_flagged {c : CPc} {j : Nat} (h : notified c j) : flagged c j := by
  cases c <;> simp [notified, flagged] at * <;> omega

structure Inv (s : St) : Prop where
  pos : 0 < s.n
  idx : match s.caller with | .wPre k => k < s.n | .wPost k => k < s.n | _ => True
  flag : ∀ j, j < s.n → flagged s.caller j → (s.ws j).flag = true
  live : ∀ j, j < s.n → notified s.caller j → (s.ws j).pc = .exited ∨ (s.ws j).pc = .woke ∨ (s.ws j).edge = true
  accLive : accNotified s.caller → s.acc.pc = .exited ∨ Src.shut ∈ s.acc.ready ∨ (s.acc.pc = .woke ∧ Src.shut ∈ s.acc.batch)

theorem inv_init (n : Nat) (hn : 0 < n) : Inv (init n) :=
  ⟨hn, trivial, fun _ _ h => by simp [init, flagged] at h, fun _ _ h => by simp [init, notified] at h,
   fun h => by simp [init, accNotified] at h⟩

theorem shut_mem_report (a : Acceptor) (h : Src.shut ∈ a.ready) : Src.shut ∈ report a := by
  unfold report
  exact List.mem_filter.mpr ⟨h, by simp⟩

theorem inv_stepW (s : St) (j : Nat) (h : Inv s) : Inv (stepW s j).1 := by
  unfold stepW
  split
  · -- poll
    rename_i hpc
    split
    · refine ⟨h.pos, h.idx, fun k hk hf => ?_, fun k hk hn => ?_, h.accLive⟩
      · by_cases e : k = j
        · subst e; simpa using h.flag k hk hf
        · simpa [e] using h.flag k hk hf
      · by_cases e : k = j
        · subst e; simp
        · simpa [e] using h.live k hk hn
    · exact h
  · -- woke
    rename_i hpc
    split
    · refine ⟨h.pos, h.idx, fun k hk hf => ?_, fun k hk hn => ?_, h.accLive⟩
      · by_cases e : k = j
        · subst e; simpa using h.flag k hk hf
        · simpa [e] using h.flag k hk hf
      · by_cases e : k = j
        · subst e; simp
        · simpa [e] using h.live k hk hn
    · rename_i hfl
      refine ⟨h.pos, h.idx, fun k hk hf => ?_, fun k hk hn => ?_, h.accLive⟩
      · by_cases e : k = j
        · subst e; simpa using h.flag k hk hf
        · simpa [e] using h.flag k hk hf
      · by_cases e : k = j
        · subst e
          exact absurd (h.flag k hk (notified_flagged hn)) hfl
        · simpa [e] using h.live k hk hn
  · exact h

theorem inv_stepA (fail : Bool) (s : St) (h : Inv s) : Inv (stepA fail s).1 := by
  unfold stepA
  split
  · -- poll
    rename_i hpc
    split
    · rename_i hempty
      refine ⟨h.pos, h.idx, h.flag, h.live, fun hn => ?_⟩
      rcases h.accLive hn with h1 | h1 | h1
      · rw [hpc] at h1; cases h1
      · have := shut_mem_report s.acc h1
        simp only [List.isEmpty_iff] at hempty
        rw [hempty] at this; cases this
      · rw [hpc] at h1; cases h1.1
    · refine ⟨h.pos, h.idx, h.flag, h.live, fun hn => ?_⟩
      rcases h.accLive hn with h1 | h1 | h1
      · rw [hpc] at h1; cases h1
      · exact Or.inr (Or.inr ⟨rfl, shut_mem_report s.acc h1⟩)
      · rw [hpc] at h1; cases h1.1
  · -- woke
    rename_i hpc
    obtain ⟨f1, f2, f3, _, f5, f6⟩ := handleBatch_frame fail s.acc.batch s
    split
    · refine ⟨by simpa [f1] using h.pos, ?_, fun k hk hf => ?_, fun k hk hn => ?_, fun _ => Or.inl rfl⟩
      · simpa [f1, f2] using h.idx
      · have := h.flag k (by simpa [f1] using hk) (by simpa [f2] using hf)
        simpa [(f5 k).2.1] using this
      · have := h.live k (by simpa [f1] using hk) (by simpa [f2] using hn)
        simpa [(f5 k).1, (f5 k).2.2] using this
    · rename_i hr
      refine ⟨by simpa [f1] using h.pos, ?_, fun k hk hf => ?_, fun k hk hn => ?_, fun hn => ?_⟩
      · simpa [f1, f2] using h.idx
      · have := h.flag k (by simpa [f1] using hk) (by simpa [f2] using hf)
        simpa [(f5 k).2.1] using this
      · have := h.live k (by simpa [f1] using hk) (by simpa [f2] using hn)
        simpa [(f5 k).1, (f5 k).2.2] using this
      · rcases h.accLive (by simpa [f2] using hn) with h1 | h1 | h1
        · rw [hpc] at h1; cases h1
        · exact Or.inr (Or.inl (by simpa [f3] using h1))
        · exact absurd (f6 h1.2) hr
  · exact h

theorem inv_connect (s : St) (j : Nat) (h : Inv s) : Inv (connect s j) := by
  refine ⟨h.pos, h.idx, h.flag, h.live, fun hn => ?_⟩
  rcases h.accLive hn with h1 | h1 | h1
  · exact Or.inl h1
  · refine Or.inr (Or.inl ?_)
    show Src.shut ∈ (if s.acc.ready.contains .listen then s.acc.ready else s.acc.ready ++ [.listen])
    split
    · exact h1
    · exact List.mem_append_left _ h1
  · exact Or.inr (Or.inr h1)

theorem shut_mem_notifyAcc (s : St) : Src.shut ∈ (notifyAcc s).acc.ready := by
  show Src.shut ∈ (if s.acc.ready.contains .shut then s.acc.ready else s.acc.ready ++ [.shut])
  split
  · rename_i hc; simpa using hc
  · simp

/-! the caller's step, case by case, for the code as it is (store, then notify) -/
theorem stepS_start (s : St) (hc : s.caller = .start) : (stepS cfg0 s).1 = { s with caller := .accPre } := by
  unfold stepS; rw [hc]
theorem stepS_accPre (s : St) (hc : s.caller = .accPre) : (stepS cfg0 s).1 = { notifyAcc s with caller := .accPost } := by
  unfold stepS; rw [hc]
theorem stepS_accPost (s : St) (hc : s.caller = .accPost) : (stepS cfg0 s).1 = { setFlag s 0 with caller := .wPre 0 } := by
  unfold stepS; rw [hc]; rfl
theorem stepS_wPre (s : St) (k : Nat) (hc : s.caller = .wPre k) : (stepS cfg0 s).1 = { setEdge s k with caller := .wPost k } := by
  unfold stepS; rw [hc]
theorem stepS_wPost_lt (s : St) (k : Nat) (hc : s.caller = .wPost k) (hlt : k + 1 < s.n) :
    (stepS cfg0 s).1 = { setFlag s (k + 1) with caller := .wPre (k + 1) } := by
  unfold stepS; rw [hc]; simp only [hlt, if_true]; rfl
theorem stepS_wPost_ge (s : St) (k : Nat) (hc : s.caller = .wPost k) (hge : ¬ k + 1 < s.n) :
    (stepS cfg0 s).1 = { s with caller := .done } := by
  unfold stepS; rw [hc]; simp only [hge, if_false]; rfl
theorem stepS_done (c : Cfg) (s : St) (hc : s.caller = .done) : (stepS c s).1 = s := by
  unfold stepS; rw [hc]

@[simp] theorem setFlag_n (s : St) (k : Nat) : (setFlag s k).n = s.n := rfl
@[simp] theorem setEdge_n (s : St) (k : Nat) : (setEdge s k).n = s.n := rfl
@[simp] theorem setFlag_acc (s : St) (k : Nat) : (setFlag s k).acc = s.acc := rfl
@[simp] theorem setEdge_acc (s : St) (k : Nat) : (setEdge s k).acc = s.acc := rfl
@[simp] theorem setFlag_caller (s : St) (k : Nat) : (setFlag s k).caller = s.caller := rfl
@[simp] theorem setEdge_caller (s : St) (k : Nat) : (setEdge s k).caller = s.caller := rfl
theorem setFlag_ws (s : St) (k j : Nat) :
    ((setFlag s k).ws j).pc = (s.ws j).pc ∧ ((setFlag s k).ws j).edge = (s.ws j).edge ∧
    ((setFlag s k).ws j).flag = (if j = k then true else (s.ws j).flag) := by
  unfold setFlag
  by_cases e : j = k
  · subst e; simp
  · simp [e]
theorem setEdge_ws (s : St) (k j : Nat) :
    ((setEdge s k).ws j).pc = (s.ws j).pc ∧ ((setEdge s k).ws j).flag = (s.ws j).flag ∧
    ((setEdge s k).ws j).edge = (if j = k then true else (s.ws j).edge) := by
  unfold setEdge
  by_cases e : j = k
  · subst e; simp
  · simp [e]

theorem inv_stepS (s : St) (h : Inv s) : Inv (stepS cfg0 s).1 := by
  cases hc : s.caller with
  | start =>
    rw [stepS_start s hc]
    exact ⟨h.pos, trivial, fun j _ hf => by simp [flagged] at hf, fun j _ hn => by simp [notified] at hn,
           fun hn => by simp [accNotified] at hn⟩
  | accPre =>
    rw [stepS_accPre s hc]
    exact ⟨h.pos, trivial, fun j _ hf => by simp [flagged] at hf, fun j _ hn => by simp [notified] at hn,
           fun _ => Or.inr (Or.inl (shut_mem_notifyAcc s))⟩
  | accPost =>
    rw [stepS_accPost s hc]
    have hacc := h.accLive (by rw [hc]; trivial)
    refine ⟨h.pos, h.pos, fun j hj hf => ?_, fun j _ hn => ?_, fun _ => hacc⟩
    · have hf' : j ≤ 0 := hf
      have : j = 0 := by omega
      subst this
      exact (setFlag_ws s 0 0).2.2.trans (by simp)
    · have hn' : j < 0 := hn
      omega
  | wPre k =>
    rw [stepS_wPre s k hc]
    have hk : k < s.n := by have := h.idx; rw [hc] at this; exact this
    have hacc := h.accLive (by rw [hc]; trivial)
    refine ⟨h.pos, hk, fun j hj hf => ?_, fun j hj hn => ?_, fun _ => hacc⟩
    · have hf' : j ≤ k := hf
      have := h.flag j hj (by rw [hc]; exact hf')
      exact (setEdge_ws s k j).2.1.trans this
    · have hn' : j ≤ k := hn
      by_cases e : j = k
      · exact Or.inr (Or.inr ((setEdge_ws s k j).2.2.trans (by simp [e])))
      · have := h.live j hj (by rw [hc]; show j < k; omega)
        rw [← (setEdge_ws s k j).1] at this
        rcases this with h1 | h1 | h1
        · exact Or.inl h1
        · exact Or.inr (Or.inl h1)
        · exact Or.inr (Or.inr ((setEdge_ws s k j).2.2.trans (by simp [e, h1])))
  | wPost k =>
    have hk : k < s.n := by have := h.idx; rw [hc] at this; exact this
    have hacc := h.accLive (by rw [hc]; trivial)
    by_cases hlt : k + 1 < s.n
    · rw [stepS_wPost_lt s k hc hlt]
      refine ⟨h.pos, hlt, fun j hj hf => ?_, fun j hj hn => ?_, fun _ => hacc⟩
      · have hf' : j ≤ k + 1 := hf
        by_cases e : j = k + 1
        · exact (setFlag_ws s (k + 1) j).2.2.trans (by simp [e])
        · have := h.flag j hj (by rw [hc]; show j ≤ k; omega)
          exact (setFlag_ws s (k + 1) j).2.2.trans (by simp [e, this])
      · have hn' : j < k + 1 := hn
        have := h.live j hj (by rw [hc]; show j ≤ k; omega)
        rw [← (setFlag_ws s (k + 1) j).1, ← (setFlag_ws s (k + 1) j).2.1] at this
        exact this
    · rw [stepS_wPost_ge s k hc hlt]
      refine ⟨h.pos, trivial, fun j hj _ => ?_, fun j hj _ => ?_, fun _ => hacc⟩
      · have hj' : j < s.n := hj
        exact h.flag j hj' (by rw [hc]; show j ≤ k; omega)
      · have hj' : j < s.n := hj
        exact h.live j hj' (by rw [hc]; show j ≤ k; omega)
  | done =>
    rw [stepS_done cfg0 s hc]; exact h

theorem inv_step (s : St) (a : Actor) (h : Inv s) : Inv (step cfg0 s a) := by
  cases a with
  | acc => exact inv_stepA false s h
  | accF => exact inv_stepA true s h
  | w j => exact inv_stepW s j h
  | caller => exact inv_stepS s h
  | conn j => exact inv_connect s j h

theorem inv_run (sched : List Actor) (s : St) (h : Inv s) : Inv (run cfg0 sched s) := by
  induction sched generalizing s with
  | nil => exact h
  | cons a rest ih => exact ih _ (inv_step s a h)

theorem stepS_frame (c : Cfg) (s : St) :
    (stepS c s).1.n = s.n ∧ (stepS c s).1.acc.pc = s.acc.pc ∧ (stepS c s).1.acc.batch = s.acc.batch ∧
    ∀ j, ((stepS c s).1.ws j).pc = (s.ws j).pc := by
  obtain ⟨sf⟩ := c
  have hF := fun k j => (setFlag_ws s k j).1
  have hE := fun k j => (setEdge_ws s k j).1
  unfold stepS
  cases sf <;> (split <;> (try split) <;> simp_all [notifyAcc])

/-! ### `n` never changes; `done` stays -/

theorem stepA_n (fail : Bool) (s : St) : (stepA fail s).1.n = s.n := by
  unfold stepA
  split
  · split <;> rfl
  · obtain ⟨f1, _⟩ := handleBatch_frame fail s.acc.batch s
    split <;> exact f1
  · rfl

theorem stepA_caller (fail : Bool) (s : St) : (stepA fail s).1.caller = s.caller := by
  unfold stepA
  split
  · split <;> rfl
  · obtain ⟨_, f2, _⟩ := handleBatch_frame fail s.acc.batch s
    split <;> exact f2
  · rfl

theorem stepA_pc (fail : Bool) (s : St) (j : Nat) : ((stepA fail s).1.ws j).pc = (s.ws j).pc := by
  unfold stepA
  split
  · split <;> rfl
  · obtain ⟨_, _, _, _, f5, _⟩ := handleBatch_frame fail s.acc.batch s
    split <;> exact (f5 j).1
  · rfl

theorem step_n (c : Cfg) (s : St) (a : Actor) : (step c s a).n = s.n := by
  cases a with
  | acc => exact stepA_n false s
  | accF => exact stepA_n true s
  | w j =>
    show (stepW s j).1.n = s.n
    unfold stepW
    split
    · split <;> rfl
    · split <;> rfl
    · rfl
  | caller => exact (stepS_frame c s).1
  | conn j => rfl

theorem run_n (c : Cfg) (sched : List Actor) (s : St) : (run c sched s).n = s.n := by
  induction sched generalizing s with
  | nil => rfl
  | cons a rest ih => exact (ih _).trans (step_n c s a)

theorem step_caller_of_ne (c : Cfg) (s : St) (a : Actor) (h : a ≠ .caller) : (step c s a).caller = s.caller := by
  cases a with
  | acc => exact stepA_caller false s
  | accF => exact stepA_caller true s
  | w j =>
    show (stepW s j).1.caller = s.caller
    unfold stepW
    split
    · split <;> rfl
    · split <;> rfl
    · rfl
  | caller => exact absurd rfl h
  | conn j => rfl

theorem step_done (c : Cfg) (s : St) (a : Actor) (h : s.caller = .done) : (step c s a).caller = .done := by
  by_cases e : a = .caller
  · subst e
    show (stepS c s).1.caller = .done
    rw [stepS_done c s h]; exact h
  · rw [step_caller_of_ne c s a e, h]

/-! ### ranking: how many own steps a thread still needs -/

def rankW (w : Worker) : Nat := match w.pc with | .exited => 0 | .woke => 1 | .poll => 2

def rankA (a : Acceptor) : Nat :=
  match a.pc with
  | .exited => 0
  | .woke => if Src.shut ∈ a.batch then 1 else 3
  | .poll => 2

def rankC (n : Nat) : CPc → Nat
  | .start => 2 * n + 3 | .accPre => 2 * n + 2 | .accPost => 2 * n + 1
  | .wPre k => 2 * (n - k) | .wPost k => 2 * (n - k) - 1 | .done => 0

theorem rankW_le (w : Worker) : rankW w ≤ 2 := by unfold rankW; split <;> omega
theorem rankA_le (a : Acceptor) : rankA a ≤ 3 := by unfold rankA; split <;> (try split) <;> omega

theorem rankW_zero {w : Worker} (h : rankW w = 0) : w.pc = .exited := by
  unfold rankW at h; split at h <;> first | assumption | omega
theorem rankA_zero {a : Acceptor} (h : rankA a = 0) : a.pc = .exited := by
  unfold rankA at h; split at h <;> first | assumption | (split at h <;> omega) | omega

/-- a step of another actor leaves a worker's program counter alone -/
theorem step_pc_other (c : Cfg) (s : St) (a : Actor) (j : Nat) (h : a ≠ .w j) : ((step c s a).ws j).pc = (s.ws j).pc := by
  cases a with
  | acc => exact stepA_pc false s j
  | accF => exact stepA_pc true s j
  | w k =>
    have hk : j ≠ k := fun e => h (by rw [e])
    show ((stepW s k).1.ws j).pc = _
    unfold stepW
    split
    · split
      · simp [hk]
      · rfl
    · split <;> simp [hk]
    · rfl
  | caller => exact (stepS_frame c s).2.2.2 j
  | conn k => rfl

/-- once shutdown() has returned, every own step brings a worker nearer to its end -/
theorem rankW_step_own (s : St) (j : Nat) (h : Inv s) (hd : s.caller = .done) (hj : j < s.n) :
    rankW ((step cfg0 s (.w j)).ws j) ≤ rankW (s.ws j) - 1 := by
  have hfl := h.flag j hj (by rw [hd]; trivial)
  have hlv := h.live j hj (by rw [hd]; trivial)
  show rankW ((stepW s j).1.ws j) ≤ _
  unfold stepW
  split
  · rename_i hpc
    split
    · simp [rankW, hpc]
    · rename_i hne
      rcases hlv with h1 | h1 | h1
      · rw [hpc] at h1; cases h1
      · rw [hpc] at h1; cases h1
      · simp [h1] at hne
  · rename_i hpc
    split
    · simp [rankW, hpc]
    · rename_i hne; exact absurd hfl hne
  · rename_i hpc
    simp [rankW, hpc]

theorem rankW_run (sched : List Actor) (s : St) (j : Nat) (h : Inv s) (hd : s.caller = .done) (hj : j < s.n) :
    rankW ((run cfg0 sched s).ws j) ≤ rankW (s.ws j) - sched.count (.w j) := by
  induction sched generalizing s with
  | nil => simp [run]
  | cons a rest ih =>
    have h' := inv_step s a h
    have hd' := step_done cfg0 s a hd
    have hj' : j < (step cfg0 s a).n := by rw [step_n]; exact hj
    have := ih (step cfg0 s a) h' hd' hj'
    show rankW ((run cfg0 rest (step cfg0 s a)).ws j) ≤ _
    by_cases e : a = .w j
    · subst e
      have own := rankW_step_own s j h hd hj
      simp only [List.count_cons_self]
      omega
    · have same : rankW ((step cfg0 s a).ws j) = rankW (s.ws j) := by
        unfold rankW; rw [step_pc_other cfg0 s a j e]
      have hc : (a :: rest).count (.w j) = rest.count (.w j) := by
        rw [List.count_cons]; simp [e]
      omega

/-- a step of another actor leaves the acceptor's program counter and batch alone -/
theorem step_acc_other (c : Cfg) (s : St) (a : Actor) (h : a ≠ .acc) (h' : a ≠ .accF) :
    (step c s a).acc.pc = s.acc.pc ∧ (step c s a).acc.batch = s.acc.batch := by
  cases a with
  | acc => exact absurd rfl h
  | accF => exact absurd rfl h'
  | w k =>
    show (stepW s k).1.acc.pc = _ ∧ (stepW s k).1.acc.batch = _
    unfold stepW
    split
    · split <;> exact ⟨rfl, rfl⟩
    · split <;> exact ⟨rfl, rfl⟩
    · exact ⟨rfl, rfl⟩
  | caller => exact ⟨(stepS_frame c s).2.1, (stepS_frame c s).2.2.1⟩
  | conn k => exact ⟨rfl, rfl⟩

theorem rankA_stepA (fail : Bool) (s : St) (h : Inv s) (hd : s.caller = .done) :
    rankA (stepA fail s).1.acc ≤ rankA s.acc - 1 := by
  have hlv := h.accLive (by rw [hd]; trivial)
  show rankA (stepA fail s).1.acc ≤ _
  unfold stepA
  split
  · rename_i hpc
    split
    · rename_i hempty
      rcases hlv with h1 | h1 | h1
      · rw [hpc] at h1; cases h1
      · have := shut_mem_report s.acc h1
        simp only [List.isEmpty_iff] at hempty
        rw [hempty] at this; cases this
      · rw [hpc] at h1; cases h1.1
    · rcases hlv with h1 | h1 | h1
      · rw [hpc] at h1; cases h1
      · have := shut_mem_report s.acc h1
        simp [rankA, hpc, this]
      · rw [hpc] at h1; cases h1.1
  · rename_i hpc
    obtain ⟨_, _, _, _, _, f6⟩ := handleBatch_frame fail s.acc.batch s
    split
    · simp [rankA]
    · rename_i hr
      have hnot : Src.shut ∉ s.acc.batch := fun hm => hr (f6 hm)
      simp [rankA, hpc, hnot]
  · rename_i hpc
    simp [rankA, hpc]

theorem rankA_run (sched : List Actor) (s : St) (h : Inv s) (hd : s.caller = .done) :
    rankA (run cfg0 sched s).acc ≤ rankA s.acc - sched.count .acc := by
  induction sched generalizing s with
  | nil => simp [run]
  | cons a rest ih =>
    have := ih (step cfg0 s a) (inv_step s a h) (step_done cfg0 s a hd)
    show rankA (run cfg0 rest (step cfg0 s a)).acc ≤ _
    by_cases e : a = .acc
    · subst e
      have own : rankA (step cfg0 s .acc).acc ≤ rankA s.acc - 1 := rankA_stepA false s h hd
      simp only [List.count_cons_self]
      omega
    · have hc : (a :: rest).count .acc = rest.count .acc := by
        rw [List.count_cons]; simp [e]
      by_cases e' : a = .accF
      · subst e'
        have own : rankA (step cfg0 s .accF).acc ≤ rankA s.acc - 1 := rankA_stepA true s h hd
        omega
      · obtain ⟨e1, e2⟩ := step_acc_other cfg0 s a e e'
        have same : rankA (step cfg0 s a).acc = rankA s.acc := by unfold rankA; rw [e1, e2]
        omega

/-- shutdown() itself never waits: each own step brings the caller nearer to its return -/
theorem rankC_step_own (s : St) (h : Inv s) : rankC s.n (step cfg0 s .caller).caller ≤ rankC s.n s.caller - 1 := by
  have hidx := h.idx
  show rankC s.n (stepS cfg0 s).1.caller ≤ _
  cases hc : s.caller with
  | start => rw [stepS_start s hc]; simp [rankC]
  | accPre => rw [stepS_accPre s hc]; simp [rankC]
  | accPost => rw [stepS_accPost s hc]; simp [rankC]
  | wPre k => rw [stepS_wPre s k hc]; rw [hc] at hidx; simp only [rankC]; omega
  | wPost k =>
    rw [hc] at hidx
    by_cases hlt : k + 1 < s.n
    · rw [stepS_wPost_lt s k hc hlt]; simp only [rankC]; omega
    · rw [stepS_wPost_ge s k hc hlt]; simp only [rankC]; omega
  | done => rw [stepS_done cfg0 s hc, hc]; simp [rankC]

theorem rankC_run (sched : List Actor) (s : St) (h : Inv s) :
    rankC s.n (run cfg0 sched s).caller ≤ rankC s.n s.caller - sched.count .caller := by
  induction sched generalizing s with
  | nil => simp [run]
  | cons a rest ih =>
    have := ih (step cfg0 s a) (inv_step s a h)
    rw [step_n] at this
    show rankC s.n (run cfg0 rest (step cfg0 s a)).caller ≤ _
    by_cases e : a = .caller
    · subst e
      have own := rankC_step_own s h
      simp only [List.count_cons_self]
      omega
    · rw [step_caller_of_ne cfg0 s a e] at this
      have hc : (a :: rest).count .caller = rest.count .caller := by
        rw [List.count_cons]; simp [e]
      omega

theorem rankC_zero {n : Nat} {c : CPc} (hidx : match c with | .wPre k => k < n | .wPost k => k < n | _ => True)
    (h : rankC n c = 0) : c = .done := by
  cases c <;> simp only [rankC] at h <;> first | rfl | omega

end Pistache.Shutdown
