/-
Inductive invariant of Model/PromiseN.lean (the code as it is: `atomic = true`), for any number of attaching threads.
-/
import PistacheModel.Model.PromiseN

namespace Pistache.PromiseN

def cfg0 : Cfg := { atomic := true }

structure Inv (s : St) : Prop where
  lockS : s.lock = some 0 ↔ (s.spc = .store ∨ s.spc = .walk)
  lockA : ∀ j, s.lock = some (j + 1) ↔ (s.apc j = .tState ∨ s.apc j = .tPush)
  settled : s.settled = true ↔ (s.spc = .walk ∨ s.spc = .done)
  pcs : s.spc ≠ .lock1 ∧ s.spc ≠ .snap
  quiet : s.spc ≠ .done → s.order = []
  cnt : ∀ j, s.order.count j + (if s.spc = .done then 0 else s.reqs.count j)
          = (if s.apc j = .done ∨ (s.apc j = .tPush ∧ s.spc = .done) then 1 else 0)
  exc : s.excA = false

theorem inv_init : Inv init := by
  refine ⟨?_, ?_, ?_, ?_, ?_, ?_, ?_⟩ <;> simp [init]

theorem inv_stepS (s : St) (h : Inv s) : Inv (stepS cfg0 s) := by
  obtain ⟨hS, hA, hset, hpcs, hq, hc, he⟩ := h
  unfold stepS
  split
  · -- start
    rename_i e
    refine ⟨?_, hA, ?_, ?_, ?_, ?_, he⟩
    · simpa [e] using hS
    · simpa [e] using hset
    · simp
    · intro _; simpa [e] using hq
    · intro j; simpa [e] using hc j
  · -- check
    rename_i e
    have hns : s.settled = false := by
      cases hs : s.settled
      · rfl
      · have := hset.mp hs; simp [e] at this
    simp only [hns, cfg0]
    refine ⟨?_, hA, ?_, ?_, ?_, ?_, he⟩
    · simpa [e] using hS
    · simp
    · simp
    · intro _; simpa [e] using hq
    · intro j; simpa [e] using hc j
  · exact absurd (by assumption) hpcs.1
  · exact absurd (by assumption) hpcs.2
  · -- lock
    rename_i e
    split
    · rename_i hl
      refine ⟨?_, ?_, ?_, ?_, ?_, ?_, he⟩
      · simp
      · intro j
        have := hA j
        simp [hl] at this
        simp [this]
      · simpa [e] using hset
      · simp
      · intro _; simpa [e] using hq
      · intro j; simpa [e] using hc j
    · exact ⟨hS, hA, hset, hpcs, hq, hc, he⟩
  · -- store
    rename_i e
    have hl : s.lock = some 0 := hS.mpr (Or.inl e)
    simp only [cfg0]
    refine ⟨?_, hA, ?_, ?_, ?_, ?_, he⟩
    · simpa using hl
    · simp
    · simp
    · intro _; simpa [e] using hq
    · intro j; simpa [e] using hc j
  · -- walk
    rename_i e
    have hl : s.lock = some 0 := hS.mpr (Or.inr e)
    simp only [cfg0]
    refine ⟨?_, ?_, ?_, ?_, ?_, ?_, he⟩
    · simp
    · intro j
      have := hA j
      simp [hl] at this
      simpa using this
    · simpa using hset.mpr (Or.inl e)
    · simp
    · simp
    · intro j
      have h1 := hc j
      have h2 := hA j
      simp [hl] at h2
      simp [e] at h1
      simp [List.count_append, h2.2]
      simpa using h1
  · exact ⟨hS, hA, hset, hpcs, hq, hc, he⟩

@[simp] theorem setA_apc_self (s : St) (j : Nat) (p : APc) : (setA s j p).apc j = p := by simp [setA]
theorem setA_apc_ne (s : St) (j i : Nat) (p : APc) (h : i ≠ j) : (setA s j p).apc i = s.apc i := by simp [setA, h]
@[simp] theorem setA_lock (s : St) (j : Nat) (p : APc) : (setA s j p).lock = s.lock := rfl
@[simp] theorem setA_spc (s : St) (j : Nat) (p : APc) : (setA s j p).spc = s.spc := rfl
@[simp] theorem setA_settled (s : St) (j : Nat) (p : APc) : (setA s j p).settled = s.settled := rfl
@[simp] theorem setA_order (s : St) (j : Nat) (p : APc) : (setA s j p).order = s.order := rfl
@[simp] theorem setA_reqs (s : St) (j : Nat) (p : APc) : (setA s j p).reqs = s.reqs := rfl
@[simp] theorem setA_excA (s : St) (j : Nat) (p : APc) : (setA s j p).excA = s.excA := rfl

theorem inv_stepA (s : St) (j : Nat) (h : Inv s) : Inv (stepA s j) := by
  obtain ⟨hS, hA, hset, hpcs, hq, hc, he⟩ := h
  unfold stepA
  split
  · -- start
    rename_i e
    refine ⟨by simpa using hS, ?_, by simpa using hset, by simpa using hpcs, by simpa using hq, ?_, by simpa using he⟩
    · intro i
      by_cases hij : i = j
      · subst hij
        have := hA i
        simp [e] at this
        simp [this]
      · rw [setA_apc_ne _ _ _ _ hij]; exact hA i
    · intro i
      have hci := hc i
      by_cases hij : i = j
      · subst hij
        by_cases hd : s.spc = .done <;> simp [hd, e] at hci ⊢ <;> omega
      · rw [setA_apc_ne _ _ _ _ hij]; exact hci
  · -- tLock
    rename_i e
    split
    · rename_i hl
      have hs0 : ¬ (s.spc = .store ∨ s.spc = .walk) := by rw [← hS, hl]; simp
      refine ⟨?_, ?_, by simpa using hset, by simpa using hpcs, by simpa using hq, ?_, by simpa using he⟩
      · simpa using hs0
      · intro i
        by_cases hij : i = j
        · subst hij; simp
        · rw [setA_apc_ne _ _ _ _ hij]
          have := hA i
          simp [hl] at this
          have hji : ¬ j = i := fun h => hij h.symm
          simp [this, hji]
      · intro i
        have hci := hc i
        by_cases hij : i = j
        · subst hij
          by_cases hd : s.spc = .done <;> simp [hd, e] at hci ⊢ <;> omega
        · rw [setA_apc_ne _ _ _ _ hij]; exact hci
    · exact ⟨hS, hA, hset, hpcs, hq, hc, he⟩
  · -- tState
    rename_i e
    have hl : s.lock = some (j + 1) := (hA j).mpr (Or.inl e)
    have hs0 : ¬ (s.spc = .store ∨ s.spc = .walk) := by rw [← hS, hl]; simp
    split
    · rename_i hst
      have hdone : s.spc = .done := by
        rcases hset.mp hst with h1 | h1
        · exact absurd (Or.inr h1) hs0
        · exact h1
      refine ⟨by simpa using hS, ?_, by simpa using hset, by simpa using hpcs, ?_, ?_, by simpa using he⟩
      · intro i
        by_cases hij : i = j
        · subst hij; simpa using hl
        · rw [setA_apc_ne _ _ _ _ hij]; exact hA i
      · intro hnd; exact absurd hdone (by simpa using hnd)
      · intro i
        have hci := hc i
        by_cases hij : i = j
        · subst hij
          simp [hdone, e] at hci
          simp [hdone, List.count_append, hci]
        · rw [setA_apc_ne _ _ _ _ hij]
          have hji : ¬ j = i := fun h => hij h.symm
          simp [hdone] at hci
          simp [hdone, List.count_append, hji, hci]
    · rename_i hst
      have hnd : s.spc ≠ .done := by
        intro h1; exact hst (hset.mpr (Or.inr h1))
      refine ⟨by simpa using hS, ?_, by simpa using hset, by simpa using hpcs, by simpa using hq, ?_, by simpa using he⟩
      · intro i
        by_cases hij : i = j
        · subst hij; simpa using hl
        · rw [setA_apc_ne _ _ _ _ hij]; exact hA i
      · intro i
        have hci := hc i
        by_cases hij : i = j
        · subst hij
          simp [e, hnd] at hci
          simp [hnd, hci]
        · rw [setA_apc_ne _ _ _ _ hij]; exact hci
  · -- tPush
    rename_i e
    have hl : s.lock = some (j + 1) := (hA j).mpr (Or.inr e)
    have hs0 : ¬ (s.spc = .store ∨ s.spc = .walk) := by rw [← hS, hl]; simp
    have hothers : ∀ i, i ≠ j → s.apc i ≠ .tState ∧ s.apc i ≠ .tPush := by
      intro i hij
      have := hA i
      have hji : ¬ j = i := fun h => hij h.symm
      simp [hl, hji] at this
      exact this
    refine ⟨?_, ?_, by simpa using hset, by simpa using hpcs, by simpa using hq, ?_, by simpa using he⟩
    · simpa using hs0
    · intro i
      by_cases hij : i = j
      · subst hij; simp
      · rw [setA_apc_ne _ _ _ _ hij]
        have := hothers i hij
        simp [this]
    · intro i
      have hci := hc i
      by_cases hij : i = j
      · subst hij
        by_cases hd : s.spc = .done
        · simp [hd, e] at hci ⊢; exact hci
        · simp [hd, e] at hci ⊢
          simp [hci]
      · rw [setA_apc_ne _ _ _ _ hij]
        have hji : ¬ j = i := fun h => hij h.symm
        by_cases hd : s.spc = .done
        · simp [hd] at hci ⊢; exact hci
        · simp [hd, List.count_append, hji] at hci ⊢; exact hci
  · exact ⟨hS, hA, hset, hpcs, hq, hc, he⟩

theorem inv_step (s : St) (tid : Nat) (h : Inv s) : Inv (step cfg0 s tid) := by
  cases tid with
  | zero => exact inv_stepS s h
  | succ j => exact inv_stepA s j h

theorem inv_run (sched : List Nat) (s : St) (h : Inv s) : Inv (run cfg0 sched s) := by
  induction sched generalizing s with
  | nil => exact h
  | cons t ts ih => exact ih _ (inv_step s t h)

/-! ### second invariant: the continuations run in the order of the request list -/

def Inv2 (s : St) : Prop :=
  s.spc = .done → (s.lock = none → s.order = s.reqs) ∧
    ∀ j, s.lock = some (j + 1) → (s.apc j = .tState → s.order = s.reqs) ∧ (s.apc j = .tPush → s.order = s.reqs ++ [j])

theorem inv2_init : Inv2 init := by intro h; simp [init] at h

theorem inv2_stepS (s : St) (h : Inv s) (h2 : Inv2 s) : Inv2 (stepS cfg0 s) := by
  obtain ⟨hS, hA, hset, hpcs, hq, hc, he⟩ := h
  unfold stepS
  split
  · intro hd; simp at hd
  · rename_i e
    have hns : s.settled = false := by
      cases hs : s.settled
      · rfl
      · have := hset.mp hs; simp [e] at this
    simp only [hns, cfg0]
    intro hd; simp at hd
  · exact absurd (by assumption) hpcs.1
  · exact absurd (by assumption) hpcs.2
  · split
    · intro hd; simp at hd
    · exact h2
  · simp only [cfg0]; intro hd; simp at hd
  · rename_i e
    have hord : s.order = [] := hq (by simp [e])
    simp only [cfg0]
    intro _
    refine ⟨fun _ => by simp [hord], fun j hj => by simp at hj⟩
  · exact h2

theorem inv2_stepA (s : St) (j : Nat) (h : Inv s) (h2 : Inv2 s) : Inv2 (stepA s j) := by
  obtain ⟨hS, hA, hset, hpcs, hq, hc, he⟩ := h
  unfold stepA
  split
  · -- start
    rename_i e
    intro hd
    have hd' : s.spc = .done := by simpa using hd
    obtain ⟨g1, g2⟩ := h2 hd'
    refine ⟨by simpa using g1, fun i hi => ?_⟩
    have hi' : s.lock = some (i + 1) := by simpa using hi
    by_cases hij : i = j
    · subst hij; simp
    · rw [setA_apc_ne _ _ _ _ hij]; simpa using g2 i hi'
  · -- tLock
    rename_i e
    split
    · rename_i hl
      intro hd
      have hd' : s.spc = .done := by simpa using hd
      obtain ⟨g1, _⟩ := h2 hd'
      refine ⟨fun hn => by simp at hn, fun i hi => ?_⟩
      have hij : i = j := by simpa using hi.symm
      subst hij
      simpa using g1 hl
    · exact h2
  · -- tState
    rename_i e
    have hl : s.lock = some (j + 1) := (hA j).mpr (Or.inl e)
    split
    · rename_i hst
      intro hd
      have hd' : s.spc = .done := by simpa using hd
      obtain ⟨_, g2⟩ := h2 hd'
      have hor := (g2 j hl).1 e
      refine ⟨fun hn => by simp [hl] at hn, fun i hi => ?_⟩
      have hij : i = j := by
        have : s.lock = some (i + 1) := by simpa using hi
        rw [hl] at this; simpa using this.symm
      subst hij
      simp [hor]
    · rename_i hst
      intro hd
      have hd' : s.spc = .done := by simpa using hd
      exact absurd (hset.mpr (Or.inr hd')) hst
  · -- tPush
    rename_i e
    have hl : s.lock = some (j + 1) := (hA j).mpr (Or.inr e)
    intro hd
    have hd' : s.spc = .done := by simpa using hd
    obtain ⟨_, g2⟩ := h2 hd'
    have hor := (g2 j hl).2 e
    refine ⟨fun _ => by simpa using hor, fun i hi => by simp at hi⟩
  · exact h2

theorem inv2_run (sched : List Nat) (s : St) (h : Inv s) (h2 : Inv2 s) : Inv2 (run cfg0 sched s) := by
  induction sched generalizing s with
  | nil => exact h2
  | cons t ts ih =>
    apply ih _ (inv_step s t h)
    cases t with
    | zero => exact inv2_stepS s h h2
    | succ j => exact inv2_stepA s j h h2

end Pistache.PromiseN
