/-
The ownership invariant and the log justification hold after every operation of a well-formed program
(one that settles only promises it created with `new`, i.e. whose resolver/rejection it holds).
-/
import PistacheModel.Lemmas.PromiseSound

namespace Pistache.Promise

variable {roots : List Nat}

structure Good (roots : List Nat) (m : M) : Prop where
  own : Own roots m
  log : LogOK m.cores m.log

theorem fulfilled_lt {cs : List Core} {c : Nat} (h : Fulfilled cs c) : c < cs.length := by
  by_cases hc : c < cs.length
  · exact hc
  · obtain ⟨v, hv⟩ := h; rw [stOf_oob cs c (by omega)] at hv; cases hv

theorem rejected_lt {cs : List Core} {c : Nat} (h : Rejected cs c) : c < cs.length := by
  by_cases hc : c < cs.length
  · exact hc
  · obtain ⟨v, hv⟩ := h; rw [stOf_oob cs c (by omega)] at hv; cases hv

theorem own_newCore_gen {m : M} (x : Core) (hx : x.reqs = []) (h : Own roots m) (roots' : List Nat)
    (hc : OwnC roots' (m.cores ++ [x])) (hr : ∀ d ∈ roots', d < m.cores.length + 1) (hsub : ∀ d ∈ roots, d ∈ roots') :
    Own roots' (m.newCore x).1 := by
  have e := ext_newCore m.cores x hx
  refine ⟨hc, ?_, ?_, ?_, ?_, h.dStack⟩
  · refine stackOK_trans ?_ ?_ h.s
    · intro c hf; exact fulfilled_of_st (stOf_append_core m.cores x c (fulfilled_lt hf)) hf
    · intro c hrj
      rcases hrj with hrj | hd
      · exact Or.inl (rejected_of_st (stOf_append_core m.cores x c (rejected_lt hrj)) hrj)
      · have hd' := hd
        obtain ⟨_, c0, i0, r0, h0, hu0, hc0, _⟩ := hd'
        have hlt : c < m.cores.length := by rw [← hc0]; exact h.c.bound c0 i0 r0 h0 (user_settler hu0)
        exact Or.inr (doomed_fwd (stOf_append_core m.cores x c hlt) e.fwd hd)
  · intro d hd
    show d < (m.cores ++ [x]).length
    rw [List.length_append, List.length_singleton]; exact hr d hd
  · intro dd hdd; exact hsub _ (h.dTarget dd hdd)
  · intro c i r hrq
    have : rq (m.cores ++ [x]) c i = some r := hrq
    rw [rq_append_core m.cores x hx] at this
    exact h.dReq c i r this

theorem own_newCore_root {m : M} (x : Core) (hx : x.reqs = []) (h : Own roots m) : Own (m.cores.length :: roots) (m.newCore x).1 :=
  own_newCore_gen x hx h _ (ownC_newCore x hx h.c)
    (by intro d hd; rcases List.mem_cons.mp hd with rfl | hd
        · omega
        · have := h.rootsLt d hd; omega)
    (fun d hd => List.mem_cons_of_mem _ hd)

theorem own_newCore_derived {m : M} (x : Core) (hx : x.reqs = []) (h : Own roots m) : Own roots (m.newCore x).1 :=
  own_newCore_gen x hx h _ (ownC_newCore' x hx h.c) (by intro d hd; have := h.rootsLt d hd; omega) (fun d hd => hd)

theorem good_newCore_root {m : M} (x : Core) (hx : x.reqs = []) (g : Good roots m) : Good (m.cores.length :: roots) (m.newCore x).1 :=
  ⟨own_newCore_root x hx g.own, logOK_ext (ext_newCore m.cores x hx) g.log⟩

theorem good_newCore_derived {m : M} (x : Core) (hx : x.reqs = []) (g : Good roots m) : Good roots (m.newCore x).1 :=
  ⟨own_newCore_derived x hx g.own, logOK_ext (ext_newCore m.cores x hx) g.log⟩

/-- finishing the cascade -/
theorem good_settleDown {m0 m : M} (g : Good roots m) (e0 : Ext m0.cores m.cores) :
    Good roots (settleDown m).1 ∧ Ext m0.cores (settleDown m).1.cores := by
  have o := own_run (fuelFor m) m g.own
  have s := sound_run (fuelFor m) m g.own g.log
  refine ⟨⟨?_, s.2⟩, e0.trans s.1⟩
  exact ⟨o.c, (by intro a ha; cases ha), o.rootsLt, o.dTarget, o.dReq, (by intro a ha; cases ha)⟩

def wfOp (news : List Nat) : Op → Prop
  | .resolve p _ => p ∈ news
  | .reject p _ => p ∈ news
  | _ => True

def rootsStep (roots : List Nat) (n : Nat) : Op → List Nat
  | .then_ _ _ _ _ => roots
  | .resolve _ _ => roots
  | .reject _ _ => roots
  | _ => n :: roots

theorem stackData_mono {n n' : Nat} {st : List Act} (hn : n ≤ n') (h : StackData n st) : StackData n' st := by
  intro a ha
  have := h a ha
  cases a with
  | attach p r => exact dataIn_mono hn this
  | resolveReq c i => trivial
  | rejectReq c i => trivial

/-- the common part of whenAll / whenAny: a new root core, a new data block pointing at it, and the attach actions -/
theorem good_combinator {m : M} (g : Good roots m) (total : Nat) (ins : List Nat) (ak : Bool) (acts : List Act)
    (hacts : ∀ a ∈ acts, ∃ p r, a = .attach p r ∧ r.settler = false ∧ r.rc = 0 ∧ r.jc = 0 ∧ DataIn (m.datas.length + 1) r) :
    Good (m.cores.length :: roots)
      { (m.newCore {}).1 with datas := (m.newCore {}).1.datas ++ [({ target := m.cores.length, total := total, inputs := ins, anyKind := ak } : Data)],
                              stack := acts ++ (m.newCore {}).1.stack } := by
  have g1 := good_newCore_root (m := m) {} rfl g
  have o1 := g1.own
  refine ⟨⟨o1.c, ?_, o1.rootsLt, ?_, ?_, ?_⟩, g1.log⟩
  · refine stackOK_append ?_ o1.s
    intro a ha
    obtain ⟨p, r, rfl, hs, hrc, hjc, _⟩ := hacts a ha
    exact ⟨hs, hrc, hjc⟩
  · intro dd hdd
    rcases List.mem_append.mp hdd with hdd | hdd
    · exact o1.dTarget dd hdd
    · simp only [List.mem_singleton] at hdd; subst hdd; exact List.mem_cons_self
  · intro c i r hr
    have := o1.dReq c i r hr
    refine dataIn_mono ?_ this
    show (m.newCore {}).1.datas.length ≤ ((m.newCore {}).1.datas ++ [_]).length
    rw [List.length_append]; omega
  · show StackData ((m.newCore {}).1.datas ++ [_]).length (acts ++ (m.newCore {}).1.stack)
    rw [List.length_append, List.length_singleton]
    refine stackData_append ?_ (stackData_mono (by omega) o1.dStack)
    intro a ha
    obtain ⟨p, r, rfl, _, _, _, hd⟩ := hacts a ha
    exact hd

theorem good_exec (m : M) (op : Op) (g : Good roots m) (hwf : wfOp roots op) :
    Good (rootsStep roots m.cores.length op) (exec m op).1 ∧ Ext m.cores (exec m op).1.cores := by
  cases op with
  | new => exact ⟨good_newCore_root {} rfl g, ext_newCore m.cores {} rfl⟩
  | newResolved v => exact ⟨good_newCore_root { st := .fulfilled v } rfl g, ext_newCore m.cores _ rfl⟩
  | newRejected e => exact ⟨good_newCore_root { st := .rejected e } rfl g, ext_newCore m.cores _ rfl⟩
  | then_ p cb ret rej =>
    simp only [exec, rootsStep]
    have g1 := good_newCore_derived (m := m) {} rfl g
    have e1 : Ext m.cores (m.newCore {}).1.cores := ext_newCore m.cores {} rfl
    have o2 : Own roots (thenOn (m.newCore {}).1 p { kind := .user cb ret rej, chain := (m.newCore {}).2 }) := by
      refine own_thenOn g1.own ⟨rfl, rfl⟩ ?_ ?_ (by simp [DataIn])
      · intro _
        refine ⟨?_, ?_, ?_, ?_⟩
        · show m.cores.length < (m.cores ++ [({} : Core)]).length; rw [List.length_append, List.length_singleton]; omega
        · intro c i y hy hyu hcc
          have hy' : rq (m.cores ++ [({} : Core)]) c i = some y := hy
          rw [rq_append_core m.cores ({} : Core) rfl] at hy'
          have := g.own.c.bound c i y hy' (user_settler hyu)
          have hcc' : y.chain = m.cores.length := hcc
          omega
        · intro hmem; have := g.own.rootsLt _ hmem; exact Nat.lt_irrefl _ this
        · show stOf (m.cores ++ [({} : Core)]) m.cores.length = .pending
          rw [stOf_append_new]
      · intro hc; simp [Req.isChainer] at hc
    have e2 := ext_thenOn (m.newCore {}).1 p { kind := .user cb ret rej, chain := (m.newCore {}).2 }
    have g2 : Good roots (thenOn (m.newCore {}).1 p { kind := .user cb ret rej, chain := (m.newCore {}).2 }) :=
      ⟨o2, by rw [thenOn_log'']; exact logOK_ext e2 g1.log⟩
    exact good_settleDown g2 (e1.trans e2)
  | resolve p v =>
    simp only [exec, rootsStep]
    split
    · rename_i hst
      have hp : Pending m.cores p := hst
      have o2 := own_fulfilAndWalk (v := v) g.own (g.own.rootsLt p hwf) hp (root_not_doomed g.own.c hwf)
        (fun c0 i0 r0 h0 hu0 hc0 => absurd hc0 (g.own.c.noHolder p hwf c0 i0 r0 h0 hu0))
      have e2 := ext_fulfilAndWalk m p v hp (noSpent_of_not_doomed g.own.c hp (root_not_doomed g.own.c hwf))
      exact good_settleDown ⟨o2, logOK_ext e2 g.log⟩ e2
    · exact ⟨g, Ext.refl _⟩
  | reject p e =>
    simp only [exec, rootsStep]
    split
    · rename_i hst
      have hp : Pending m.cores p := hst
      have o2 := own_rejectAndWalk (e := e) g.own (g.own.rootsLt p hwf) hp
        (fun c0 i0 r0 h0 hu0 hc0 => absurd hc0 (g.own.c.noHolder p hwf c0 i0 r0 h0 hu0))
      have e2 := ext_rejectAndWalk m p e hp (noSpent_of_not_doomed g.own.c hp (root_not_doomed g.own.c hwf))
      exact good_settleDown ⟨o2, logOK_ext e2 g.log⟩ e2
    · exact ⟨g, Ext.refl _⟩
  | whenAll ps =>
    simp only [exec, rootsStep]
    have e1 : Ext m.cores (m.newCore {}).1.cores := ext_newCore m.cores {} rfl
    refine good_settleDown (good_combinator g ps.length _ _ _ ?_) e1
    intro a ha
    simp only [List.mem_map] at ha
    obtain ⟨pi, _, rfl⟩ := ha
    exact ⟨pi.1, _, rfl, rfl, rfl, rfl, by show (m.newCore {}).1.datas.length < m.datas.length + 1; exact Nat.lt_succ_self _⟩
  | whenAny ps =>
    simp only [exec, rootsStep]
    have e1 : Ext m.cores (m.newCore {}).1.cores := ext_newCore m.cores {} rfl
    refine good_settleDown (good_combinator g ps.length _ _ _ ?_) e1
    intro a ha
    simp only [List.mem_map] at ha
    obtain ⟨pi, _, rfl⟩ := ha
    exact ⟨pi, _, rfl, rfl, rfl, rfl, by show (m.newCore {}).1.datas.length < m.datas.length + 1; exact Nat.lt_succ_self _⟩

end Pistache.Promise
