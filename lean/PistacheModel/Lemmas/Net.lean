import PistacheModel.Model.Net

namespace Pistache.Net
open Pistache Pistache.Stream Pistache.Num

/-! ## decimal printing and scanning -/

theorem digitsVal_append_one (ds : Bytes) (d : Nat) : digitsVal (ds ++ [d]) = digitsVal ds * 10 + (d - 48) := by
  simp [digitsVal, List.foldl_append]

theorem natToDec_val (n : Nat) : digitsVal (natToDec n) = n := by
  induction n using Nat.strongRecOn with
  | _ n ih =>
    rw [natToDec]
    split
    · simp [digitsVal]
    · rw [digitsVal_append_one, ih (n / 10) (by omega)]; omega

def AllDigits (ds : Bytes) : Prop := ∀ c ∈ ds, isDigit c = true

theorem natToDec_digits (n : Nat) : AllDigits (natToDec n) := by
  induction n using Nat.strongRecOn with
  | _ n ih =>
    rw [natToDec]
    split
    · intro c hc; simp at hc; subst hc; simp [isDigit]; omega
    · intro c hc
      simp only [List.mem_append, List.mem_cons, List.not_mem_nil, or_false] at hc
      rcases hc with hc | rfl
      · exact ih (n / 10) (by omega) c hc
      · simp [isDigit]; omega

theorem natToDec_ne_nil (n : Nat) : natToDec n ≠ [] := by
  rw [natToDec]; split <;> simp

theorem natToDec_head (n : Nat) (h : 1 ≤ n) : (natToDec n).head? ≠ some 48 := by
  induction n using Nat.strongRecOn with
  | _ n ih =>
    rw [natToDec]
    split
    · simp; omega
    · have hne := natToDec_ne_nil (n / 10)
      have : (natToDec (n / 10) ++ [48 + n % 10]).head? = (natToDec (n / 10)).head? := by
        cases hh : natToDec (n / 10) with
        | nil => exact absurd hh hne
        | cons _ _ => rfl
      rw [this]
      exact ih (n / 10) (by omega) (by omega)

theorem natToDec_len3 (n : Nat) (h : n < 1000) : (natToDec n).length ≤ 3 := by
  rw [natToDec]; split
  · simp
  · rw [natToDec]; split
    · simp
    · rw [natToDec]; split
      · simp
      · omega

theorem natToDec_len_gt1 (n : Nat) (h : 1 < (natToDec n).length) : 1 ≤ n := by
  rw [natToDec] at h; split at h
  · simp at h
  · omega

theorem spanDigits_all (ds : Bytes) (h : AllDigits ds) : spanDigits ds = (ds, []) := by
  induction ds with
  | nil => rfl
  | cons c r ih =>
    have hc := h c (by simp)
    simp only [spanDigits, hc, if_true]
    rw [ih (fun x hx => h x (by simp [hx]))]

theorem spanDigits_stop (ds : Bytes) (h : AllDigits ds) (c : Nat) (r : Bytes) (hc : isDigit c = false) :
    spanDigits (ds ++ c :: r) = (ds, c :: r) := by
  induction ds with
  | nil => simp [spanDigits, hc]
  | cons x xs ih =>
    have hx := h x (by simp)
    simp only [List.cons_append, spanDigits, hx, if_true]
    rw [ih (fun y hy => h y (by simp [hy]))]

theorem dropSpaces_digit (ds : Bytes) (h : AllDigits ds) : dropSpaces ds = ds := by
  cases ds with
  | nil => rfl
  | cons c r =>
    have hc := h c (by simp)
    simp only [isDigit, Bool.and_eq_true, decide_eq_true_eq] at hc
    have hsp : isSpace c = false := by simp [isSpace]; omega
    simp [dropSpaces, hsp]

theorem afterSign_digit (ds : Bytes) (h : AllDigits ds) : afterSign ds = ds ∧ signOf ds = false := by
  cases ds with
  | nil => exact ⟨rfl, rfl⟩
  | cons c r =>
    have hc := h c (by simp)
    simp only [isDigit, Bool.and_eq_true, decide_eq_true_eq] at hc
    constructor
    · unfold afterSign; split <;> first | rfl | (rename_i heq; injection heq with h1 _; omega)
    · unfold signOf; split <;> first | rfl | (rename_i heq; injection heq with h1 _; omega)

/-- strtol on a canonical decimal numeral consumes it entirely and yields its value -/
theorem strtol10_canonical (n : Nat) (hn : n ≤ longMax) : strtol10 (natToDec n) = ((n : Int), []) := by
  have hd := natToDec_digits n
  have hs := afterSign_digit _ hd
  unfold strtol10
  simp only [dropSpaces_digit _ hd, hs.1, hs.2, spanDigits_all _ hd, natToDec_val]
  have hne : (natToDec n).isEmpty = false := by
    cases h : natToDec n with | nil => exact absurd h (natToDec_ne_nil n) | cons _ _ => rfl
  simp [hne]; omega

/-- strtol on any decimal numeral: whole text consumed, value saturates at LONG_MAX -/
theorem strtol10_numeral (n : Nat) :
    strtol10 (natToDec n) = ((if n > longMax then (longMax : Int) else (n : Int)), []) := by
  have hd := natToDec_digits n
  have hs := afterSign_digit _ hd
  unfold strtol10
  simp only [dropSpaces_digit _ hd, hs.1, hs.2, spanDigits_all _ hd, natToDec_val]
  have hne : (natToDec n).isEmpty = false := by
    cases h : natToDec n with | nil => exact absurd h (natToDec_ne_nil n) | cons _ _ => rfl
  simp [hne]

theorem cstr_id (s : Bytes) (h : 0 ∉ s) : cstr s = s := by
  unfold cstr
  induction s with
  | nil => rfl
  | cons x r ih =>
    have hx : x ≠ 0 := fun e => h (by simp [e])
    simp only [List.takeWhile, ne_eq, hx, not_false_eq_true, decide_true]
    rw [ih (fun hm => h (by simp [hm]))]

/-! ## byte search -/

theorem findByte_none (c : Nat) (s : Bytes) (h : c ∉ s) : findByte c s = none := by
  induction s with
  | nil => rfl
  | cons x r ih =>
    have hx : x ≠ c := fun e => h (by simp [e])
    simp only [findByte, hx, if_false]
    rw [ih (fun hm => h (by simp [hm]))]; rfl

theorem findByte_first (c : Nat) (s r : Bytes) (h : c ∉ s) : findByte c (s ++ c :: r) = some s.length := by
  induction s with
  | nil => simp [findByte]
  | cons x xs ih =>
    have hx : x ≠ c := fun e => h (by simp [e])
    simp only [List.cons_append, findByte, hx, if_false, List.length_cons]
    rw [ih (fun hm => h (by simp [hm]))]; rfl

end Pistache.Net
