import PistacheModel.Model.Mime

namespace Pistache.Mime
open Pistache Pistache.Stream Pistache.Num

/-! ## quality values -/

/-- what may follow a quality value in a rendered media type: nothing, or the ';' of a parameter -/
def CleanRest (t : Bytes) : Prop := t = [] ∨ ∃ t', t = 59 :: t'

theorem spanDigits_clean (t : Bytes) (h : CleanRest t) : spanDigits t = ([], t) := by
  rcases h with rfl | ⟨t', rfl⟩ <;> simp [spanDigits, isDigit]

theorem spanDigits_digit (c : Nat) (r : Bytes) (h : isDigit c = true) :
    spanDigits (c :: r) = (c :: (spanDigits r).1, (spanDigits r).2) := by
  simp [spanDigits, h]

theorem afterExp_clean (t : Bytes) (h : CleanRest t) : afterExp t = t ∧ expVal t = 0 := by
  rcases h with rfl | ⟨t', rfl⟩ <;> simp [afterExp, expVal]

theorem parseQ_zero (t : Bytes) (h : CleanRest t) : parseQ (48 :: t) = .ok 0 t := by
  have hs := spanDigits_clean t h
  have he := afterExp_clean t h
  rcases h with rfl | ⟨t', rfl⟩ <;>
    simp [parseQ, strtod, dropSpaces, isSpace, afterSign, startsWithCI, spanDigits, isDigit, fracDigits,
      afterFrac, digitsVal, afterExp, expVal, lower]


theorem parseQ_one (t : Bytes) (h : CleanRest t) : parseQ (49 :: t) = .ok 100 t := by
  rcases h with rfl | ⟨t', rfl⟩ <;>
    simp [parseQ, strtod, dropSpaces, isSpace, afterSign, startsWithCI, spanDigits, isDigit, fracDigits,
      afterFrac, digitsVal, afterExp, expVal, lower, signOf]

theorem parseQ_tenth (d : Nat) (hd : d ≤ 9) (t : Bytes) (h : CleanRest t) :
    parseQ (48 :: 46 :: (48 + d) :: t) = .ok (d * 10) t := by
  have h57 : 48 + d ≤ 57 := by omega
  rcases h with rfl | ⟨t', rfl⟩ <;>
    simp [parseQ, strtod, dropSpaces, isSpace, afterSign, startsWithCI, spanDigits, isDigit, fracDigits,
      afterFrac, digitsVal, afterExp, expVal, lower, signOf, h57]
    <;> (have hle : d * 10 ≤ 100 := by omega
         by_cases h0 : d = 0 <;> simp [h0, hle])

theorem parseQ_hundredth (d1 d2 : Nat) (h1 : d1 ≤ 9) (h2 : d2 ≤ 9) (t : Bytes) (h : CleanRest t) :
    parseQ (48 :: 46 :: (48 + d1) :: (48 + d2) :: t) = .ok (d1 * 10 + d2) t := by
  have h57 : 48 + d1 ≤ 57 := by omega
  have h57' : 48 + d2 ≤ 57 := by omega
  rcases h with rfl | ⟨t', rfl⟩ <;>
    simp [parseQ, strtod, dropSpaces, isSpace, afterSign, startsWithCI, spanDigits, isDigit, fracDigits,
      afterFrac, digitsVal, afterExp, expVal, lower, signOf, h57, h57']
    <;> (have hle : d1 * 10 + d2 ≤ 100 := by omega
         by_cases h0 : d1 * 10 = 0 ∧ d2 = 0
         · have : d1 * 10 + d2 = 0 := by omega
           simp [h0, this]
         · simp [h0, hle])


theorem bytes_q0 : bytes "q=0" = [113, 61, 48] := by decide
theorem bytes_q1 : bytes "q=1" = [113, 61, 49] := by decide
theorem bytes_q0dot : bytes "q=0." = [113, 61, 48, 46] := by decide
theorem bytes_semi : bytes "; " = [59, 32] := by decide

/-- the digits part of `Q::toString` parses back to the same value, whatever clean text follows -/
theorem parseQ_render (v : Nat) (hv : v ≤ 100) (t : Bytes) (h : CleanRest t) :
    parseQ ((qToString v).drop 2 ++ t) = .ok v t := by
  unfold qToString
  by_cases h0 : v = 0
  · subst h0; simp only [if_true, bytes_q0]; exact parseQ_zero t h
  · by_cases h1 : v = 100
    · subst h1; simp only [bytes_q1]; exact parseQ_one t h
    · simp only [h0, h1, if_false]
      by_cases h2 : v % 10 = 0
      · simp only [h2, if_true, bytes_q0dot]
        have := parseQ_tenth (v / 10) (by omega) t h
        have e : v / 10 * 10 = v := by omega
        rw [e] at this
        simpa using this
      · simp only [h2, if_false, bytes_q0dot]
        have := parseQ_hundredth (v / 10) (v % 10) (by omega) (by omega) t h
        have e : v / 10 * 10 + v % 10 = v := by omega
        rw [e] at this
        simpa using this

theorem qToString_prefix (v : Nat) : ∃ ds, qToString v = 113 :: 61 :: ds := by
  unfold qToString
  split
  · exact ⟨[48], by rw [bytes_q0]⟩
  · split
    · exact ⟨[49], by rw [bytes_q1]⟩
    · split
      · exact ⟨_, by rw [bytes_q0dot]; rfl⟩
      · exact ⟨_, by rw [bytes_q0dot]; rfl⟩

/-! ## table matching -/

def ciPrefixB (a b : Bytes) : Bool := a.length ≤ b.length && (b.take a.length).map lower == a.map lower

/-- no two table strings are prefix-comparable (case-insensitively): the table-only condition under
    which "first match wins" finds the intended entry whatever text follows it -/
def noClash : List Bytes → Bool
  | [] => true
  | e :: es => es.all (fun t => !ciPrefixB e t && !ciPrefixB t e) && noClash es

theorem matchStringCI_hit (t t' rest : Bytes) (h : t'.map lower = t.map lower) :
    matchStringCI t (t' ++ rest) = some rest := by
  have hl : t'.length = t.length := by simpa using congrArg List.length h
  unfold matchStringCI
  rw [if_neg (by simp [List.length_append]; omega)]
  rw [← hl, List.take_left, List.drop_left, if_pos h]

theorem matchStringCI_miss (e t t' rest : Bytes) (h : t'.map lower = t.map lower)
    (h1 : ciPrefixB e t = false) (h2 : ciPrefixB t e = false) : matchStringCI e (t' ++ rest) = none := by
  have hl : t'.length = t.length := by simpa using congrArg List.length h
  unfold matchStringCI
  split
  · rfl
  · rename_i hlen
    split
    · rename_i heq
      exfalso
      by_cases hc : e.length ≤ t.length
      · -- e would be a prefix of t
        have : (t.take e.length).map lower = e.map lower := by
          rw [← heq, List.take_append_of_le_length (by omega), List.map_take, List.map_take, h]
        simp [ciPrefixB, hc, this] at h1
      · -- t would be a prefix of e
        have hc' : t.length ≤ e.length := by omega
        have : (e.take t.length).map lower = t.map lower := by
          rw [List.map_take, ← heq, List.map_take, List.take_take, Nat.min_eq_left hc', List.map_append, ← h]
          have hl2 : t.length = (t'.map lower).length := by simp [hl]
          rw [hl2, List.take_left]
        simp [ciPrefixB, hc', this] at h2
    · rfl

theorem matchTable_hit (tbl : List Bytes) (i0 j : Nat) (t' rest : Bytes) (hnc : noClash tbl = true)
    (hj : j < tbl.length) (h : t'.map lower = (tbl.getD j []).map lower) :
    matchTable tbl i0 (t' ++ rest) = some (i0 + j, rest) := by
  induction tbl generalizing i0 j with
  | nil => simp at hj
  | cons e es ih =>
    simp only [noClash, Bool.and_eq_true, List.all_eq_true] at hnc
    cases j with
    | zero =>
      simp only [List.getD_cons_zero] at h
      simp only [matchTable, matchStringCI_hit e t' rest h, Nat.add_zero]
    | succ j =>
      simp only [List.getD_cons_succ] at h
      have hj' : j < es.length := by simpa using hj
      have hmem : es.getD j [] ∈ es := by
        have : es.getD j [] = es[j] := by simp [List.getD, List.getElem?_eq_getElem hj']
        rw [this]; exact List.getElem_mem hj'
      have hc := hnc.1 _ hmem
      simp only [Bool.and_eq_true, Bool.not_eq_true'] at hc
      simp only [matchTable, matchStringCI_miss e _ t' rest h hc.1 hc.2]
      rw [ih (i0 + 1) j hnc.2 hj' h]
      congr 2; omega


/-! ## parameters -/

/-- characters that need no escaping inside a parameter key or value -/
def TokChar (c : Nat) : Prop := 33 ≤ c ∧ c ≤ 126 ∧ c ≠ 59 ∧ c ≠ 61
def Tok (s : Bytes) : Prop := s ≠ [] ∧ ∀ c ∈ s, TokChar c
/-- a key the parser does not mistake for a quality value -/
def KeyOk (k : Bytes) : Prop := Tok k ∧ lower (k.headD 0) ≠ 113

theorem splitUntil_stop (chars : List Nat) (s rest : Bytes) (hs : ∀ c ∈ s, (chars.map lower).contains c = false)
    (hr : rest = [] ∨ ∃ c r, rest = c :: r ∧ (chars.map lower).contains c = true) :
    splitUntil chars (s ++ rest) = (s, rest) := by
  induction s with
  | nil =>
    rcases hr with rfl | ⟨c, r, rfl, hc⟩
    · rfl
    · simp only [List.nil_append, splitUntil, hc, if_true]
  | cons c s ih =>
    have hc := hs c (by simp)
    simp only [List.cons_append, splitUntil, hc]
    rw [ih (fun x hx => hs x (by simp [hx]))]
    rfl

theorem renderParams_clean (ps : List (Bytes × Bytes)) : CleanRest (renderParams ps) := by
  cases ps with
  | nil => left; rfl
  | cons p ps => right; obtain ⟨k, v⟩ := p; exact ⟨32 :: (k ++ 61 :: (v ++ renderParams ps)), by simp [renderParams, bytes_semi]⟩

theorem signed_tok (c : Nat) (h : TokChar c) : signed c ≠ -1 ∧ signed c ≠ 0 := by
  unfold signed; obtain ⟨h1, h2, _, _⟩ := h
  rw [if_pos (by omega)]; omega

theorem insertParam_new (acc : List (Bytes × Bytes)) (k v : Bytes) (h : ∀ p ∈ acc, p.1 ≠ k) :
    insertParam acc k v = acc ++ [(k, v)] := by
  unfold insertParam
  rw [if_neg]
  simp only [List.any_eq_true, beq_iff_eq, not_exists, not_and]
  intro p hp; exact h p hp

theorem paramLoop_params (ps : List (Bytes × Bytes)) :
    ∀ (acc : List (Bytes × Bytes)) (q0 : Option Nat) (fuel : Nat),
      (∀ p ∈ ps, KeyOk p.1 ∧ Tok p.2) →
      ((acc ++ ps).map (·.1)).Nodup →
      (renderParams ps).length + 1 ≤ fuel →
      paramLoop fuel (renderParams ps) q0 acc = .ok (q0, acc ++ ps) := by
  induction ps with
  | nil =>
    intro acc q0 fuel _ _ hf
    obtain ⟨f, rfl⟩ : ∃ f, fuel = f + 1 := ⟨fuel - 1, by omega⟩
    simp [renderParams, paramLoop]
  | cons p ps ih =>
    intro acc q0 fuel hps hnd hf
    obtain ⟨k, v⟩ := p
    obtain ⟨⟨⟨hkne, hkc⟩, hkq⟩, ⟨hvne, hvc⟩⟩ := hps (k, v) (by simp)
    obtain ⟨k0, k', rfl⟩ : ∃ k0 k', k = k0 :: k' := by
      cases k with | nil => exact absurd rfl hkne | cons a b => exact ⟨a, b, rfl⟩
    obtain ⟨v0, v', rfl⟩ : ∃ v0 v', v = v0 :: v' := by
      cases v with | nil => exact absurd rfl hvne | cons a b => exact ⟨a, b, rfl⟩
    have hk0 := hkc k0 (by simp)
    have hv0 := hvc v0 (by simp)
    simp only [renderParams, bytes_semi, List.cons_append, List.nil_append, List.length_cons,
      List.length_append] at hf ⊢
    obtain ⟨f, rfl⟩ : ∃ f, fuel = f + 3 := ⟨fuel - 3, by omega⟩
    -- ';'
    have n1 : next (59 :: 32 :: k0 :: (k' ++ 61 :: v0 :: (v' ++ renderParams ps))) = 32 := by simp [next, signed]
    -- ' '
    have n2 : next (32 :: k0 :: (k' ++ 61 :: v0 :: (v' ++ renderParams ps))) = signed k0 := by simp [next]
    have sk := signed_tok k0 hk0
    have sv := signed_tok v0 hv0
    have hk0' : ¬ (k0 = 59 ∨ k0 = 32) := by obtain ⟨a, b, c, d⟩ := hk0; omega
    have hkq' : lower k0 ≠ 113 := by simpa using hkq
    have hsplitk : splitUntil [61] (k0 :: (k' ++ 61 :: v0 :: (v' ++ renderParams ps))) =
        (k0 :: k', 61 :: v0 :: (v' ++ renderParams ps)) := by
      have := splitUntil_stop [61] (k0 :: k') (61 :: v0 :: (v' ++ renderParams ps))
        (by intro c hc; have := hkc c hc; simp [lower]; exact this.2.2.2)
        (Or.inr ⟨61, _, rfl, by simp [lower]⟩)
      simpa using this
    have hsplitv : splitUntil [32, 59] (v0 :: (v' ++ renderParams ps)) = (v0 :: v', renderParams ps) := by
      have := splitUntil_stop [32, 59] (v0 :: v') (renderParams ps)
        (by intro c hc; have := hvc c hc; obtain ⟨a, b, c', d⟩ := this; simp [lower]; omega)
        (by rcases renderParams_clean ps with h | ⟨t, h⟩
            · left; exact h
            · right; exact ⟨59, t, h, by simp [lower]⟩)
      simpa using this
    have hnew : ∀ p ∈ acc, p.1 ≠ k0 :: k' := by
      intro p hp heq
      simp only [List.map_append, List.map_cons] at hnd
      have := (List.nodup_append.mp hnd).2.2 p.1 (List.mem_map_of_mem hp) (k0 :: k') (by simp)
      exact this heq
    have hnd' : (((acc ++ [(k0 :: k', v0 :: v')]) ++ ps).map (·.1)).Nodup := by
      simpa [List.append_assoc] using hnd
    have ihh := ih (acc ++ [(k0 :: k', v0 :: v')]) q0 f (fun p hp => hps p (by simp [hp])) hnd' (by omega)
    simp only [paramLoop, true_or, or_true, if_true, n1, n2, sk.1, sk.2, or_self, if_false, hk0', hkq',
      hsplitk, List.isEmpty_cons, Bool.false_eq_true, next, sv.1, sv.2, List.drop_succ_cons, List.drop_zero, hsplitv,
      insertParam_new acc _ _ hnew, ihh, List.append_assoc, List.cons_append, List.nil_append]
    simp [signed]


/-! ## consumed input only shrinks (termination bookkeeping of the parameter loop) -/

theorem spanDigits_len (s : Bytes) : (spanDigits s).2.length ≤ s.length := by
  induction s with
  | nil => simp [spanDigits]
  | cons c r ih => simp only [spanDigits]; split <;> simp <;> omega

theorem dropSpaces_len (s : Bytes) : (dropSpaces s).length ≤ s.length := by
  induction s with
  | nil => simp [dropSpaces]
  | cons c r ih => simp only [dropSpaces]; split <;> simp <;> omega

theorem afterSign_len (s : Bytes) : (afterSign s).length ≤ s.length := by
  unfold afterSign; split <;> simp

theorem afterFrac_len (s : Bytes) : (afterFrac s).length ≤ s.length := by
  unfold afterFrac; split
  · have := spanDigits_len ‹_›; simp; omega
  · simp

theorem afterExp_len (s : Bytes) : (afterExp s).length ≤ s.length := by
  unfold afterExp; split
  · split
    · rename_i c r _
      have h1 := spanDigits_len (afterSign r)
      have h2 := afterSign_len r
      simp; omega
    · simp
  · simp

theorem strtod_rest_len (s : Bytes) (d : DecFloat) (h : strtod s = .dec d) : d.rest.length ≤ s.length := by
  unfold strtod at h
  simp only [] at h
  split at h
  · cases h
  · split at h
    · cases h
    · split at h
      · cases h
      · cases h
        simp only []
        have h1 := afterExp_len (afterFrac (spanDigits (afterSign (dropSpaces s))).2)
        have h2 := afterFrac_len (spanDigits (afterSign (dropSpaces s))).2
        have h3 := spanDigits_len (afterSign (dropSpaces s))
        have h4 := afterSign_len (dropSpaces s)
        have h5 := dropSpaces_len s
        omega

theorem parseQ_rest_len (s : Bytes) (q : Nat) (r : Bytes) (h : parseQ s = .ok q r) : r.length ≤ s.length := by
  unfold parseQ at h
  cases hs : strtod s with
  | noConv => rw [hs] at h; cases h
  | unspec => rw [hs] at h; cases h
  | nonfinite => rw [hs] at h; cases h
  | dec d =>
    rw [hs] at h
    have hl := strtod_rest_len s d hs
    simp only [] at h
    repeat' split at h
    all_goals first | exact hl | (cases h; exact hl) | cases h

theorem splitUntil_snd_len (chars : List Nat) (s : Bytes) : (splitUntil chars s).2.length ≤ s.length := by
  have := congrArg List.length (splitUntil_append chars s)
  simp only [List.length_append] at this; omega

end Pistache.Mime
