/-
The combinator bookkeeping invariant (Lemmas/PromiseData.lean) is kept by every machine step: in particular the
internal Resolver / Rejection of a combinator always finds its target pending, the abort flag is never raised.
-/
import PistacheModel.Lemmas.PromiseData

namespace Pistache.Promise

variable {roots prog : List Nat}

/-- settling the target of the (now closed) block `d0` -/
theorem data_fire_resolve {m : M} {d0 : Nat} {dd0 : Data} {v : Int} (o : Own roots m) (h : DataOK roots prog m)
    (hl : m.datas[d0]? = some dd0) (hclosed : dd0.rejected = true ∨ dd0.resolved = dd0.total) (hp : Pending m.cores dd0.target) :
    DataOK roots prog (resolverOn m dd0.target v) := by
  rw [resolverOn_pending m _ v hp]
  have hroot : dd0.target ∈ roots := o.dTarget dd0 (List.mem_of_getElem? hl)
  refine data_fulfilAndWalk h hp (root_not_doomed o.c hroot) ?_
  intro d dd hd ht
  have := h.tgtDistinct d d0 dd dd0 hd hl ht
  subst this
  rw [hl] at hd; cases hd
  exact hclosed

theorem data_fire_reject {m : M} {d0 : Nat} {dd0 : Data} {e : Nat} (h : DataOK roots prog m)
    (hl : m.datas[d0]? = some dd0) (hclosed : dd0.rejected = true ∨ dd0.resolved = dd0.total) (hp : Pending m.cores dd0.target) :
    DataOK roots prog (rejectionOn m dd0.target e) := by
  rw [rejectionOn_pending m _ e hp]
  refine data_rejectAndWalk h hp ?_
  intro d dd hd ht
  have := h.tgtDistinct d d0 dd dd0 hd hl ht
  subst this
  rw [hl] at hd; cases hd
  exact hclosed

/-- a derived core (the chain of a user continuation or of its chainer) is nobody's combinator target -/
theorem chain_not_target {m : M} (o : Own roots m) {c i : Nat} {r : Req} (hr : rq m.cores c i = some r) (hu : r.isUser = true) :
    ∀ (d : Nat) (dd : Data), m.datas[d]? = some dd → dd.target = r.chain → dd.rejected = true ∨ dd.resolved = dd.total := by
  intro d dd hd ht
  exact absurd ht.symm (o.c.noHolder dd.target (o.dTarget dd (List.mem_of_getElem? hd)) c i r hr hu)

theorem data_stepResolve (m : M) (c i : Nat) (o : Own roots m) (h : DataOK roots prog m) (hf : Fulfilled m.cores c) :
    DataOK roots prog (stepResolve m c i) := by
  unfold stepResolve
  simp only
  split
  · exact h
  · rename_i r hget
    split
    · exact h
    · rename_i hrc'
      have hrc : r.rc = 0 := by omega
      have hget : rq m.cores c i = some r := hget
      have hnoj : r.settler = true → ¬ 1 ≤ r.jc := fun hs hj => fulfilled_not_rejOK hf (o.c.jcOK c i r hget hs hj)
      generalize (m.core c).st.val = arg
      obtain ⟨r', hr'⟩ : ∃ r', r' = ({ r with rc := r.rc + 1 } : Req) := ⟨_, rfl⟩
      have hk' : r'.kind = r.kind := by rw [hr']
      have hch' : r'.chain = r.chain := by rw [hr']
      have hrc1 : r'.rc = r.rc + 1 := by rw [hr']
      have hjc' : r'.jc = r.jc := by rw [hr']
      rw [← hr']
      have u := reqUpd_setReq m.cores c i r r' hget
      have hb : Own roots (m.setCore c (setReq (m.core c) i r')) :=
        own_setReq o hget hk' hch' (by omega) (by omega) (fun _ _ => hf) (fun hs hj => o.c.jcOK c i r hget hs (by omega))
      have hget1 : rq (m.setCore c (setReq (m.core c) i r')).cores c i = some r' := u.new
      cases hk : r.kind with
      | user cb ret rej =>
        have hu : r.isUser = true := isUser_of_kind hk
        have hu' : r'.isUser = true := by rw [isUser_congr hk']; exact hu
        have d1 : DataOK roots prog (m.setCore c (setReq (m.core c) i r')) :=
          data_setReq h hget hk' hch' (by omega) (by omega) (fun _ => hf) (fun hj => h.inJc c i r hget (by omega))
            (fun d _ _ _ => fAllR_settler hk' (user_settler hu))
        simp only
        cases ret with
        | value d =>
          simp only
          have hp0 : Pending m.cores r.chain := holder_chain_pending o.c hget hu (by omega) (by omega) (fun hh => hnoj (user_settler hu) hh.2)
          have hp1 : Pending (m.setCore c (setReq (m.core c) i r')).cores r.chain := pending_of_st (u.st _) hp0
          refine data_fulfilAndWalk (data_log _ d1) hp1 ?_ ?_
          · rintro ⟨_, c0, i0, r0, h0, hu0, hc0, hj0⟩
            have := holder_unique hb.c hget1 hu' h0 hu0 (by rw [hc0, hch'])
            subst this
            exact hnoj (user_settler hu) (by omega)
          · have := chain_not_target hb hget1 hu'
            rw [hch'] at this
            exact this
        | void => exact data_log _ d1
        | promise q =>
          simp only
          exact data_thenOn_plain _ q _ ⟨rfl, rfl⟩ (by simp [Req.settler, Req.isChainer]) (data_log _ d1)
      | chainer =>
        have hc : r.isChainer = true := isChainer_of_kind hk
        have hc' : r'.isChainer = true := by rw [isChainer_congr hk']; exact hc
        have d1 : DataOK roots prog (m.setCore c (setReq (m.core c) i r')) :=
          data_setReq h hget hk' hch' (by omega) (by omega) (fun _ => hf) (fun hj => h.inJc c i r hget (by omega))
            (fun d _ _ _ => fAllR_settler hk' (chainer_settler hc))
        simp only
        have hp0 : Pending m.cores r.chain := chainer_chain_pending o.c hget hc (by omega) (hnoj (chainer_settler hc))
        have hp1 : Pending (m.setCore c (setReq (m.core c) i r')).cores r.chain := pending_of_st (u.st _) hp0
        refine data_fulfilAndWalk d1 hp1 ?_ ?_
        · intro hd
          have hd0 : Doomed m.cores r.chain := by
            obtain ⟨_, c0, i0, r0, h0, hu0, hc0, hj0⟩ := hd
            obtain ⟨y0, hy0, hyk, hych, _, hyj, hne, heq⟩ := u.back hk' hch' (by omega) (by omega) h0
            by_cases hpos : c0 = c ∧ i0 = i
            · have := (heq hpos).1; subst this
              rw [user_not_chainer hu0] at hc'; cases hc'
            · have := hne hpos; subst this
              exact ⟨hp0, c0, i0, y0, hy0, hu0, hc0, hj0⟩
          exact chainer_chain_not_doomed o.c hget hc hd0
        · -- the chainer's core is the derived core of a user continuation: not a combinator target
          obtain ⟨c1, i1, r1, h1, hu1, hc1, _, _⟩ := hb.c.prov c i r' hget1 hc'
          have := chain_not_target hb h1 hu1
          rw [hc1, hch'] at this
          exact this
      | allInput d idx =>
        have hd : d < m.datas.length := by have := o.dReq c i r hget; unfold DataIn at this; rw [hk] at this; exact this
        have hisAll : isAll d r = true := isAll_of_kind hk
        simp only
        split
        · -- the block is closed already: only the counter ticks
          rename_i hclosed
          refine data_setReq h hget hk' hch' (by omega) (by omega) (fun _ => hf) (fun hj => h.inJc c i r hget (by omega)) ?_
          intro k dd hkk hopen
          have hne : k ≠ d := by
            intro e; subst e
            rw [data_lookup m k hd] at hkk; cases hkk
            have hcl : (m.data k).rejected = true := hclosed
            rw [hcl] at hopen; cases hopen
          unfold fAllR; rw [isAll_congr hk', isAll_other hisAll hne]; rfl
        · rename_i hopen'
          have hopen : (m.data d).rejected = false := by
            have : ¬ (m.data d).rejected = true := hopen'
            cases hh : (m.data d).rejected <;> simp_all
          have d2 := data_bumpAll h hget hisAll hrc hf hd hopen ((m.data d).results ++ [(idx, arg)])
          rw [← hr'] at d2
          have o2 : Own roots ((m.setCore c (setReq (m.core c) i r')).setData d { m.data d with results := (m.data d).results ++ [(idx, arg)], resolved := (m.data d).resolved + 1 }) :=
            own_setData hb (o.dTarget (m.data d) (data_mem m d hd))
          split
          · rename_i hlast
            have hlast' : (m.data d).resolved + 1 = (m.data d).total := hlast
            have hp0 := target_pending_all_complete h hd hopen hlast'
            have hlk : ((m.setCore c (setReq (m.core c) i r')).setData d { m.data d with results := (m.data d).results ++ [(idx, arg)], resolved := (m.data d).resolved + 1 }).datas[d]?
                = some { m.data d with results := (m.data d).results ++ [(idx, arg)], resolved := (m.data d).resolved + 1 } := by
              show (m.datas.set d _)[d]? = _; exact List.getElem?_set_self hd
            exact data_fire_resolve (dd0 := { m.data d with results := (m.data d).results ++ [(idx, arg)], resolved := (m.data d).resolved + 1 }) o2 d2 hlk (Or.inr hlast') (pending_of_st (u.st _) hp0)
          · exact d2
      | anyInput d =>
        have hd : d < m.datas.length := by have := o.dReq c i r hget; unfold DataIn at this; rw [hk] at this; exact this
        have hisAny : isAny d r = true := isAny_of_kind hk
        have d1 : DataOK roots prog (m.setCore c (setReq (m.core c) i r')) :=
          data_setReq h hget hk' hch' (by omega) (by omega) (fun _ => hf) (fun hj => h.inJc c i r hget (by omega))
            (fun k _ _ _ => by unfold fAllR; rw [isAll_congr hk', isAll_of_any hk]; rfl)
        simp only
        split
        · exact d1
        · rename_i hopen'
          have hopen : (m.data d).rejected = false := by
            have : ¬ (m.data d).rejected = true := hopen'
            cases hh : (m.data d).rejected <;> simp_all
          have hp0 := target_pending_any h hd hopen hget hisAny
          have d2 := data_setFlag (d0 := d) d1 hd
          have o2 : Own roots ((m.setCore c (setReq (m.core c) i r')).setData d { m.data d with rejected := true }) :=
            own_setData hb (o.dTarget (m.data d) (data_mem m d hd))
          have hlk : ((m.setCore c (setReq (m.core c) i r')).setData d { m.data d with rejected := true }).datas[d]? = some { m.data d with rejected := true } := by
            show (m.datas.set d _)[d]? = _; exact List.getElem?_set_self hd
          exact data_fire_resolve (dd0 := { m.data d with rejected := true }) o2 d2 hlk (Or.inl rfl) (pending_of_st (u.st _) hp0)

theorem data_pushWalkRej {m : M} {d n : Nat} (h : DataOK roots prog m) : DataOK roots prog { m with stack := walk Act.rejectReq d n ++ m.stack } :=
  data_push _ (fun k => ⟨sAll_walk k _ (fun _ _ => rfl) d n m.stack, sAny_walk k _ (fun _ _ => rfl) d n m.stack⟩) h

theorem data_stepReject (m : M) (c i : Nat) (o : Own roots m) (h : DataOK roots prog m) (hrej : RejOK m.cores c) :
    DataOK roots prog (stepReject m c i) := by
  unfold stepReject
  simp only
  split
  · exact h
  · rename_i r hget
    split
    · exact h
    · rename_i hjc'
      have hjc : r.jc = 0 := by omega
      have hget : rq m.cores c i = some r := hget
      have hnor : ¬ 1 ≤ r.rc := fun hj => fulfilled_not_rejOK (h.inRc c i r hget hj) hrej
      generalize (m.core c).st.exc = e
      obtain ⟨r', hr'⟩ : ∃ r', r' = ({ r with jc := r.jc + 1 } : Req) := ⟨_, rfl⟩
      have hk' : r'.kind = r.kind := by rw [hr']
      have hch' : r'.chain = r.chain := by rw [hr']
      have hrc' : r'.rc = r.rc := by rw [hr']
      have hjc1 : r'.jc = r.jc + 1 := by rw [hr']
      rw [← hr']
      clear hr'
      have u := reqUpd_setReq m.cores c i r r' hget
      have hb : Own roots (m.setCore c (setReq (m.core c) i r')) :=
        own_setReq o hget hk' hch' (by omega) (by omega) (fun hs hj => o.c.rcOK c i r hget hs (by omega)) (fun _ _ => hrej)
      have hget1 : rq (m.setCore c (setReq (m.core c) i r')).cores c i = some r' := u.new
      have d1 : DataOK roots prog (m.setCore c (setReq (m.core c) i r')) :=
        data_setReq h hget hk' hch' (by omega) (by omega) (fun hj => h.inRc c i r hget (by omega)) (fun _ => hrej)
          (fun d _ _ _ => fAllR_congr hk' hrc')
      cases hk : r.kind with
      | user cb ret rej =>
        have hu : r.isUser = true := isUser_of_kind hk
        have hu' : r'.isUser = true := by rw [isUser_congr hk']; exact hu
        simp only
        cases rej with
        | rethrow =>
          simp only
          have hp0 : Pending m.cores r.chain := holder_chain_pending o.c hget hu (fun hh => hnor hh.2) (fun hh => hnor hh.2) (by omega)
          refine data_rejectAndWalk d1 (pending_of_st (u.st _) hp0) ?_
          have := chain_not_target hb hget1 hu'
          rw [hch'] at this
          exact this
        | ignore =>
          cases ret with
          | value d => exact data_pushWalkRej d1
          | void => exact d1
          | promise q => exact data_pushWalkRej d1
        | custom cb' =>
          cases ret with
          | value d => simp only; exact data_congr (by rfl) (by rfl) (by rfl) (by rfl) (data_pushWalkRej (n := ((m.setCore c (setReq (m.core c) i r')).core r.chain).reqs.length) (d := r.chain) d1)
          | void => exact data_log _ d1
          | promise q => simp only; exact data_congr (by rfl) (by rfl) (by rfl) (by rfl) (data_pushWalkRej (n := (m.core c).reqs.length) (d := c) d1)
      | chainer =>
        have hc : r.isChainer = true := isChainer_of_kind hk
        have hc' : r'.isChainer = true := by rw [isChainer_congr hk']; exact hc
        simp only
        have hp0 : Pending m.cores r.chain := chainer_chain_pending o.c hget hc hnor (by omega)
        refine data_rejectAndWalk d1 (pending_of_st (u.st _) hp0) ?_
        obtain ⟨c1, i1, r1, h1, hu1, hc1, _, _⟩ := hb.c.prov c i r' hget1 hc'
        have := chain_not_target hb h1 hu1
        rw [hc1, hch'] at this
        exact this
      | allInput d idx =>
        have hd : d < m.datas.length := by have := o.dReq c i r hget; unfold DataIn at this; rw [hk] at this; exact this
        have hisAll : isAll d r = true := isAll_of_kind hk
        simp only
        split
        · exact d1
        · rename_i hopen'
          have hopen : (m.data d).rejected = false := by
            have : ¬ (m.data d).rejected = true := hopen'
            cases hh : (m.data d).rejected <;> simp_all
          have hp0 := target_pending_all_reject h hd hopen hget hisAll hrej
          have d2 := data_setFlag (d0 := d) d1 hd
          have hlk : ((m.setCore c (setReq (m.core c) i r')).setData d { m.data d with rejected := true }).datas[d]? = some { m.data d with rejected := true } := by
            show (m.datas.set d _)[d]? = _; exact List.getElem?_set_self hd
          exact data_fire_reject (dd0 := { m.data d with rejected := true }) d2 hlk (Or.inl rfl) (pending_of_st (u.st _) hp0)
      | anyInput d =>
        have hd : d < m.datas.length := by have := o.dReq c i r hget; unfold DataIn at this; rw [hk] at this; exact this
        have hisAny : isAny d r = true := isAny_of_kind hk
        simp only
        split
        · exact d1
        · rename_i hopen'
          have hopen : (m.data d).rejected = false := by
            have : ¬ (m.data d).rejected = true := hopen'
            cases hh : (m.data d).rejected <;> simp_all
          have hp0 := target_pending_any h hd hopen hget hisAny
          have d2 := data_setFlag (d0 := d) d1 hd
          have hlk : ((m.setCore c (setReq (m.core c) i r')).setData d { m.data d with rejected := true }).datas[d]? = some { m.data d with rejected := true } := by
            show (m.datas.set d _)[d]? = _; exact List.getElem?_set_self hd
          exact data_fire_reject (dd0 := { m.data d with rejected := true }) d2 hlk (Or.inl rfl) (pending_of_st (u.st _) hp0)

theorem data_step (m : M) (o : Own roots m) (h : DataOK roots prog m) : DataOK roots prog (step m) := by
  rw [step_eq]
  split
  · exact h
  · rename_i p r rest hst
    have ha := o.s (.attach p r) (by rw [hst]; exact List.mem_cons_self)
    refine data_thenOn { m with stack := rest } p r ⟨ha.2.1, ha.2.2⟩ ?_
    exact data_congr (m := m) (by rfl) (by show Act.attach p r :: rest = m.stack; rw [hst]) (by rfl) (by rfl) h
  · rename_i c i rest hst
    have ha := o.s (.resolveReq c i) (by rw [hst]; exact List.mem_cons_self)
    have hpop : Own roots { m with stack := rest } := own_stack rest o (stackOK_cons (hst ▸ o.s)) (stackData_cons (hst ▸ o.dStack))
    exact data_stepResolve _ c i hpop (data_pop hst h) ha
  · rename_i c i rest hst
    have ha := o.s (.rejectReq c i) (by rw [hst]; exact List.mem_cons_self)
    have hpop : Own roots { m with stack := rest } := own_stack rest o (stackOK_cons (hst ▸ o.s)) (stackData_cons (hst ▸ o.dStack))
    exact data_stepReject _ c i hpop (data_pop hst h) ha

theorem data_run (fuel : Nat) (m : M) (o : Own roots m) (h : DataOK roots prog m) : DataOK roots prog (run fuel m) := by
  induction fuel generalizing m with
  | zero => exact h
  | succ f ih =>
    unfold run
    split
    · exact h
    · exact ih _ (own_step m o) (data_step m o h)

/-- the cascade of an operation never raises an internal error -/
theorem settleDown_not_thrown (m : M) (o : Own roots m) (h : DataOK roots prog m) : (settleDown m).2 = false :=
  (data_run (fuelFor m) m o h).noAbort

end Pistache.Promise
