/-
A data block of a combinator, once created, stays where it is and keeps its combined promise and its (ghost)
argument list and kind: the machine only ever touches the counters, the flag and the recorded results.
Purely structural — no invariant is needed.
-/
import PistacheModel.Lemmas.PromiseValProgram

namespace Pistache.Promise

def DKeep (ds ds' : List Data) : Prop :=
  ∀ (d : Nat) (dd : Data), ds[d]? = some dd → ∃ dd', ds'[d]? = some dd' ∧ dd'.target = dd.target ∧ dd'.inputs = dd.inputs ∧ dd'.anyKind = dd.anyKind

theorem dkeep_refl (ds : List Data) : DKeep ds ds := fun _ dd h => ⟨dd, h, rfl, rfl, rfl⟩

theorem dkeep_of_eq {ds ds' : List Data} (h : ds' = ds) : DKeep ds ds' := by subst h; exact dkeep_refl _

theorem dkeep_trans {a b c : List Data} (h1 : DKeep a b) (h2 : DKeep b c) : DKeep a c := by
  intro d dd h
  obtain ⟨x, hx, e1, e2, e3⟩ := h1 d dd h
  obtain ⟨y, hy, f1, f2, f3⟩ := h2 d x hx
  exact ⟨y, hy, by rw [f1, e1], by rw [f2, e2], by rw [f3, e3]⟩

theorem dkeep_append (ds : List Data) (x : Data) : DKeep ds (ds ++ [x]) := by
  intro d dd hd
  have hlt : d < ds.length := by
    rcases Nat.lt_or_ge d ds.length with h | h
    · exact h
    · rw [List.getElem?_eq_none h] at hd; cases hd
  exact ⟨dd, by rw [List.getElem?_append_left hlt]; exact hd, rfl, rfl, rfl⟩

theorem dkeep_setData (m : M) (d0 : Nat) (x : Data) (ht : x.target = (m.data d0).target) (hi : x.inputs = (m.data d0).inputs)
    (ha : x.anyKind = (m.data d0).anyKind) : DKeep m.datas (m.setData d0 x).datas := by
  intro d dd hd
  by_cases hdd : d = d0
  · subst hdd
    have hlt : d < m.datas.length := by
      rcases Nat.lt_or_ge d m.datas.length with h | h
      · exact h
      · rw [List.getElem?_eq_none h] at hd; cases hd
    have : m.data d = dd := by
      have := data_lookup m d hlt
      rw [hd] at this; cases this; rfl
    rw [this] at ht hi ha
    exact ⟨x, by show (m.datas.set d x)[d]? = some x; exact List.getElem?_set_self hlt, ht, hi, ha⟩
  · exact ⟨dd, by show (m.datas.set d0 x)[d]? = some dd; rw [List.getElem?_set_ne (Ne.symm hdd)]; exact hd, rfl, rfl, rfl⟩

theorem resolverOn_datas (m : M) (c : Nat) (v : Int) : (resolverOn m c v).datas = m.datas := by
  unfold resolverOn; split <;> rfl
theorem rejectionOn_datas (m : M) (c : Nat) (e : Nat) : (rejectionOn m c e).datas = m.datas := by
  unfold rejectionOn; split <;> rfl

theorem stepResolve_keep (m : M) (c i : Nat) : DKeep m.datas (stepResolve m c i).datas := by
  unfold stepResolve
  simp only
  split
  · exact dkeep_refl _
  · rename_i r _
    split
    · exact dkeep_refl _
    · cases hk : r.kind with
      | user cb ret rej =>
        simp only
        cases ret with
        | value d => exact dkeep_refl _
        | void => exact dkeep_refl _
        | promise q => simp only; rw [thenOn_datas]; exact dkeep_refl _
      | chainer => exact dkeep_refl _
      | allInput d idx =>
        simp only
        split
        · exact dkeep_refl _
        · split
          · rw [resolverOn_datas]
            exact dkeep_setData (m.setCore c (setReq (m.core c) i { r with rc := r.rc + 1 })) d _ rfl rfl rfl
          · exact dkeep_setData (m.setCore c (setReq (m.core c) i { r with rc := r.rc + 1 })) d _ rfl rfl rfl
      | anyInput d =>
        simp only
        split
        · exact dkeep_refl _
        · rw [resolverOn_datas]
          exact dkeep_setData (m.setCore c (setReq (m.core c) i { r with rc := r.rc + 1 })) d _ rfl rfl rfl

theorem stepReject_keep (m : M) (c i : Nat) : DKeep m.datas (stepReject m c i).datas := by
  unfold stepReject
  simp only
  split
  · exact dkeep_refl _
  · rename_i r _
    split
    · exact dkeep_refl _
    · cases hk : r.kind with
      | user cb ret rej =>
        simp only
        cases rej with
        | rethrow => exact dkeep_refl _
        | ignore => cases ret <;> exact dkeep_refl _
        | custom cb' => cases ret <;> exact dkeep_refl _
      | chainer => exact dkeep_refl _
      | allInput d idx =>
        simp only
        split
        · exact dkeep_refl _
        · rw [rejectionOn_datas]
          exact dkeep_setData (m.setCore c (setReq (m.core c) i { r with jc := r.jc + 1 })) d _ rfl rfl rfl
      | anyInput d =>
        simp only
        split
        · exact dkeep_refl _
        · rw [rejectionOn_datas]
          exact dkeep_setData (m.setCore c (setReq (m.core c) i { r with jc := r.jc + 1 })) d _ rfl rfl rfl

theorem step_keep (m : M) : DKeep m.datas (step m).datas := by
  rw [step_eq]
  split
  · exact dkeep_refl _
  · rw [thenOn_datas]; exact dkeep_refl _
  · rename_i c i rest _; exact stepResolve_keep { m with stack := rest } c i
  · rename_i c i rest _; exact stepReject_keep { m with stack := rest } c i

theorem run_keep (fuel : Nat) (m : M) : DKeep m.datas (run fuel m).datas := by
  induction fuel generalizing m with
  | zero => exact dkeep_refl _
  | succ f ih =>
    unfold run
    split
    · exact dkeep_refl _
    · exact dkeep_trans (step_keep m) (ih _)

theorem settleDown_keep (m : M) : DKeep m.datas (settleDown m).1.datas := run_keep _ m

theorem exec_keep (m : M) (op : Op) : DKeep m.datas (exec m op).1.datas := by
  cases op with
  | new => exact dkeep_refl _
  | newResolved v => exact dkeep_refl _
  | newRejected e => exact dkeep_refl _
  | then_ p cb ret rej =>
    simp only [exec]
    refine dkeep_trans ?_ (settleDown_keep _)
    rw [thenOn_datas]; exact dkeep_refl _
  | resolve p v =>
    simp only [exec]
    split
    · exact dkeep_trans (dkeep_refl _) (settleDown_keep (fulfilAndWalk m p v))
    · exact dkeep_refl _
  | reject p e =>
    simp only [exec]
    split
    · exact dkeep_trans (dkeep_refl _) (settleDown_keep (rejectAndWalk m p e))
    · exact dkeep_refl _
  | whenAll ps =>
    simp only [exec]
    refine dkeep_trans ?_ (settleDown_keep _)
    exact dkeep_append m.datas _
  | whenAny ps =>
    simp only [exec]
    refine dkeep_trans ?_ (settleDown_keep _)
    exact dkeep_append m.datas _

theorem execAll_keep (ops : List Op) (m : M) : DKeep m.datas (execAll m ops).1.datas := by
  induction ops generalizing m with
  | nil => exact dkeep_refl _
  | cons op rest ih => simp only [execAll]; exact dkeep_trans (exec_keep m op) (ih _)

theorem execAll_append (a b : List Op) (m : M) :
    execAll m (a ++ b) = ((execAll (execAll m a).1 b).1, (execAll m a).2 ++ (execAll (execAll m a).1 b).2) := by
  induction a generalizing m with
  | nil => simp [execAll]
  | cons op rest ih => simp only [List.cons_append, execAll, ih, List.cons_append]

end Pistache.Promise
