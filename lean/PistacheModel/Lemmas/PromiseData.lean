/-
Bookkeeping invariant of the combinators (whenAll / whenAny) of the promise machine: the data block of a
combinator is "closed" as soon as its target is settled, the `resolved` counter of an all-of block counts exactly
the inputs that have fulfilled, and there are never more inputs than the block expects.  Consequence
(Props/C11NoThrow.lean): the internal Resolver / Rejection of a combinator never meets an already settled
target — no outcome of an input raises an error in the party that settles it.
-/
import PistacheModel.Lemmas.PromiseReth

namespace Pistache.Promise

def isAll (d : Nat) (r : Req) : Bool := match r.kind with | .allInput d' _ => d' == d | _ => false
def isAny (d : Nat) (r : Req) : Bool := match r.kind with | .anyInput d' => d' == d | _ => false
def fAll (d : Nat) (r : Req) : Nat := if isAll d r then 1 else 0
def fAllR (d : Nat) (r : Req) : Nat := if isAll d r && decide (1 ≤ r.rc) then 1 else 0
def fAny (d : Nat) (r : Req) : Nat := if isAny d r then 1 else 0
def attAll (d : Nat) : Act → Bool | .attach _ r => isAll d r | _ => false
def attAny (d : Nat) : Act → Bool | .attach _ r => isAny d r | _ => false
def sAll (d : Nat) (stack : List Act) : Nat := stack.countP (attAll d)
def sAny (d : Nat) (stack : List Act) : Nat := stack.countP (attAny d)

theorem isAll_congr {d : Nat} {r r' : Req} (h : r'.kind = r.kind) : isAll d r' = isAll d r := by unfold isAll; rw [h]
theorem isAny_congr {d : Nat} {r r' : Req} (h : r'.kind = r.kind) : isAny d r' = isAny d r := by unfold isAny; rw [h]
theorem fAll_congr {d : Nat} {r r' : Req} (h : r'.kind = r.kind) : fAll d r' = fAll d r := by unfold fAll; rw [isAll_congr h]
theorem fAny_congr {d : Nat} {r r' : Req} (h : r'.kind = r.kind) : fAny d r' = fAny d r := by unfold fAny; rw [isAny_congr h]
theorem fAllR_le (d : Nat) (r : Req) : fAllR d r ≤ fAll d r := by
  unfold fAllR fAll; cases isAll d r <;> simp <;> split <;> omega

theorem settler_not_input {d : Nat} {r : Req} (h : r.settler = true) : isAll d r = false ∧ isAny d r = false := by
  unfold Req.settler Req.isUser Req.isChainer at h
  unfold isAll isAny
  cases hk : r.kind <;> simp_all

theorem sum_ge_elem (f : Req → Nat) (rs : List Req) (x : Req) (hx : x ∈ rs) : f x ≤ (rs.map f).sum := by
  induction rs with
  | nil => cases hx
  | cons y ys ih =>
    simp only [List.map_cons, List.sum_cons]
    rcases List.mem_cons.mp hx with rfl | hm
    · omega
    · have := ih hm; omega

theorem tally_ge_elem (f : Req → Nat) (cs : List Core) (k : Core) (hk : k ∈ cs) (x : Req) (hx : x ∈ k.reqs) : f x ≤ tally f cs := by
  unfold tally
  induction cs with
  | nil => cases hk
  | cons y ys ih =>
    simp only [List.map_cons, List.sum_cons]
    rcases List.mem_cons.mp hk with rfl | hm
    · have := sum_ge_elem f _ x hx; omega
    · have := ih hm; omega

/-- the per-request sums agree iff they agree request by request (one function below the other) -/
theorem sum_eq_pointwise (f g : Req → Nat) (rs : List Req) (hle : ∀ r, f r ≤ g r) (h : (rs.map f).sum = (rs.map g).sum) :
    ∀ r ∈ rs, f r = g r := by
  induction rs with
  | nil => intro r hr; cases hr
  | cons x xs ih =>
    simp only [List.map_cons, List.sum_cons] at h
    have hx := hle x
    have hs : (xs.map f).sum ≤ (xs.map g).sum := by
      clear ih h
      induction xs with
      | nil => simp
      | cons y ys ih2 => simp only [List.map_cons, List.sum_cons]; have := hle y; omega
    intro r hr
    rcases List.mem_cons.mp hr with rfl | hr
    · omega
    · exact ih (by omega) r hr

theorem tally_eq_pointwise (f g : Req → Nat) (cs : List Core) (hle : ∀ r, f r ≤ g r) (h : tally f cs = tally g cs) :
    ∀ k ∈ cs, ∀ r ∈ k.reqs, f r = g r := by
  unfold tally at h
  induction cs with
  | nil => intro k hk; cases hk
  | cons x xs ih =>
    simp only [List.map_cons, List.sum_cons] at h
    have hx : (x.reqs.map f).sum ≤ (x.reqs.map g).sum := by
      generalize x.reqs = rs
      induction rs with
      | nil => simp
      | cons y ys ih2 => simp only [List.map_cons, List.sum_cons]; have := hle y; omega
    have hs : tally f xs ≤ tally g xs := tally_le f g xs (fun _ _ r _ => hle r)
    unfold tally at hs
    intro k hk
    rcases List.mem_cons.mp hk with rfl | hk
    · exact sum_eq_pointwise f g _ hle (by omega)
    · exact ih (by omega) k hk

theorem rq_mem {cs : List Core} {c i : Nat} {x : Req} (h : rq cs c i = some x) : ∃ k ∈ cs, x ∈ k.reqs := by
  unfold rq at h
  exact getD_mem_reqs cs c x (List.mem_of_getElem? h)

structure DataOK (roots prog : List Nat) (m : M) : Prop where
  tgtDistinct : ∀ (d1 d2 : Nat) (dd1 dd2 : Data), m.datas[d1]? = some dd1 → m.datas[d2]? = some dd2 → dd1.target = dd2.target → d1 = d2
  tgtProg : ∀ dd ∈ m.datas, dd.target ∉ prog
  closed : ∀ (d : Nat) (dd : Data), m.datas[d]? = some dd → stOf m.cores dd.target ≠ .pending → dd.rejected = true ∨ dd.resolved = dd.total
  inRc : ∀ c i x, rq m.cores c i = some x → 1 ≤ x.rc → Fulfilled m.cores c
  inJc : ∀ c i x, rq m.cores c i = some x → 1 ≤ x.jc → RejOK m.cores c
  cntAll : ∀ (d : Nat) (dd : Data), m.datas[d]? = some dd → tally (fAll d) m.cores + sAll d m.stack ≤ dd.total
  cntRes : ∀ (d : Nat) (dd : Data), m.datas[d]? = some dd → dd.rejected = false → dd.resolved = tally (fAllR d) m.cores
  cntAny : ∀ (d : Nat) (dd : Data), m.datas[d]? = some dd → tally (fAny d) m.cores + sAny d m.stack ≤ dd.total
  anyZero : ∀ (d : Nat) (dd : Data), m.datas[d]? = some dd → 0 < tally (fAny d) m.cores + sAny d m.stack → dd.resolved = 0
  excl : ∀ d, 0 < tally (fAll d) m.cores + sAll d m.stack → tally (fAny d) m.cores + sAny d m.stack = 0
  noAbort : m.aborted = false

variable {roots prog : List Nat}

/-- once an all-of block is complete (and not rejected), every one of its inputs has fulfilled -/
theorem all_spent {m : M} (h : DataOK roots prog m) {d : Nat} {dd : Data} (hd : m.datas[d]? = some dd) (hr : dd.rejected = false)
    (hfull : dd.resolved = dd.total) {c i : Nat} {x : Req} (hx : rq m.cores c i = some x) (hk : isAll d x = true) : 1 ≤ x.rc := by
  have h1 := h.cntAll d dd hd
  have h2 := h.cntRes d dd hd hr
  have h3 : tally (fAllR d) m.cores ≤ tally (fAll d) m.cores := tally_le _ _ _ (fun _ _ r _ => fAllR_le d r)
  have heq : tally (fAllR d) m.cores = tally (fAll d) m.cores := by omega
  obtain ⟨k, hk', hxk⟩ := rq_mem hx
  have := tally_eq_pointwise _ _ _ (fAllR_le d) heq k hk' x hxk
  unfold fAllR fAll at this
  rw [hk] at this
  simp at this
  omega

/-- a request of an any-of block exists: the block expects at least one input and has never counted a fulfilment -/
theorem any_exists {m : M} (h : DataOK roots prog m) {d : Nat} {dd : Data} (hd : m.datas[d]? = some dd)
    {c i : Nat} {x : Req} (hx : rq m.cores c i = some x) (hk : isAny d x = true) : dd.resolved = 0 ∧ 0 < dd.total := by
  obtain ⟨k, hk', hxk⟩ := rq_mem hx
  have hge := tally_ge_elem (fAny d) m.cores k hk' x hxk
  have h1 : fAny d x = 1 := by unfold fAny; rw [hk]; rfl
  exact ⟨h.anyZero d dd hd (by omega), by have := h.cntAny d dd hd; omega⟩

/-! ### stack counts -/

theorem sAll_cons (d : Nat) (a : Act) (st : List Act) : sAll d (a :: st) = (if attAll d a then 1 else 0) + sAll d st := by
  unfold sAll; rw [List.countP_cons]; omega
theorem sAny_cons (d : Nat) (a : Act) (st : List Act) : sAny d (a :: st) = (if attAny d a then 1 else 0) + sAny d st := by
  unfold sAny; rw [List.countP_cons]; omega

theorem sAll_walk (d : Nat) (mk : Nat → Nat → Act) (hmk : ∀ c i, attAll d (mk c i) = false) (c n : Nat) (st : List Act) :
    sAll d (walk mk c n ++ st) = sAll d st := by
  unfold sAll walk
  rw [List.countP_append]
  have : List.countP (attAll d) ((List.range n).map (mk c)) = 0 := by
    rw [List.countP_eq_zero]; intro a ha; simp only [List.mem_map] at ha; obtain ⟨i, _, rfl⟩ := ha; simp [hmk]
  omega
theorem sAny_walk (d : Nat) (mk : Nat → Nat → Act) (hmk : ∀ c i, attAny d (mk c i) = false) (c n : Nat) (st : List Act) :
    sAny d (walk mk c n ++ st) = sAny d st := by
  unfold sAny walk
  rw [List.countP_append]
  have : List.countP (attAny d) ((List.range n).map (mk c)) = 0 := by
    rw [List.countP_eq_zero]; intro a ha; simp only [List.mem_map] at ha; obtain ⟨i, _, rfl⟩ := ha; simp [hmk]
  omega

/-- the invariant only looks at cores, stack, datas and the abort flag -/
theorem data_congr {m m' : M} (hc : m'.cores = m.cores) (hs : m'.stack = m.stack) (hd : m'.datas = m.datas) (ha : m'.aborted = m.aborted)
    (h : DataOK roots prog m) : DataOK roots prog m' := by
  refine ⟨?_, ?_, ?_, ?_, ?_, ?_, ?_, ?_, ?_, ?_, ?_⟩
  · rw [hd]; exact h.tgtDistinct
  · rw [hd]; exact h.tgtProg
  · rw [hd, hc]; exact h.closed
  · rw [hc]; exact h.inRc
  · rw [hc]; exact h.inJc
  · rw [hd, hc, hs]; exact h.cntAll
  · rw [hd, hc]; exact h.cntRes
  · rw [hd, hc, hs]; exact h.cntAny
  · rw [hd, hc, hs]; exact h.anyZero
  · rw [hc, hs]; exact h.excl
  · rw [ha]; exact h.noAbort

/-- pushing actions that are not `attach` -/
theorem data_push {m : M} (acts : List Act) (hacts : ∀ d, sAll d (acts ++ m.stack) = sAll d m.stack ∧ sAny d (acts ++ m.stack) = sAny d m.stack)
    (h : DataOK roots prog m) : DataOK roots prog { m with stack := acts ++ m.stack } := by
  refine ⟨h.tgtDistinct, h.tgtProg, h.closed, h.inRc, h.inJc, ?_, h.cntRes, ?_, ?_, ?_, h.noAbort⟩
  · intro d dd hd; show tally (fAll d) m.cores + sAll d (acts ++ m.stack) ≤ dd.total; rw [(hacts d).1]; exact h.cntAll d dd hd
  · intro d dd hd; show tally (fAny d) m.cores + sAny d (acts ++ m.stack) ≤ dd.total; rw [(hacts d).2]; exact h.cntAny d dd hd
  · intro d dd hd hp; have hp' : 0 < tally (fAny d) m.cores + sAny d (acts ++ m.stack) := hp; rw [(hacts d).2] at hp'; exact h.anyZero d dd hd hp'
  · intro d hp
    have hp' : 0 < tally (fAll d) m.cores + sAll d (acts ++ m.stack) := hp
    rw [(hacts d).1] at hp'
    show tally (fAny d) m.cores + sAny d (acts ++ m.stack) = 0
    rw [(hacts d).2]; exact h.excl d hp'

/-- dropping the action on top of the stack (the counts of pending attaches can only go down) -/
theorem data_pop {m : M} {a : Act} {rest : List Act} (hst : m.stack = a :: rest) (h : DataOK roots prog m) :
    DataOK roots prog { m with stack := rest } := by
  have hA : ∀ d, sAll d rest ≤ sAll d m.stack := by intro d; rw [hst, sAll_cons]; omega
  have hY : ∀ d, sAny d rest ≤ sAny d m.stack := by intro d; rw [hst, sAny_cons]; omega
  refine ⟨h.tgtDistinct, h.tgtProg, h.closed, h.inRc, h.inJc, ?_, h.cntRes, ?_, ?_, ?_, h.noAbort⟩
  · intro d dd hd; have := h.cntAll d dd hd; have := hA d; show tally (fAll d) m.cores + sAll d rest ≤ dd.total; omega
  · intro d dd hd; have := h.cntAny d dd hd; have := hY d; show tally (fAny d) m.cores + sAny d rest ≤ dd.total; omega
  · intro d dd hd hp
    have hp' : 0 < tally (fAny d) m.cores + sAny d rest := hp
    exact h.anyZero d dd hd (by have := hY d; omega)
  · intro d hp
    have hp' : 0 < tally (fAll d) m.cores + sAll d rest := hp
    have := h.excl d (by have := hA d; omega)
    show tally (fAny d) m.cores + sAny d rest = 0
    have := hY d; omega

theorem data_log {m : M} (l : List Ev) (h : DataOK roots prog m) : DataOK roots prog { m with log := l } :=
  data_congr (m := m) (by rfl) (by rfl) (by rfl) (by rfl) h

/-! ### attaching a request -/

theorem thenOn_stack_counts (m : M) (p : Nat) (r : Req) (d : Nat) :
    sAll d (thenOn m p r).stack = sAll d m.stack ∧ sAny d (thenOn m p r).stack = sAny d m.stack := by
  unfold thenOn
  simp only []
  split
  · exact ⟨rfl, rfl⟩
  · exact ⟨by show sAll d (_ :: m.stack) = _; rw [sAll_cons]; simp [attAll], by show sAny d (_ :: m.stack) = _; rw [sAny_cons]; simp [attAny]⟩
  · exact ⟨by show sAll d (_ :: m.stack) = _; rw [sAll_cons]; simp [attAll], by show sAny d (_ :: m.stack) = _; rw [sAny_cons]; simp [attAny]⟩

theorem thenOn_datas (m : M) (p : Nat) (r : Req) : (thenOn m p r).datas = m.datas := by
  unfold thenOn; simp only []; split <;> rfl
theorem thenOn_aborted (m : M) (p : Nat) (r : Req) : (thenOn m p r).aborted = m.aborted := by
  unfold thenOn; simp only []; split <;> rfl

/-- `thenOn m p r` when the state BEFORE (with the attach still counted on the stack) satisfies the invariant -/
theorem data_thenOn (m : M) (p : Nat) (r : Req) (h0 : r.rc = 0 ∧ r.jc = 0)
    (h : DataOK roots prog { m with stack := .attach p r :: m.stack }) : DataOK roots prog (thenOn m p r) := by
  have hcs := thenOn_cores m p r
  have hext := ext_thenOn m p r
  have hR0 : ∀ d, fAllR d r = 0 := by intro d; unfold fAllR; simp [h0.1]
  have hpre : ∀ d, sAll d (Act.attach p r :: m.stack) = fAll d r + sAll d m.stack ∧ sAny d (Act.attach p r :: m.stack) = fAny d r + sAny d m.stack := by
    intro d; rw [sAll_cons, sAny_cons]; exact ⟨rfl, rfl⟩
  have hK : ∀ (f : Req → Nat), tally f (thenOn m p r).cores ≤ tally f m.cores + f r := by
    intro f; rw [hcs]; exact tally_set_append_le f m.cores p r _
  have hRes : ∀ d, tally (fAllR d) (thenOn m p r).cores = tally (fAllR d) m.cores := by
    intro d; rw [hcs]; exact tally_set_append _ m.cores p r _ (hR0 d)
  refine ⟨?_, ?_, ?_, ?_, ?_, ?_, ?_, ?_, ?_, ?_, ?_⟩
  · rw [thenOn_datas]; exact h.tgtDistinct
  · rw [thenOn_datas]; exact h.tgtProg
  · rw [thenOn_datas]; intro d dd hd hst
    exact h.closed d dd hd (by intro hp; exact hst (by
      have : stOf (thenOn m p r).cores dd.target = stOf m.cores dd.target := by
        rw [hcs]; by_cases hlt : p < m.cores.length
        · exact (appUpd_set m.cores p r hlt).st _
        · rw [List.set_eq_of_length_le (by omega)]
      rw [this]; exact hp))
  · intro c i x hx h1
    rw [hcs] at hx ⊢
    by_cases hlt : p < m.cores.length
    · have u := appUpd_set m.cores p r hlt
      rcases u.back hx with ⟨_, _, rfl⟩ | hx'
      · omega
      · exact fulfilled_of_st (u.st c) (h.inRc c i x hx' h1)
    · rw [List.set_eq_of_length_le (by omega)] at hx ⊢; exact h.inRc c i x hx h1
  · intro c i x hx h1
    rw [hcs] at hx ⊢
    by_cases hlt : p < m.cores.length
    · have u := appUpd_set m.cores p r hlt
      rcases u.back hx with ⟨_, _, rfl⟩ | hx'
      · omega
      · exact rejOK_fwd (u.st c) u.fwd (h.inJc c i x hx' h1)
    · rw [List.set_eq_of_length_le (by omega)] at hx ⊢; exact h.inJc c i x hx h1
  · rw [thenOn_datas]; intro d dd hd
    have hh : tally (fAll d) m.cores + sAll d (Act.attach p r :: m.stack) ≤ dd.total := h.cntAll d dd hd
    have e : sAll d (Act.attach p r :: m.stack) = fAll d r + sAll d m.stack := (hpre d).1
    have hk := hK (fAll d); rw [(thenOn_stack_counts m p r d).1]
    omega
  · rw [thenOn_datas]; intro d dd hd hr; rw [hRes]; exact h.cntRes d dd hd hr
  · rw [thenOn_datas]; intro d dd hd
    have hh : tally (fAny d) m.cores + sAny d (Act.attach p r :: m.stack) ≤ dd.total := h.cntAny d dd hd
    have e := (hpre d).2
    have := hK (fAny d); rw [(thenOn_stack_counts m p r d).2]; omega
  · rw [thenOn_datas]; intro d dd hd hp
    rw [(thenOn_stack_counts m p r d).2] at hp
    have e := (hpre d).2
    have := hK (fAny d)
    exact h.anyZero d dd hd (by show 0 < tally (fAny d) m.cores + sAny d (Act.attach p r :: m.stack); omega)
  · intro d hp
    rw [(thenOn_stack_counts m p r d).1] at hp
    have e1 := (hpre d).1; have e2 := (hpre d).2
    have k1 := hK (fAll d); have k2 := hK (fAny d)
    have hx : tally (fAny d) m.cores + sAny d (Act.attach p r :: m.stack) = 0 :=
      h.excl d (by show 0 < tally (fAll d) m.cores + sAll d (Act.attach p r :: m.stack); omega)
    rw [(thenOn_stack_counts m p r d).2]; omega
  · rw [thenOn_aborted]; exact h.noAbort

/-- attaching a request that is not a combinator input (a chainer, a user continuation) -/
theorem data_thenOn_plain (m : M) (p : Nat) (r : Req) (h0 : r.rc = 0 ∧ r.jc = 0) (hs : r.settler = true)
    (h : DataOK roots prog m) : DataOK roots prog (thenOn m p r) := by
  apply data_thenOn m p r h0
  have hz : ∀ d, attAll d (.attach p r) = false ∧ attAny d (.attach p r) = false := fun d => settler_not_input hs
  have := data_push (roots := roots) (prog := prog) (m := m) [.attach p r] (by
    intro d; show sAll d (Act.attach p r :: m.stack) = _ ∧ sAny d (Act.attach p r :: m.stack) = _
    rw [sAll_cons, sAny_cons, (hz d).1, (hz d).2]; simp) h
  exact this

/-! ### a counter bump -/

theorem tally_setReq_eq (f : Req → Nat) (m : M) (c i : Nat) (r r' : Req) (hr : rq m.cores c i = some r) (hf : f r' = f r) :
    tally f (m.setCore c (setReq (m.core c) i r')).cores = tally f m.cores := by
  have := tally_setReq f m.cores c i r r' hr
  show tally f (m.cores.set c (setReq (m.cores.getD c {}) i r')) = tally f m.cores
  omega

theorem data_setReq {m : M} {c i : Nat} {r r' : Req} (h : DataOK roots prog m) (hr : rq m.cores c i = some r)
    (hk : r'.kind = r.kind) (hch : r'.chain = r.chain) (hrc : r.rc ≤ r'.rc) (hjc : r.jc ≤ r'.jc)
    (hF : 1 ≤ r'.rc → Fulfilled m.cores c) (hJ : 1 ≤ r'.jc → RejOK m.cores c)
    (hR : ∀ (d : Nat) (dd : Data), m.datas[d]? = some dd → dd.rejected = false → fAllR d r' = fAllR d r) :
    DataOK roots prog (m.setCore c (setReq (m.core c) i r')) := by
  have u := reqUpd_setReq m.cores c i r r' hr
  have fwd := u.fwd hk hch hrc hjc
  have hA : ∀ d, tally (fAll d) (m.setCore c (setReq (m.core c) i r')).cores = tally (fAll d) m.cores :=
    fun d => tally_setReq_eq _ m c i r r' hr (fAll_congr hk)
  have hY : ∀ d, tally (fAny d) (m.setCore c (setReq (m.core c) i r')).cores = tally (fAny d) m.cores :=
    fun d => tally_setReq_eq _ m c i r r' hr (fAny_congr hk)
  refine ⟨h.tgtDistinct, h.tgtProg, ?_, ?_, ?_, ?_, ?_, ?_, ?_, ?_, h.noAbort⟩
  · intro d dd hd hst; exact h.closed d dd hd (by intro hp; exact hst (by rw [show stOf (m.setCore c (setReq (m.core c) i r')).cores dd.target = stOf m.cores dd.target from u.st _]; exact hp))
  · intro c' i' x hx h1
    obtain ⟨y, hy, _, _, _, _, hne, heq⟩ := u.back hk hch hrc hjc hx
    apply fulfilled_of_st (u.st c')
    by_cases hpos : c' = c ∧ i' = i
    · obtain ⟨hx', _⟩ := heq hpos; obtain ⟨rfl, rfl⟩ := hpos; subst hx'; exact hF h1
    · have := hne hpos; subst this; exact h.inRc c' i' y hy h1
  · intro c' i' x hx h1
    obtain ⟨y, hy, _, _, _, _, hne, heq⟩ := u.back hk hch hrc hjc hx
    apply rejOK_fwd (u.st c') fwd
    by_cases hpos : c' = c ∧ i' = i
    · obtain ⟨hx', _⟩ := heq hpos; obtain ⟨rfl, rfl⟩ := hpos; subst hx'; exact hJ h1
    · have := hne hpos; subst this; exact h.inJc c' i' y hy h1
  · intro d dd hd; rw [hA]; exact h.cntAll d dd hd
  · intro d dd hd hrj; rw [tally_setReq_eq _ m c i r r' hr (hR d dd hd hrj)]; exact h.cntRes d dd hd hrj
  · intro d dd hd; rw [hY]; exact h.cntAny d dd hd
  · intro d dd hd hp; rw [hY] at hp; exact h.anyZero d dd hd hp
  · intro d hp; rw [hA] at hp; rw [hY]; exact h.excl d hp

/-! ### settling a core -/

theorem tally_setSt (f : Req → Nat) (cs : List Core) (t : Nat) (s : St) : tally f (cs.set t { cs.getD t {} with st := s }) = tally f cs :=
  tally_set_same f cs t _ rfl

theorem data_settle {m : M} {t : Nat} {s : St} (h : DataOK roots prog m) (hp : Pending m.cores t) (hs : s ≠ .pending)
    (hnd : Doomed m.cores t → ∃ e, s = .rejected e)
    (hcl : ∀ (d : Nat) (dd : Data), m.datas[d]? = some dd → dd.target = t → dd.rejected = true ∨ dd.resolved = dd.total)
    (mk : Nat → Nat → Act) (hmk : ∀ d c i, attAll d (mk c i) = false ∧ attAny d (mk c i) = false) (n : Nat) :
    DataOK roots prog { m with cores := m.cores.set t { m.cores.getD t {} with st := s }, stack := walk mk t n ++ m.stack } := by
  have hcnt : ∀ d, sAll d (walk mk t n ++ m.stack) = sAll d m.stack ∧ sAny d (walk mk t n ++ m.stack) = sAny d m.stack :=
    fun d => ⟨sAll_walk d mk (fun c i => (hmk d c i).1) t n m.stack, sAny_walk d mk (fun c i => (hmk d c i).2) t n m.stack⟩
  by_cases hlt : t < m.cores.length
  · have u := stUpd_set m.cores t s hlt
    have hrejd : Doomed m.cores t → Rejected (m.cores.set t { m.cores.getD t {} with st := s }) t := by
      intro hd; obtain ⟨e, he⟩ := hnd hd; exact ⟨e, by rw [u.new, he]⟩
    refine ⟨h.tgtDistinct, h.tgtProg, ?_, ?_, ?_, ?_, ?_, ?_, ?_, ?_, h.noAbort⟩
    · intro d dd hd hst
      by_cases ht : dd.target = t
      · exact hcl d dd hd ht
      · exact h.closed d dd hd (by intro hpp; exact hst (by rw [show stOf (m.cores.set t _) dd.target = stOf m.cores dd.target from u.other _ ht]; exact hpp))
    · intro c i x hx h1
      have hx' : rq m.cores c i = some x := by rw [← u.rqs]; exact hx
      exact u.fulfilled_mono hp (h.inRc c i x hx' h1)
    · intro c i x hx h1
      have hx' : rq m.cores c i = some x := by rw [← u.rqs]; exact hx
      exact u.rejOK_mono hp hrejd (h.inJc c i x hx' h1)
    · intro d dd hd; show tally (fAll d) (m.cores.set t _) + sAll d (walk mk t n ++ m.stack) ≤ dd.total
      rw [tally_setSt, (hcnt d).1]; exact h.cntAll d dd hd
    · intro d dd hd hrj; show dd.resolved = tally (fAllR d) (m.cores.set t _); rw [tally_setSt]; exact h.cntRes d dd hd hrj
    · intro d dd hd; show tally (fAny d) (m.cores.set t _) + sAny d (walk mk t n ++ m.stack) ≤ dd.total
      rw [tally_setSt, (hcnt d).2]; exact h.cntAny d dd hd
    · intro d dd hd hpos
      have hpos' : 0 < tally (fAny d) (m.cores.set t { m.cores.getD t {} with st := s }) + sAny d (walk mk t n ++ m.stack) := hpos
      rw [tally_setSt, (hcnt d).2] at hpos'; exact h.anyZero d dd hd hpos'
    · intro d hpos
      have hpos' : 0 < tally (fAll d) (m.cores.set t { m.cores.getD t {} with st := s }) + sAll d (walk mk t n ++ m.stack) := hpos
      rw [tally_setSt, (hcnt d).1] at hpos'
      show tally (fAny d) (m.cores.set t _) + sAny d (walk mk t n ++ m.stack) = 0
      rw [tally_setSt, (hcnt d).2]; exact h.excl d hpos'
  · have hset : m.cores.set t { m.cores.getD t {} with st := s } = m.cores := List.set_eq_of_length_le (by omega)
    have := data_push (roots := roots) (prog := prog) (walk mk t n) hcnt h
    exact data_congr (m := { m with stack := walk mk t n ++ m.stack }) (by show m.cores.set t _ = m.cores; exact hset) (by rfl) (by rfl) (by rfl) this

theorem data_fulfilAndWalk {m : M} {t : Nat} {v : Int} (h : DataOK roots prog m) (hp : Pending m.cores t) (hnd : ¬ Doomed m.cores t)
    (hcl : ∀ (d : Nat) (dd : Data), m.datas[d]? = some dd → dd.target = t → dd.rejected = true ∨ dd.resolved = dd.total) :
    DataOK roots prog (fulfilAndWalk m t v) :=
  data_settle h hp (by intro e; cases e) (fun hd => absurd hd hnd) hcl Act.resolveReq (fun _ _ _ => ⟨rfl, rfl⟩) _

theorem data_rejectAndWalk {m : M} {t : Nat} {e : Nat} (h : DataOK roots prog m) (hp : Pending m.cores t)
    (hcl : ∀ (d : Nat) (dd : Data), m.datas[d]? = some dd → dd.target = t → dd.rejected = true ∨ dd.resolved = dd.total) :
    DataOK roots prog (rejectAndWalk m t e) :=
  data_settle h hp (by intro e; cases e) (fun _ => ⟨e, rfl⟩) hcl Act.rejectReq (fun _ _ _ => ⟨rfl, rfl⟩) _

/-! ### updating a data block -/

theorem set_lookup (ds : List Data) (d0 k : Nat) (x y : Data) (h : (ds.set d0 x)[k]? = some y) :
    (k = d0 ∧ y = x ∧ d0 < ds.length) ∨ (k ≠ d0 ∧ ds[k]? = some y) := by
  by_cases hk : k = d0
  · subst hk
    by_cases hlt : k < ds.length
    · rw [List.getElem?_set_self hlt] at h; cases h; exact Or.inl ⟨rfl, rfl, hlt⟩
    · rw [List.getElem?_eq_none (by rw [List.length_set]; omega)] at h; cases h
  · rw [List.getElem?_set_ne (Ne.symm hk)] at h; exact Or.inr ⟨hk, h⟩

theorem data_lookup (m : M) (d : Nat) (h : d < m.datas.length) : m.datas[d]? = some (m.data d) := by
  unfold M.data; simp [List.getD, List.getElem?_eq_getElem h]

/-- closing a block: the `rejected` / `done` flag is set -/
theorem data_setFlag {m : M} {d0 : Nat} (h : DataOK roots prog m) (hd0 : d0 < m.datas.length) :
    DataOK roots prog (m.setData d0 { m.data d0 with rejected := true }) := by
  have hl := data_lookup m d0 hd0
  refine ⟨?_, ?_, ?_, h.inRc, h.inJc, ?_, ?_, ?_, ?_, h.excl, h.noAbort⟩
  · intro d1 d2 dd1 dd2 h1 h2 ht
    rcases set_lookup _ _ _ _ _ h1 with ⟨rfl, rfl, _⟩ | ⟨hn1, h1'⟩ <;> rcases set_lookup _ _ _ _ _ h2 with ⟨rfl, rfl, _⟩ | ⟨hn2, h2'⟩
    · rfl
    · exact h.tgtDistinct _ _ _ _ hl h2' ht
    · exact h.tgtDistinct _ _ _ _ h1' hl ht
    · exact h.tgtDistinct _ _ _ _ h1' h2' ht
  · intro dd hdd
    rcases List.mem_or_eq_of_mem_set hdd with hdd | rfl
    · exact h.tgtProg dd hdd
    · exact h.tgtProg (m.data d0) (List.mem_of_getElem? hl)
  · intro d dd hd hst
    rcases set_lookup _ _ _ _ _ hd with ⟨rfl, rfl, _⟩ | ⟨_, hd'⟩
    · exact Or.inl rfl
    · exact h.closed d dd hd' hst
  · intro d dd hd
    rcases set_lookup _ _ _ _ _ hd with ⟨rfl, rfl, _⟩ | ⟨_, hd'⟩
    · exact h.cntAll d (m.data d) hl
    · exact h.cntAll d dd hd'
  · intro d dd hd hrj
    rcases set_lookup _ _ _ _ _ hd with ⟨rfl, rfl, _⟩ | ⟨_, hd'⟩
    · cases hrj
    · exact h.cntRes d dd hd' hrj
  · intro d dd hd
    rcases set_lookup _ _ _ _ _ hd with ⟨rfl, rfl, _⟩ | ⟨_, hd'⟩
    · exact h.cntAny d (m.data d) hl
    · exact h.cntAny d dd hd'
  · intro d dd hd hp
    rcases set_lookup _ _ _ _ _ hd with ⟨rfl, rfl, _⟩ | ⟨_, hd'⟩
    · exact h.anyZero d (m.data d) hl hp
    · exact h.anyZero d dd hd' hp

theorem isAll_other {d0 d : Nat} {x : Req} (h : isAll d0 x = true) (hne : d ≠ d0) : isAll d x = false := by
  unfold isAll at *
  cases hk : x.kind <;> simp_all
  omega

/-- an input of an all-of block fulfils (the block is still open): its counter goes 0 → 1, its value is recorded -/
theorem data_bumpAll {m : M} {c i d0 : Nat} {x : Req} (h : DataOK roots prog m) (hx : rq m.cores c i = some x) (hk : isAll d0 x = true)
    (hrc : x.rc = 0) (hf : Fulfilled m.cores c) (hd0 : d0 < m.datas.length) (hopen : (m.data d0).rejected = false) (res : List (Nat × Int)) :
    DataOK roots prog ((m.setCore c (setReq (m.core c) i { x with rc := x.rc + 1 })).setData d0
      { m.data d0 with results := res, resolved := (m.data d0).resolved + 1 }) := by
  have hl := data_lookup m d0 hd0
  obtain ⟨r', hr'⟩ : ∃ r', r' = ({ x with rc := x.rc + 1 } : Req) := ⟨_, rfl⟩
  have hk' : r'.kind = x.kind := by rw [hr']
  have hch' : r'.chain = x.chain := by rw [hr']
  have hrc1 : r'.rc = x.rc + 1 := by rw [hr']
  have hjc' : r'.jc = x.jc := by rw [hr']
  rw [← hr']
  have u := reqUpd_setReq m.cores c i x r' hx
  have fwd := u.fwd hk' hch' (by omega) (by omega)
  have hA : ∀ d, tally (fAll d) (m.setCore c (setReq (m.core c) i r')).cores = tally (fAll d) m.cores :=
    fun d => tally_setReq_eq _ m c i x r' hx (fAll_congr hk')
  have hY : ∀ d, tally (fAny d) (m.setCore c (setReq (m.core c) i r')).cores = tally (fAny d) m.cores :=
    fun d => tally_setReq_eq _ m c i x r' hx (fAny_congr hk')
  have hRother : ∀ d, d ≠ d0 → tally (fAllR d) (m.setCore c (setReq (m.core c) i r')).cores = tally (fAllR d) m.cores := by
    intro d hne
    refine tally_setReq_eq _ m c i x r' hx ?_
    unfold fAllR; rw [isAll_congr hk', isAll_other hk hne]; rfl
  have hR0 : tally (fAllR d0) (m.setCore c (setReq (m.core c) i r')).cores = tally (fAllR d0) m.cores + 1 := by
    have := tally_setReq (fAllR d0) m.cores c i x r' hx
    have e1 : fAllR d0 x = 0 := by unfold fAllR; simp [hrc]
    have e2 : fAllR d0 r' = 1 := by unfold fAllR; rw [isAll_congr hk', hk]; simp [hrc1]
    show tally (fAllR d0) (m.cores.set c (setReq (m.cores.getD c {}) i r')) = _
    omega
  -- the input exists: the block is an all-of block
  have hKpos : 0 < tally (fAll d0) m.cores := by
    obtain ⟨k, hk1, hk2⟩ := rq_mem hx
    have := tally_ge_elem (fAll d0) m.cores k hk1 x hk2
    have : fAll d0 x = 1 := by unfold fAll; rw [hk]; rfl
    omega
  have hnoAny : tally (fAny d0) m.cores + sAny d0 m.stack = 0 := h.excl d0 (by omega)
  refine ⟨?_, ?_, ?_, ?_, ?_, ?_, ?_, ?_, ?_, ?_, h.noAbort⟩
  · intro d1 d2 dd1 dd2 h1 h2 ht
    rcases set_lookup _ _ _ _ _ h1 with ⟨rfl, rfl, _⟩ | ⟨hn1, h1'⟩ <;> rcases set_lookup _ _ _ _ _ h2 with ⟨rfl, rfl, _⟩ | ⟨hn2, h2'⟩
    · rfl
    · exact h.tgtDistinct _ _ _ _ hl h2' ht
    · exact h.tgtDistinct _ _ _ _ h1' hl ht
    · exact h.tgtDistinct _ _ _ _ h1' h2' ht
  · intro dd hdd
    rcases List.mem_or_eq_of_mem_set hdd with hdd | rfl
    · exact h.tgtProg dd hdd
    · exact h.tgtProg (m.data d0) (List.mem_of_getElem? hl)
  · intro d dd hd hst
    have hst' : stOf m.cores dd.target ≠ .pending := by
      intro hp
      have e : stOf ((m.setCore c (setReq (m.core c) i r')).setData d0 { m.data d0 with results := res, resolved := (m.data d0).resolved + 1 }).cores dd.target
          = stOf m.cores dd.target := u.st _
      exact hst (by rw [e]; exact hp)
    rcases set_lookup _ _ _ _ _ hd with ⟨rfl, rfl, _⟩ | ⟨_, hd'⟩
    · -- the target cannot be settled already: the block would be complete and this input spent
      rcases h.closed _ _ hl hst' with hcl | hcl
      · rw [hopen] at hcl; cases hcl
      · have := all_spent h hl hopen hcl hx hk; omega
    · exact h.closed d dd hd' hst'
  · intro c' i' y hy h1
    obtain ⟨z, hz, _, _, _, _, hne, heq⟩ := u.back hk' hch' (by omega) (by omega) hy
    apply fulfilled_of_st (u.st c')
    by_cases hpos : c' = c ∧ i' = i
    · obtain ⟨rfl, rfl⟩ := hpos; exact hf
    · have := hne hpos; subst this; exact h.inRc c' i' z hz h1
  · intro c' i' y hy h1
    obtain ⟨z, hz, _, _, _, hzj, hne, heq⟩ := u.back hk' hch' (by omega) (by omega) hy
    apply rejOK_fwd (u.st c') fwd
    by_cases hpos : c' = c ∧ i' = i
    · obtain ⟨hy', hz'⟩ := heq hpos; obtain ⟨rfl, rfl⟩ := hpos; subst hy'; subst hz'
      exact h.inJc c' i' z hz (by omega)
    · have := hne hpos; subst this; exact h.inJc c' i' z hz h1
  · intro d dd hd
    show tally (fAll d) (m.setCore c (setReq (m.core c) i r')).cores + sAll d m.stack ≤ dd.total
    rw [hA]
    rcases set_lookup _ _ _ _ _ hd with ⟨rfl, rfl, _⟩ | ⟨_, hd'⟩
    · exact h.cntAll d (m.data d) hl
    · exact h.cntAll d dd hd'
  · intro d dd hd hrj
    show dd.resolved = tally (fAllR d) (m.setCore c (setReq (m.core c) i r')).cores
    rcases set_lookup _ _ _ _ _ hd with ⟨rfl, rfl, _⟩ | ⟨hne, hd'⟩
    · rw [hR0]; have := h.cntRes d (m.data d) hl hopen; show (m.data d).resolved + 1 = _; omega
    · rw [hRother d hne]; exact h.cntRes d dd hd' hrj
  · intro d dd hd
    show tally (fAny d) (m.setCore c (setReq (m.core c) i r')).cores + sAny d m.stack ≤ dd.total
    rw [hY]
    rcases set_lookup _ _ _ _ _ hd with ⟨rfl, rfl, _⟩ | ⟨_, hd'⟩
    · exact h.cntAny d (m.data d) hl
    · exact h.cntAny d dd hd'
  · intro d dd hd hp
    have hp' : 0 < tally (fAny d) (m.setCore c (setReq (m.core c) i r')).cores + sAny d m.stack := hp
    rw [hY] at hp'
    rcases set_lookup _ _ _ _ _ hd with ⟨rfl, rfl, _⟩ | ⟨_, hd'⟩
    · omega
    · exact h.anyZero d dd hd' hp'
  · intro d hp
    have hp' : 0 < tally (fAll d) (m.setCore c (setReq (m.core c) i r')).cores + sAll d m.stack := hp
    rw [hA] at hp'
    show tally (fAny d) (m.setCore c (setReq (m.core c) i r')).cores + sAny d m.stack = 0
    rw [hY]; exact h.excl d hp'

/-! ### one machine step -/

theorem resolverOn_pending (m : M) (t : Nat) (v : Int) (h : (m.core t).st = .pending) : resolverOn m t v = fulfilAndWalk m t v := by
  unfold resolverOn; rw [h]
theorem rejectionOn_pending (m : M) (t : Nat) (e : Nat) (h : (m.core t).st = .pending) : rejectionOn m t e = rejectAndWalk m t e := by
  unfold rejectionOn; rw [h]

theorem fAllR_congr {d : Nat} {r r' : Req} (hk : r'.kind = r.kind) (hrc : r'.rc = r.rc) : fAllR d r' = fAllR d r := by
  unfold fAllR; rw [isAll_congr hk, hrc]

theorem fAllR_settler {d : Nat} {r r' : Req} (hk : r'.kind = r.kind) (hs : r.settler = true) : fAllR d r' = fAllR d r := by
  unfold fAllR; rw [isAll_congr hk, (settler_not_input hs).1]; rfl

theorem isAll_of_kind {r : Req} {d idx : Nat} (hk : r.kind = .allInput d idx) : isAll d r = true := by unfold isAll; rw [hk]; simp
theorem isAny_of_kind {r : Req} {d : Nat} (hk : r.kind = .anyInput d) : isAny d r = true := by unfold isAny; rw [hk]; simp
theorem isAll_of_any {r : Req} {d d' : Nat} (hk : r.kind = .anyInput d) : isAll d' r = false := by unfold isAll; rw [hk]

/-- the data block of an open combinator whose input fires: its target is still pending -/
theorem target_pending_all_complete {m : M} (h : DataOK roots prog m) {d : Nat} (hd : d < m.datas.length) (hopen : (m.data d).rejected = false)
    (hlast : (m.data d).resolved + 1 = (m.data d).total) : Pending m.cores (m.data d).target := by
  rcases st_cases m.cores (m.data d).target with hp | hf | hr
  · exact hp
  · have hne : stOf m.cores (m.data d).target ≠ .pending := by obtain ⟨v, hv⟩ := hf; rw [hv]; intro e; cases e
    rcases h.closed d _ (data_lookup m d hd) hne with hc | hc
    · rw [hopen] at hc; cases hc
    · omega
  · have hne : stOf m.cores (m.data d).target ≠ .pending := by obtain ⟨v, hv⟩ := hr; rw [hv]; intro e; cases e
    rcases h.closed d _ (data_lookup m d hd) hne with hc | hc
    · rw [hopen] at hc; cases hc
    · omega

theorem target_pending_any {m : M} (h : DataOK roots prog m) {d : Nat} (hd : d < m.datas.length) (hopen : (m.data d).rejected = false)
    {c i : Nat} {x : Req} (hx : rq m.cores c i = some x) (hk : isAny d x = true) : Pending m.cores (m.data d).target := by
  have ha := any_exists h (data_lookup m d hd) hx hk
  rcases st_cases m.cores (m.data d).target with hp | hf | hr
  · exact hp
  · have hne : stOf m.cores (m.data d).target ≠ .pending := by obtain ⟨v, hv⟩ := hf; rw [hv]; intro e; cases e
    rcases h.closed d _ (data_lookup m d hd) hne with hc | hc
    · rw [hopen] at hc; cases hc
    · omega
  · have hne : stOf m.cores (m.data d).target ≠ .pending := by obtain ⟨v, hv⟩ := hr; rw [hv]; intro e; cases e
    rcases h.closed d _ (data_lookup m d hd) hne with hc | hc
    · rw [hopen] at hc; cases hc
    · omega

/-- an input of an open all-of block is told of a rejection: the target is still pending (otherwise the block would be
    complete, this input would have fulfilled, and its promise could not be rejected) -/
theorem target_pending_all_reject {m : M} (h : DataOK roots prog m) {d : Nat} (hd : d < m.datas.length) (hopen : (m.data d).rejected = false)
    {c i : Nat} {x : Req} (hx : rq m.cores c i = some x) (hk : isAll d x = true) (hrej : RejOK m.cores c) : Pending m.cores (m.data d).target := by
  have key : stOf m.cores (m.data d).target ≠ .pending → False := by
    intro hne
    rcases h.closed d _ (data_lookup m d hd) hne with hc | hc
    · rw [hopen] at hc; cases hc
    · have := all_spent h (data_lookup m d hd) hopen hc hx hk
      exact fulfilled_not_rejOK (h.inRc c i x hx this) hrej
  rcases st_cases m.cores (m.data d).target with hp | hf | hr
  · exact hp
  · exact absurd (by obtain ⟨v, hv⟩ := hf; rw [hv]; intro e; cases e) key
  · exact absurd (by obtain ⟨v, hv⟩ := hr; rw [hv]; intro e; cases e) key

end Pistache.Promise
