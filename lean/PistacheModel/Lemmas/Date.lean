/-
Calendar lemmas for Model/Date.lean: splitting a day number into (year, month, day) and putting it back.
-/
import PistacheModel.Model.Date

namespace Pistache.Date

theorem yearLen_pos (y : Nat) : 365 ≤ yearLen y := by unfold yearLen; split <;> omega
theorem yearLen_le (y : Nat) : yearLen y ≤ 366 := by unfold yearLen; split <;> omega

theorem yearOf_spec (f y d : Nat) (h : d < f) :
    y ≤ (yearOf f y d).1 ∧ (yearOf f y d).2 < yearLen (yearOf f y d).1 ∧ daysOfYears y ((yearOf f y d).1 - y) + (yearOf f y d).2 = d := by
  induction f generalizing y d with
  | zero => omega
  | succ f ih =>
    unfold yearOf
    split
    · rename_i hlt
      refine ⟨Nat.le_refl _, hlt, ?_⟩
      simp [daysOfYears]
    · rename_i hge
      have hp := yearLen_pos y
      obtain ⟨h1, h2, h3⟩ := ih (y + 1) (d - yearLen y) (by omega)
      refine ⟨by omega, h2, ?_⟩
      have : (yearOf f (y + 1) (d - yearLen y)).1 - y = ((yearOf f (y + 1) (d - yearLen y)).1 - (y + 1)) + 1 := by omega
      rw [this]
      simp only [daysOfYears]
      omega

theorem monthOf_spec (lens : List Nat) (m d : Nat) (h : d < lens.sum) :
    m ≤ (monthOf lens m d).1 ∧ (monthOf lens m d).1 - m < lens.length ∧ (monthOf lens m d).2 < lens.getD ((monthOf lens m d).1 - m) 0 ∧
      (lens.take ((monthOf lens m d).1 - m)).sum + (monthOf lens m d).2 = d := by
  induction lens generalizing m d with
  | nil => simp at h
  | cons l ls ih =>
    unfold monthOf
    split
    · rename_i hlt
      simp only [Nat.sub_self, List.length_cons, List.take_zero, List.sum_nil, Nat.zero_add]
      exact ⟨Nat.le_refl _, by omega, by simpa using hlt, trivial⟩
    · rename_i hge
      simp only [List.sum_cons] at h
      obtain ⟨h1, h2, h3, h4⟩ := ih (m + 1) (d - l) (by omega)
      have e : (monthOf ls (m + 1) (d - l)).1 - m = ((monthOf ls (m + 1) (d - l)).1 - (m + 1)) + 1 := by omega
      refine ⟨by omega, ?_, ?_, ?_⟩
      · rw [e]; simp only [List.length_cons]; omega
      · rw [e]; simpa using h3
      · rw [e]; simp only [List.take_succ_cons, List.sum_cons]; omega

theorem monthLens_sum (y : Nat) : (monthLens (isLeap y)).sum = yearLen y := by
  unfold yearLen monthLens; cases isLeap y <;> rfl

theorem monthLens_length (b : Bool) : (monthLens b).length = 12 := by cases b <;> rfl

theorem monthLens_le (b : Bool) (i : Nat) : (monthLens b).getD i 0 ≤ 31 := by
  have : ∀ j, j < 12 → (monthLens b).getD j 0 ≤ 31 := by cases b <;> decide
  by_cases hi : i < 12
  · exact this i hi
  · have : (monthLens b).getD i 0 = 0 := by
      simp [List.getD, List.getElem?_eq_none (by rw [monthLens_length]; omega : (monthLens b).length ≤ i)]
    omega

/-- the civil fields of an instant are in range -/
theorem civilOf_range (t : Nat) :
    1970 ≤ (civilOf t).year ∧ 1 ≤ (civilOf t).month ∧ (civilOf t).month ≤ 12 ∧ 1 ≤ (civilOf t).day ∧
      (civilOf t).day ≤ (monthLens (isLeap (civilOf t).year)).getD ((civilOf t).month - 1) 0 ∧
      (civilOf t).hour < 24 ∧ (civilOf t).min < 60 ∧ (civilOf t).sec < 60 := by
  have hy := yearOf_spec (t / 86400 + 1) 1970 (t / 86400) (Nat.lt_succ_self _)
  have hm := monthOf_spec (monthLens (isLeap (yearOf (t / 86400 + 1) 1970 (t / 86400)).1)) 0 (yearOf (t / 86400 + 1) 1970 (t / 86400)).2
    (by rw [monthLens_sum]; exact hy.2.1)
  simp only [Nat.sub_zero, monthLens_length] at hm
  simp only [civilOf]
  refine ⟨hy.1, by omega, by omega, by omega, ?_, ?_, ?_, ?_⟩
  · simp only [Nat.add_sub_cancel]; omega
  · have := Nat.mod_lt t (by decide : 0 < 86400); omega
  · omega
  · omega

/-- civil time back to seconds: the inverse of `civilOf` -/
theorem secondsOf_civilOf (t : Nat) : secondsOf (civilOf t) = t := by
  have hy := yearOf_spec (t / 86400 + 1) 1970 (t / 86400) (Nat.lt_succ_self _)
  have hm := monthOf_spec (monthLens (isLeap (yearOf (t / 86400 + 1) 1970 (t / 86400)).1)) 0 (yearOf (t / 86400 + 1) 1970 (t / 86400)).2
    (by rw [monthLens_sum]; exact hy.2.1)
  simp only [Nat.sub_zero] at hm
  simp only [secondsOf, civilOf, Nat.add_sub_cancel]
  have h1 := hm.2.2.2
  have h2 := hy.2.2
  have := Nat.div_add_mod t 86400
  have := Nat.mod_lt t (by decide : 0 < 86400)
  omega

theorem daysOfYears_mono (y n k : Nat) : daysOfYears y n ≤ daysOfYears y (n + k) := by
  induction n generalizing y with
  | zero => simp [daysOfYears]
  | succ n ih =>
    have : n + 1 + k = (n + k) + 1 := by omega
    rw [this]; simp only [daysOfYears]
    have := ih (y + 1); omega

theorem days_to_10000 : daysOfYears 1970 8030 = 2932897 := by decide +kernel

/-- instants before 10000-01-01T00:00:00Z have a four-digit year -/
theorem year_le_9999 (t : Nat) (h : t < 253402300800) : (civilOf t).year ≤ 9999 := by
  have hy := yearOf_spec (t / 86400 + 1) 1970 (t / 86400) (Nat.lt_succ_self _)
  simp only [civilOf]
  by_cases hc : (yearOf (t / 86400 + 1) 1970 (t / 86400)).1 ≤ 9999
  · exact hc
  · have hk : (yearOf (t / 86400 + 1) 1970 (t / 86400)).1 - 1970 = 8030 + ((yearOf (t / 86400 + 1) 1970 (t / 86400)).1 - 10000) := by omega
    have hm := daysOfYears_mono 1970 8030 ((yearOf (t / 86400 + 1) 1970 (t / 86400)).1 - 10000)
    rw [← hk, days_to_10000] at hm
    have := hy.2.2
    have : 2932897 ≤ t / 86400 := by omega
    omega

end Pistache.Date
