import PistacheModel.Model.Router

namespace Pistache.Router
open Pistache Pistache.Stream

/-- the specification: when does a pattern match a list of path segments, with which bindings -/
inductive Matches : Pattern → List Bytes → List (Bytes × Bytes) → List Bytes → Prop
  | nil : Matches [] [] [] []
  | fixed {p xs ps ss} (s : Bytes) : Matches p xs ps ss → Matches (.fixed s :: p) (s :: xs) ps ss
  | param {p xs ps ss} (n x : Bytes) : Matches p xs ps ss → Matches (.param n :: p) (x :: xs) ((n, x) :: ps) ss
  | optTake {p xs ps ss} (n x : Bytes) : Matches p xs ps ss → Matches (.opt n :: p) (x :: xs) ((n, x) :: ps) ss
  | optAbsent {p ps ss} (n : Bytes) : Matches p [] ps ss → Matches (.opt n :: p) [] ps ss   -- only at the end of the path
  | splat {p xs ps ss} (x : Bytes) : Matches p xs ps ss → Matches (.splat :: p) (x :: xs) ps (x :: ss)

/-! ### children -/

theorem mem_childFixed (n : Node) (s : Bytes) (pat : Pattern) (h : Nat) :
    (pat, h) ∈ childFixed n s ↔ (.fixed s :: pat, h) ∈ n := by
  unfold childFixed
  simp only [List.mem_filterMap]
  constructor
  · rintro ⟨⟨p, h'⟩, hm, hx⟩
    cases p with
    | nil => simp at hx
    | cons sg rest =>
      cases sg <;> simp at hx
      rename_i s'
      obtain ⟨rfl, rfl, rfl⟩ := hx
      exact hm
  · intro hm; exact ⟨(.fixed s :: pat, h), hm, by simp⟩

theorem mem_childParam (n : Node) (nm : Bytes) (pat : Pattern) (h : Nat) :
    (pat, h) ∈ childParam n nm ↔ (.param nm :: pat, h) ∈ n := by
  unfold childParam
  simp only [List.mem_filterMap]
  constructor
  · rintro ⟨⟨p, h'⟩, hm, hx⟩
    cases p with
    | nil => simp at hx
    | cons sg rest =>
      cases sg <;> simp at hx
      obtain ⟨rfl, rfl, rfl⟩ := hx
      exact hm
  · intro hm; exact ⟨(.param nm :: pat, h), hm, by simp⟩

theorem mem_childOpt (n : Node) (nm : Bytes) (pat : Pattern) (h : Nat) :
    (pat, h) ∈ childOpt n nm ↔ (.opt nm :: pat, h) ∈ n := by
  unfold childOpt
  simp only [List.mem_filterMap]
  constructor
  · rintro ⟨⟨p, h'⟩, hm, hx⟩
    cases p with
    | nil => simp at hx
    | cons sg rest =>
      cases sg <;> simp at hx
      obtain ⟨rfl, rfl, rfl⟩ := hx
      exact hm
  · intro hm; exact ⟨(.opt nm :: pat, h), hm, by simp⟩

theorem mem_childSplat (n : Node) (pat : Pattern) (h : Nat) :
    (pat, h) ∈ childSplat n ↔ (.splat :: pat, h) ∈ n := by
  unfold childSplat
  simp only [List.mem_filterMap]
  constructor
  · rintro ⟨⟨p, h'⟩, hm, hx⟩
    cases p with
    | nil => simp at hx
    | cons sg rest =>
      cases sg <;> simp at hx
      obtain ⟨rfl, rfl⟩ := hx
      exact hm
  · intro hm; exact ⟨(.splat :: pat, h), hm, by simp⟩

theorem mem_dedup (l : List Bytes) (x : Bytes) : x ∈ dedup l ↔ x ∈ l := by
  induction l with
  | nil => simp [dedup]
  | cons y r ih =>
    simp only [dedup, List.mem_cons, List.mem_filter, ih]
    constructor
    · rintro (h | ⟨h, _⟩)
      · exact Or.inl h
      · exact Or.inr h
    · rintro (h | h)
      · exact Or.inl h
      · by_cases hxy : x = y
        · exact Or.inl hxy
        · exact Or.inr ⟨h, by simpa using hxy⟩

theorem mem_paramNames (n : Node) (nm : Bytes) : nm ∈ paramNames n ↔ ∃ pat h, (.param nm :: pat, h) ∈ n := by
  unfold paramNames
  rw [mem_dedup, List.mem_filterMap]
  constructor
  · rintro ⟨⟨p, h⟩, hm, hx⟩
    cases p with
    | nil => simp at hx
    | cons sg rest => cases sg <;> simp at hx; subst hx; exact ⟨rest, h, hm⟩
  · rintro ⟨pat, h, hm⟩; exact ⟨(.param nm :: pat, h), hm, by simp⟩

theorem mem_optNames (n : Node) (nm : Bytes) : nm ∈ optNames n ↔ ∃ pat h, (.opt nm :: pat, h) ∈ n := by
  unfold optNames
  rw [mem_dedup, List.mem_filterMap]
  constructor
  · rintro ⟨⟨p, h⟩, hm, hx⟩
    cases p with
    | nil => simp at hx
    | cons sg rest => cases sg <;> simp at hx; subst hx; exact ⟨rest, h, hm⟩
  · rintro ⟨pat, h, hm⟩; exact ⟨(.opt nm :: pat, h), hm, by simp⟩

theorem mem_order (rev : Bool) (l : List Bytes) (x : Bytes) : x ∈ order rev l ↔ x ∈ l := by
  unfold order; split <;> simp

theorem ownRoute_some (n : Node) (h : Nat) (hr : ownRoute n = some h) : ([], h) ∈ n := by
  unfold ownRoute at hr
  cases hf : n.find? (fun pr => pr.1.isEmpty) with
  | none => rw [hf] at hr; simp at hr
  | some pr =>
    rw [hf] at hr
    simp only [Option.map_some, Option.some.injEq] at hr
    have hm := List.mem_of_find?_eq_some hf
    have hp := List.find?_some hf
    obtain ⟨p, h'⟩ := pr
    simp only [List.isEmpty_iff] at hp
    subst hp; subst hr; exact hm

theorem ownRoute_isSome (n : Node) (h : Nat) (hm : ([], h) ∈ n) : (ownRoute n).isSome := by
  unfold ownRoute
  rw [Option.isSome_map, List.find?_isSome]
  exact ⟨([], h), hm, by simp⟩

theorem maxLen_ge (n : Node) (pat : Pattern) (h : Nat) (hm : (pat, h) ∈ n) : pat.length ≤ maxLen n := by
  unfold maxLen
  have gen : ∀ (l : Node) (m0 : Nat), m0 ≤ l.foldl (fun m pr => max m pr.1.length) m0 ∧
      ((pat, h) ∈ l → pat.length ≤ l.foldl (fun m pr => max m pr.1.length) m0) := by
    intro l
    induction l with
    | nil => intro m0; exact ⟨Nat.le_refl _, by simp⟩
    | cons x r ih =>
      intro m0
      simp only [List.foldl_cons, List.mem_cons]
      have := ih (max m0 x.1.length)
      refine ⟨by omega, ?_⟩
      rintro (heq | hr)
      · subst heq; have h1 := this.1; dsimp only at h1 ⊢; omega
      · exact this.2 hr
  exact (gen n 0).2 hm

end Pistache.Router
