/-
Termination of the settlement cascade within the fuel of `settleDown`: a potential that every machine step decreases.
  potential = pending actions + (bound on the number of requests + 1) × (unspent counter slots, present and future)
-/
import PistacheModel.Lemmas.PromiseOwnStep

namespace Pistache.Promise

def fOne (_ : Req) : Nat := 1
/-- counter slots of a request that are still unspent -/
def fUns (r : Req) : Nat := (if r.rc = 0 then 1 else 0) + (if r.jc = 0 then 1 else 0)
/-- a promise-returning user continuation that has not run yet: it may still create one chainer -/
def fProm (r : Req) : Nat := if r.retPromise = true ∧ r.rc = 0 then 1 else 0
def isAttach : Act → Bool | .attach _ _ => true | _ => false
def nAtt (st : List Act) : Nat := st.countP isAttach

def nReq (m : M) : Nat := tally fOne m.cores
/-- an upper bound on the number of requests the cascade can ever reach -/
def nBound (m : M) : Nat := nReq m + nAtt m.stack + tally fProm m.cores
def nUns (m : M) : Nat := tally fUns m.cores + 3 * nAtt m.stack + 2 * tally fProm m.cores
def potential (m : M) : Nat := m.stack.length + (nBound m + 1) * nUns m

theorem reqs_le_total (cs : List Core) (c : Nat) : (cs.getD c {}).reqs.length ≤ tally fOne cs := by
  rcases getD_eq cs c with hk | hk
  · have hmem : cs.getD c {} ∈ cs := List.mem_of_getElem? hk
    unfold tally
    have key : ∀ (l : List Core) (k : Core), k ∈ l → k.reqs.length ≤ (l.map fun k => (k.reqs.map fOne).sum).sum := by
      intro l
      induction l with
      | nil => intro k hk; cases hk
      | cons x xs ih =>
        intro k hk
        simp only [List.map_cons, List.sum_cons]
        have hx : (x.reqs.map fOne).sum = x.reqs.length := by
          generalize x.reqs = rs; induction rs with | nil => rfl | cons y ys ih2 => simp only [List.map_cons, List.sum_cons, List.length_cons, fOne] at *; omega
        rcases List.mem_cons.mp hk with rfl | hm
        · omega
        · have := ih k hm; omega
    exact key cs _ hmem
  · have : cs.getD c {} = {} := by simp [List.getD, hk]
    rw [this]; simp

theorem nAtt_cons (a : Act) (st : List Act) : nAtt (a :: st) = (if isAttach a then 1 else 0) + nAtt st := by
  unfold nAtt; rw [List.countP_cons]; omega

theorem nAtt_walk (mk : Nat → Nat → Act) (hmk : ∀ c i, isAttach (mk c i) = false) (c n : Nat) (st : List Act) : nAtt (walk mk c n ++ st) = nAtt st := by
  unfold nAtt walk
  rw [List.countP_append]
  have : List.countP isAttach ((List.range n).map (mk c)) = 0 := by
    rw [List.countP_eq_zero]; intro a ha; simp only [List.mem_map] at ha; obtain ⟨i, _, rfl⟩ := ha; simp [hmk]
  omega

theorem walk_length (mk : Nat → Nat → Act) (c n : Nat) : (walk mk c n).length = n := by unfold walk; simp

/-- the arithmetic of one productive step: at least one slot is spent, the bound does not grow, at most `nBound` actions are pushed -/
theorem potential_drop {s s' b b' u u' : Nat} (hb : b' ≤ b) (hu : u' + 1 ≤ u) (hs : s' + 1 ≤ s + b) : s' + (b' + 1) * u' < s + (b + 1) * u := by
  have h1 : (b' + 1) * u' ≤ (b + 1) * u' := Nat.mul_le_mul_right _ (by omega)
  have h2 : (b + 1) * (u' + 1) ≤ (b + 1) * u := Nat.mul_le_mul_left _ hu
  have h3 : (b + 1) * (u' + 1) = (b + 1) * u' + (b + 1) := by rw [Nat.mul_add, Nat.mul_one]
  omega

theorem potential_le {s s' b b' u u' : Nat} (hb : b' ≤ b) (hu : u' + 1 ≤ u) (hs : s' ≤ s + b) : s' + (b' + 1) * u' ≤ s + (b + 1) * u := by
  have h1 : (b' + 1) * u' ≤ (b + 1) * u' := Nat.mul_le_mul_right _ (by omega)
  have h2 : (b + 1) * (u' + 1) ≤ (b + 1) * u := Nat.mul_le_mul_left _ hu
  have h3 : (b + 1) * (u' + 1) = (b + 1) * u' + (b + 1) := by rw [Nat.mul_add, Nat.mul_one]
  omega

/-- the five quantities the potential is made of -/
structure Meas where
  len : Nat      -- pending actions
  att : Nat      -- of which attach actions
  one : Nat      -- requests
  uns : Nat      -- unspent counter slots
  prm : Nat      -- promise-returning continuations that have not run

def meas (m : M) : Meas := ⟨m.stack.length, nAtt m.stack, tally fOne m.cores, tally fUns m.cores, tally fProm m.cores⟩

theorem potential_eq (m : M) : potential m = (meas m).len + ((meas m).one + (meas m).att + (meas m).prm + 1) * ((meas m).uns + 3 * (meas m).att + 2 * (meas m).prm) := rfl

/-- a productive sub-step: nothing attached, a slot spent, at most one request list walked -/
def Drop (a b : Meas) : Prop :=
  b.att ≤ a.att ∧ b.one + b.prm ≤ a.one + a.prm ∧ b.uns + 2 * b.prm + 1 ≤ a.uns + 2 * a.prm ∧ b.len ≤ a.len + a.one

theorem potential_of_drop {m m' : M} (h : Drop (meas m) (meas m')) : potential m' ≤ potential m := by
  rw [potential_eq, potential_eq]
  obtain ⟨h1, h2, h3, h4⟩ := h
  apply potential_le <;> omega

theorem meas_setReq (m : M) (c i : Nat) (r r' : Req) (hr : rq m.cores c i = some r) :
    (meas (m.setCore c (setReq (m.core c) i r'))).len = (meas m).len ∧ (meas (m.setCore c (setReq (m.core c) i r'))).att = (meas m).att ∧
    (meas (m.setCore c (setReq (m.core c) i r'))).one + fOne r = (meas m).one + fOne r' ∧
    (meas (m.setCore c (setReq (m.core c) i r'))).uns + fUns r = (meas m).uns + fUns r' ∧
    (meas (m.setCore c (setReq (m.core c) i r'))).prm + fProm r = (meas m).prm + fProm r' :=
  ⟨rfl, rfl, tally_setReq fOne m.cores c i r r' hr, tally_setReq fUns m.cores c i r r' hr, tally_setReq fProm m.cores c i r r' hr⟩

theorem meas_fulfilAndWalk (m : M) (d : Nat) (v : Int) :
    (meas (fulfilAndWalk m d v)).len ≤ (meas m).len + (meas m).one ∧ (meas (fulfilAndWalk m d v)).att = (meas m).att ∧
    (meas (fulfilAndWalk m d v)).one = (meas m).one ∧ (meas (fulfilAndWalk m d v)).uns = (meas m).uns ∧ (meas (fulfilAndWalk m d v)).prm = (meas m).prm := by
  refine ⟨?_, ?_, tally_set_same _ _ _ _ rfl, tally_set_same _ _ _ _ rfl, tally_set_same _ _ _ _ rfl⟩
  · show (walk Act.resolveReq d (m.core d).reqs.length ++ m.stack).length ≤ m.stack.length + tally fOne m.cores
    rw [List.length_append, walk_length]; have := reqs_le_total m.cores d; show (m.cores.getD d {}).reqs.length + _ ≤ _; omega
  · exact nAtt_walk _ (fun _ _ => rfl) _ _ _

theorem meas_rejectAndWalk (m : M) (d : Nat) (e : Nat) :
    (meas (rejectAndWalk m d e)).len ≤ (meas m).len + (meas m).one ∧ (meas (rejectAndWalk m d e)).att = (meas m).att ∧
    (meas (rejectAndWalk m d e)).one = (meas m).one ∧ (meas (rejectAndWalk m d e)).uns = (meas m).uns ∧ (meas (rejectAndWalk m d e)).prm = (meas m).prm := by
  refine ⟨?_, ?_, tally_set_same _ _ _ _ rfl, tally_set_same _ _ _ _ rfl, tally_set_same _ _ _ _ rfl⟩
  · show (walk Act.rejectReq d (m.core d).reqs.length ++ m.stack).length ≤ m.stack.length + tally fOne m.cores
    rw [List.length_append, walk_length]; have := reqs_le_total m.cores d; show (m.cores.getD d {}).reqs.length + _ ≤ _; omega
  · exact nAtt_walk _ (fun _ _ => rfl) _ _ _

theorem meas_thenOn (m : M) (p : Nat) (r : Req) :
    (meas (thenOn m p r)).len ≤ (meas m).len + 1 ∧ (meas (thenOn m p r)).att = (meas m).att ∧
    (meas (thenOn m p r)).one ≤ (meas m).one + fOne r ∧ (meas (thenOn m p r)).uns ≤ (meas m).uns + fUns r ∧ (meas (thenOn m p r)).prm ≤ (meas m).prm + fProm r := by
  have hcs := thenOn_cores' m p r
  refine ⟨?_, ?_, ?_, ?_, ?_⟩
  · show (thenOn m p r).stack.length ≤ m.stack.length + 1
    unfold thenOn; simp only []; split <;> first | exact Nat.le_succ _ | exact Nat.le_refl _
  · show nAtt (thenOn m p r).stack = nAtt m.stack
    unfold thenOn; simp only []; split
    · rfl
    · show nAtt (_ :: m.stack) = _; rw [nAtt_cons]; simp [isAttach]
    · show nAtt (_ :: m.stack) = _; rw [nAtt_cons]; simp [isAttach]
  · show tally fOne (thenOn m p r).cores ≤ _; rw [hcs]; exact tally_set_append_le _ _ _ _ _
  · show tally fUns (thenOn m p r).cores ≤ _; rw [hcs]; exact tally_set_append_le _ _ _ _ _
  · show tally fProm (thenOn m p r).cores ≤ _; rw [hcs]; exact tally_set_append_le _ _ _ _ _

theorem meas_log (m : M) (l : List Ev) : meas { m with log := l } = meas m := rfl
theorem meas_setData (m : M) (d : Nat) (x : Data) : meas (m.setData d x) = meas m := rfl

theorem meas_resolverOn (m : M) (t : Nat) (v : Int) :
    (meas (resolverOn m t v)).len ≤ (meas m).len + (meas m).one ∧ (meas (resolverOn m t v)).att ≤ (meas m).att ∧
    (meas (resolverOn m t v)).one = (meas m).one ∧ (meas (resolverOn m t v)).uns = (meas m).uns ∧ (meas (resolverOn m t v)).prm = (meas m).prm := by
  unfold resolverOn
  split
  · have := meas_fulfilAndWalk m t v; exact ⟨this.1, by omega, this.2.2⟩
  · exact ⟨by show 0 ≤ _; omega, by show nAtt [] ≤ _; simp [nAtt], rfl, rfl, rfl⟩

theorem meas_rejectionOn (m : M) (t : Nat) (e : Nat) :
    (meas (rejectionOn m t e)).len ≤ (meas m).len + (meas m).one ∧ (meas (rejectionOn m t e)).att ≤ (meas m).att ∧
    (meas (rejectionOn m t e)).one = (meas m).one ∧ (meas (rejectionOn m t e)).uns = (meas m).uns ∧ (meas (rejectionOn m t e)).prm = (meas m).prm := by
  unfold rejectionOn
  split
  · have := meas_rejectAndWalk m t e; exact ⟨this.1, by omega, this.2.2⟩
  · exact ⟨by show 0 ≤ _; omega, by show nAtt [] ≤ _; simp [nAtt], rfl, rfl, rfl⟩

theorem one_pos {m : M} {c i : Nat} {r : Req} (hr : rq m.cores c i = some r) : 1 ≤ (meas m).one := by
  unfold rq at hr
  obtain ⟨k, hk1, hk2⟩ := getD_mem_reqs m.cores c r (List.mem_of_getElem? hr)
  show 1 ≤ tally fOne m.cores
  have hs : ∀ (rs : List Req), r ∈ rs → 1 ≤ (rs.map fOne).sum := by
    intro rs; induction rs with
    | nil => intro h; cases h
    | cons y ys ih => intro _; simp only [List.map_cons, List.sum_cons, fOne]; omega
  have hc : ∀ (l : List Core), k ∈ l → 1 ≤ tally fOne l := by
    intro l; unfold tally; induction l with
    | nil => intro h; cases h
    | cons y ys ih =>
      intro h; simp only [List.map_cons, List.sum_cons]
      rcases List.mem_cons.mp h with rfl | hm
      · have := hs _ hk2; omega
      · have := ih hm; omega
  exact hc _ hk1

theorem potential_congr {m m' : M} (hc : m'.cores = m.cores) (hs : m'.stack = m.stack) : potential m' = potential m := by
  unfold potential nBound nUns nReq; rw [hc, hs]

theorem thenOn_congr (m m' : M) (p : Nat) (r : Req) (hc : m'.cores = m.cores) (hs : m'.stack = m.stack) :
    (thenOn m' p r).cores = (thenOn m p r).cores ∧ (thenOn m' p r).stack = (thenOn m p r).stack := by
  unfold thenOn; simp only [M.core, M.setCore, hc, hs]; cases (m.cores.getD p {}).st <;> exact ⟨rfl, rfl⟩

theorem resolverOn_congr (m m' : M) (t : Nat) (v : Int) (hc : m'.cores = m.cores) (hs : m'.stack = m.stack) :
    (resolverOn m' t v).cores = (resolverOn m t v).cores ∧ (resolverOn m' t v).stack = (resolverOn m t v).stack := by
  unfold resolverOn fulfilAndWalk; simp only [M.core, M.setCore, hc, hs]; cases (m.cores.getD t {}).st <;> exact ⟨rfl, rfl⟩

theorem rejectionOn_congr (m m' : M) (t : Nat) (e : Nat) (hc : m'.cores = m.cores) (hs : m'.stack = m.stack) :
    (rejectionOn m' t e).cores = (rejectionOn m t e).cores ∧ (rejectionOn m' t e).stack = (rejectionOn m t e).stack := by
  unfold rejectionOn rejectAndWalk; simp only [M.core, M.setCore, hc, hs]; cases (m.cores.getD t {}).st <;> exact ⟨rfl, rfl⟩

theorem fProm_chainer (ch : Nat) : fProm { kind := .chainer, chain := ch } = 0 := by simp [fProm, Req.retPromise]

theorem term_stepResolve (m : M) (c i : Nat) : potential (stepResolve m c i) ≤ potential m := by
  unfold stepResolve
  simp only
  split
  · exact Nat.le_refl _
  · rename_i r hget
    have hget : rq m.cores c i = some r := hget
    split
    · exact Nat.le_refl _
    · rename_i hrc'
      have hrc : r.rc = 0 := by omega
      generalize (m.core c).st.val = arg
      obtain ⟨r', hr'⟩ : ∃ r', r' = ({ r with rc := r.rc + 1 } : Req) := ⟨_, rfl⟩
      have hk' : r'.kind = r.kind := by rw [hr']
      have hrc1 : r'.rc = r.rc + 1 := by rw [hr']
      have hjc' : r'.jc = r.jc := by rw [hr']
      rw [← hr']
      clear hr'
      obtain ⟨m1, hm1⟩ : ∃ m1, m1 = m.setCore c (setReq (m.core c) i r') := ⟨_, rfl⟩
      have hms := meas_setReq m c i r r' hget
      rw [← hm1] at hms ⊢
      clear hm1
      have h1 := one_pos hget
      have hfo : fOne r' = fOne r := rfl
      have hfu : fUns r' + 1 = fUns r := by unfold fUns; rw [hrc1, hjc', hrc]; simp; omega
      have hfp' : fProm r' = 0 := by unfold fProm; simp [hrc1]
      have hfp : fProm r ≤ 1 := by unfold fProm; split <;> omega
      obtain ⟨e1, e2, e3, e4, e5⟩ := hms
      cases hk : r.kind with
      | user cb ret rej =>
        simp only
        cases ret with
        | value dd =>
          simp only
          have hw := meas_fulfilAndWalk m1 r.chain (arg + dd)
          rw [potential_congr (m := fulfilAndWalk m1 r.chain (arg + dd)) (by rfl) (by rfl)]
          exact potential_of_drop ⟨by omega, by omega, by omega, by omega⟩
        | void =>
          rw [potential_congr (m := m1) (by rfl) (by rfl)]
          exact potential_of_drop ⟨by omega, by omega, by omega, by omega⟩
        | promise q =>
          simp only
          have hp : fProm r = 1 := by unfold fProm Req.retPromise; rw [hk]; simp [hrc]
          have hw := meas_thenOn m1 q { kind := .chainer, chain := r.chain }
          rw [fProm_chainer] at hw
          have hcu : fUns ({ kind := .chainer, chain := r.chain } : Req) = 2 := rfl
          have hco : fOne ({ kind := .chainer, chain := r.chain } : Req) = 1 := rfl
          rw [hcu, hco] at hw
          have hcg := thenOn_congr m1 { m1 with log := m1.log ++ [.call cb arg] } q { kind := .chainer, chain := r.chain } rfl rfl
          rw [potential_congr (m := thenOn m1 q { kind := .chainer, chain := r.chain }) hcg.1 hcg.2]
          exact potential_of_drop ⟨by omega, by omega, by omega, by omega⟩
      | chainer =>
        simp only
        have hw := meas_fulfilAndWalk m1 r.chain arg
        exact potential_of_drop ⟨by omega, by omega, by omega, by omega⟩
      | allInput k idx =>
        simp only
        split
        · exact potential_of_drop ⟨by omega, by omega, by omega, by omega⟩
        · split
          · have hw := meas_resolverOn m1 (m1.data k).target (((m1.data k).results ++ [(idx, arg)]).foldl (fun s p => s + p.2 * (100 : Int) ^ p.1) 0)
            have hcg := resolverOn_congr m1 (m1.setData k { m1.data k with results := (m1.data k).results ++ [(idx, arg)], resolved := (m1.data k).resolved + 1 })
              (m1.data k).target (((m1.data k).results ++ [(idx, arg)]).foldl (fun s p => s + p.2 * (100 : Int) ^ p.1) 0) rfl rfl
            rw [potential_congr (m := resolverOn m1 (m1.data k).target (((m1.data k).results ++ [(idx, arg)]).foldl (fun s p => s + p.2 * (100 : Int) ^ p.1) 0)) hcg.1 hcg.2]
            exact potential_of_drop ⟨by omega, by omega, by omega, by omega⟩
          · rw [potential_congr (m := m1) (by rfl) (by rfl)]
            exact potential_of_drop ⟨by omega, by omega, by omega, by omega⟩
      | anyInput k =>
        simp only
        split
        · exact potential_of_drop ⟨by omega, by omega, by omega, by omega⟩
        · have hw := meas_resolverOn m1 (m1.data k).target arg
          have hcg := resolverOn_congr m1 (m1.setData k { m1.data k with rejected := true }) (m1.data k).target arg rfl rfl
          rw [potential_congr (m := resolverOn m1 (m1.data k).target arg) hcg.1 hcg.2]
          exact potential_of_drop ⟨by omega, by omega, by omega, by omega⟩

def pushRej (m : M) (d n : Nat) : M := { m with stack := walk Act.rejectReq d n ++ m.stack }

theorem meas_pushWalkRej (m : M) (d n : Nat) (hn : n ≤ (meas m).one) :
    (meas (pushRej m d n)).len ≤ (meas m).len + (meas m).one ∧ (meas (pushRej m d n)).att = (meas m).att ∧
    (meas (pushRej m d n)).one = (meas m).one ∧ (meas (pushRej m d n)).uns = (meas m).uns ∧ (meas (pushRej m d n)).prm = (meas m).prm := by
  refine ⟨?_, nAtt_walk _ (fun _ _ => rfl) _ _ _, rfl, rfl, rfl⟩
  show (walk Act.rejectReq d n ++ m.stack).length ≤ m.stack.length + tally fOne m.cores
  rw [List.length_append, walk_length]
  have : n ≤ tally fOne m.cores := hn
  omega

theorem term_stepReject (m : M) (c i : Nat) : potential (stepReject m c i) ≤ potential m := by
  unfold stepReject
  simp only
  split
  · exact Nat.le_refl _
  · rename_i r hget
    have hget : rq m.cores c i = some r := hget
    split
    · exact Nat.le_refl _
    · rename_i hjc'
      have hjc : r.jc = 0 := by omega
      generalize (m.core c).st.exc = e
      obtain ⟨r', hr'⟩ : ∃ r', r' = ({ r with jc := r.jc + 1 } : Req) := ⟨_, rfl⟩
      have hk' : r'.kind = r.kind := by rw [hr']
      have hrc' : r'.rc = r.rc := by rw [hr']
      have hjc1 : r'.jc = r.jc + 1 := by rw [hr']
      rw [← hr']
      clear hr'
      obtain ⟨m1, hm1⟩ : ∃ m1, m1 = m.setCore c (setReq (m.core c) i r') := ⟨_, rfl⟩
      have hms := meas_setReq m c i r r' hget
      have hreqs : ∀ d, (m1.core d).reqs.length ≤ (meas m).one := by
        intro d
        have h1 := reqs_le_total m1.cores d
        have h2 : tally fOne m1.cores + fOne r = tally fOne m.cores + fOne r' := by rw [hm1]; exact tally_setReq fOne m.cores c i r r' hget
        have : fOne r' = fOne r := rfl
        show (m1.cores.getD d {}).reqs.length ≤ tally fOne m.cores
        omega
      have hreqs0 : (m.core c).reqs.length ≤ (meas m).one := reqs_le_total m.cores c
      rw [← hm1] at hms ⊢
      clear hm1
      have h1 := one_pos hget
      have hfo : fOne r' = fOne r := rfl
      have hfu : fUns r' + 1 = fUns r := by unfold fUns; rw [hrc', hjc1, hjc]; simp
      have hfp' : fProm r' = fProm r := by simp only [fProm, retPromise_congr hk', hrc']
      obtain ⟨e1, e2, e3, e4, e5⟩ := hms
      have hone : (meas m1).one = (meas m).one := by omega
      cases hk : r.kind with
      | user cb ret rej =>
        simp only
        cases rej with
        | rethrow =>
          simp only
          have hw := meas_rejectAndWalk m1 r.chain e
          exact potential_of_drop ⟨by omega, by omega, by omega, by omega⟩
        | ignore =>
          cases ret with
          | value dd =>
            simp only
            have hw := meas_pushWalkRej m1 r.chain (m1.core r.chain).reqs.length (by rw [hone]; exact hreqs _)
            rw [potential_congr (m := pushRej m1 r.chain (m1.core r.chain).reqs.length) (by rfl) (by rfl)]
            exact potential_of_drop ⟨by omega, by omega, by omega, by omega⟩
          | void => simp only; exact potential_of_drop ⟨by omega, by omega, by omega, by omega⟩
          | promise q =>
            simp only
            have hw := meas_pushWalkRej m1 c (m.core c).reqs.length (by rw [hone]; exact hreqs0)
            rw [potential_congr (m := pushRej m1 c (m.core c).reqs.length) (by rfl) (by rfl)]
            exact potential_of_drop ⟨by omega, by omega, by omega, by omega⟩
        | custom cb' =>
          cases ret with
          | value dd =>
            simp only
            have hw := meas_pushWalkRej m1 r.chain (m1.core r.chain).reqs.length (by rw [hone]; exact hreqs _)
            rw [potential_congr (m := pushRej m1 r.chain (m1.core r.chain).reqs.length) (by rfl) (by rfl)]
            exact potential_of_drop ⟨by omega, by omega, by omega, by omega⟩
          | void =>
            simp only
            rw [potential_congr (m := m1) (by rfl) (by rfl)]
            exact potential_of_drop ⟨by omega, by omega, by omega, by omega⟩
          | promise q =>
            simp only
            have hw := meas_pushWalkRej m1 c (m.core c).reqs.length (by rw [hone]; exact hreqs0)
            rw [potential_congr (m := pushRej m1 c (m.core c).reqs.length) (by rfl) (by rfl)]
            exact potential_of_drop ⟨by omega, by omega, by omega, by omega⟩
      | chainer =>
        simp only
        have hw := meas_rejectAndWalk m1 r.chain e
        exact potential_of_drop ⟨by omega, by omega, by omega, by omega⟩
      | allInput k idx =>
        simp only
        split
        · exact potential_of_drop ⟨by omega, by omega, by omega, by omega⟩
        · have hw := meas_rejectionOn m1 (m1.data k).target e
          have hcg := rejectionOn_congr m1 (m1.setData k { m1.data k with rejected := true }) (m1.data k).target e rfl rfl
          rw [potential_congr (m := rejectionOn m1 (m1.data k).target e) hcg.1 hcg.2]
          exact potential_of_drop ⟨by omega, by omega, by omega, by omega⟩
      | anyInput k =>
        simp only
        split
        · exact potential_of_drop ⟨by omega, by omega, by omega, by omega⟩
        · have hw := meas_rejectionOn m1 (m1.data k).target e
          have hcg := rejectionOn_congr m1 (m1.setData k { m1.data k with rejected := true }) (m1.data k).target e rfl rfl
          rw [potential_congr (m := rejectionOn m1 (m1.data k).target e) hcg.1 hcg.2]
          exact potential_of_drop ⟨by omega, by omega, by omega, by omega⟩

variable {roots : List Nat}

theorem retPromise_settler {r : Req} (h : r.retPromise = true) : r.settler = true := user_settler (retPromise_user h)

/-- every step with something to do decreases the potential -/
theorem term_step (m : M) (o : Own roots m) (hne : m.stack ≠ []) : potential (step m) < potential m := by
  rw [step_eq]
  split
  · rename_i hnil; exact absurd hnil hne
  · rename_i p r rest hst
    have ha := o.s (.attach p r) (by rw [hst]; exact List.mem_cons_self)
    have hw := meas_thenOn { m with stack := rest } p r
    have hfu : fUns r = 2 := by unfold fUns; rw [ha.2.1, ha.2.2]; rfl
    have hfp : fProm r = 0 := by
      unfold fProm; split
      · rename_i hh; have := retPromise_settler hh.1; rw [ha.1] at this; cases this
      · rfl
    have hfo : fOne r = 1 := rfl
    rw [hfu, hfp, hfo] at hw
    obtain ⟨w1, w2, w3, w4, w5⟩ := hw
    rw [potential_eq, potential_eq]
    have hm : meas m = ⟨rest.length + 1, nAtt rest + 1, tally fOne m.cores, tally fUns m.cores, tally fProm m.cores⟩ := by
      unfold meas; rw [hst, nAtt_cons]; simp [isAttach]; omega
    have hm0 : meas { m with stack := rest } = ⟨rest.length, nAtt rest, tally fOne m.cores, tally fUns m.cores, tally fProm m.cores⟩ := rfl
    rw [hm0] at w1 w2 w3 w4 w5
    rw [hm]
    simp only at w1 w2 w3 w4 w5 ⊢
    generalize (meas (thenOn { m with stack := rest } p r)).len = l' at *
    generalize (meas (thenOn { m with stack := rest } p r)).att = a' at *
    generalize (meas (thenOn { m with stack := rest } p r)).one = o' at *
    generalize (meas (thenOn { m with stack := rest } p r)).uns = u' at *
    generalize (meas (thenOn { m with stack := rest } p r)).prm = p' at *
    subst w2
    have hB : o' + nAtt rest + p' + 1 ≤ tally fOne m.cores + (nAtt rest + 1) + tally fProm m.cores + 1 := by omega
    have hU : u' + 3 * nAtt rest + 2 * p' + 1 ≤ tally fUns m.cores + 3 * (nAtt rest + 1) + 2 * tally fProm m.cores := by omega
    have h1 := Nat.mul_le_mul hB (Nat.le_of_succ_le_succ (Nat.succ_le_succ (Nat.le_of_lt_succ (Nat.lt_succ_of_le (Nat.le_refl (u' + 3 * nAtt rest + 2 * p'))))))
    have h2 : (tally fOne m.cores + (nAtt rest + 1) + tally fProm m.cores + 1) * (u' + 3 * nAtt rest + 2 * p' + 1)
        ≤ (tally fOne m.cores + (nAtt rest + 1) + tally fProm m.cores + 1) * (tally fUns m.cores + 3 * (nAtt rest + 1) + 2 * tally fProm m.cores) :=
      Nat.mul_le_mul_left _ hU
    have h3 : (tally fOne m.cores + (nAtt rest + 1) + tally fProm m.cores + 1) * (u' + 3 * nAtt rest + 2 * p' + 1)
        = (tally fOne m.cores + (nAtt rest + 1) + tally fProm m.cores + 1) * (u' + 3 * nAtt rest + 2 * p') + (tally fOne m.cores + (nAtt rest + 1) + tally fProm m.cores + 1) := by
      rw [Nat.mul_add, Nat.mul_one]
    omega
  · rename_i c i rest hst
    have h1 := term_stepResolve { m with stack := rest } c i
    have h2 : potential m = potential { m with stack := rest } + 1 := by
      unfold potential nBound nUns nReq; rw [hst, nAtt_cons]; simp [isAttach]; omega
    omega
  · rename_i c i rest hst
    have h1 := term_stepReject { m with stack := rest } c i
    have h2 : potential m = potential { m with stack := rest } + 1 := by
      unfold potential nBound nUns nReq; rw [hst, nAtt_cons]; simp [isAttach]; omega
    omega

theorem stack_le_potential (m : M) : m.stack.length ≤ potential m := by unfold potential; omega

/-- with at least `potential m` units of fuel the cascade runs to completion -/
theorem run_quiescent (f : Nat) (m : M) (o : Own roots m) (h : potential m ≤ f) : (run f m).stack = [] := by
  induction f generalizing m with
  | zero =>
    have := stack_le_potential m
    have hl : m.stack.length = 0 := by omega
    simp only [run]
    exact List.length_eq_zero_iff.mp hl
  | succ f ih =>
    unfold run
    split
    · rename_i he; exact List.isEmpty_iff.mp he
    · rename_i he
      have hne : m.stack ≠ [] := by intro e; rw [e] at he; exact he rfl
      have := term_step m o hne
      exact ih (step m) (own_step m o) (by omega)

theorem foldl_reqs (cs : List Core) (a : Nat) :
    cs.foldl (fun s c => s + 2 * c.reqs.length + 1) a = a + 2 * tally fOne cs + cs.length := by
  induction cs generalizing a with
  | nil => simp [tally]
  | cons x xs ih =>
    simp only [List.foldl_cons, List.length_cons]
    rw [ih]
    have hx : (x.reqs.map fOne).sum = x.reqs.length := by
      generalize x.reqs = rs; induction rs with | nil => rfl | cons y ys ih2 => simp only [List.map_cons, List.sum_cons, List.length_cons, fOne] at *; omega
    have : tally fOne (x :: xs) = x.reqs.length + tally fOne xs := by unfold tally; simp only [List.map_cons, List.sum_cons]; rw [hx]
    rw [this]; omega

theorem nAtt_le (st : List Act) : nAtt st ≤ st.length := by unfold nAtt; exact List.countP_le_length

/-- the fuel of `settleDown` is at least the potential -/
theorem potential_le_fuel (m : M) : potential m ≤ fuelFor m := by
  have hU : tally fUns m.cores ≤ 2 * tally fOne m.cores := by
    have := tally_le fUns (fun _ => 2) m.cores (fun _ _ r _ => by unfold fUns; split <;> split <;> omega)
    have h2 : tally (fun _ => 2) m.cores = 2 * tally fOne m.cores := by
      unfold tally
      induction m.cores with
      | nil => rfl
      | cons x xs ih =>
        simp only [List.map_cons, List.sum_cons]
        have hx : (x.reqs.map fun _ => 2).sum = 2 * (x.reqs.map fOne).sum := by
          generalize x.reqs = rs; induction rs with | nil => rfl | cons y ys ih2 => simp only [List.map_cons, List.sum_cons, fOne] at *; omega
        omega
    omega
  have hP : tally fProm m.cores ≤ tally fOne m.cores := tally_le _ _ _ (fun _ _ r _ => by unfold fProm fOne; split <;> omega)
  have hA := nAtt_le m.stack
  unfold fuelFor
  simp only []
  rw [foldl_reqs]
  unfold potential nBound nUns nReq
  generalize tally fOne m.cores = R at *
  generalize tally fUns m.cores = U at *
  generalize tally fProm m.cores = P at *
  generalize nAtt m.stack = A at *
  generalize m.stack.length = S at *
  generalize m.cores.length = C at *
  have hr1 : R + A + P + 1 ≤ 0 + 2 * R + C + 2 * S + 4 := by omega
  have hr2 : U + 3 * A + 2 * P ≤ 2 * (0 + 2 * R + C + 2 * S + 4) := by omega
  have hmul := Nat.mul_le_mul hr1 hr2
  have hS : S ≤ (0 + 2 * R + C + 2 * S + 4) * (0 + 2 * R + C + 2 * S + 4) := by
    have h4 : 1 ≤ 0 + 2 * R + C + 2 * S + 4 := by omega
    have := Nat.mul_le_mul h4 (Nat.le_refl (0 + 2 * R + C + 2 * S + 4))
    omega
  have e1 : (0 + 2 * R + C + 2 * S + 4) * (2 * (0 + 2 * R + C + 2 * S + 4)) = 2 * ((0 + 2 * R + C + 2 * S + 4) * (0 + 2 * R + C + 2 * S + 4)) := by
    rw [Nat.mul_left_comm]
  have e2 : 4 * (0 + 2 * R + C + 2 * S + 4) * (0 + 2 * R + C + 2 * S + 4) = 4 * ((0 + 2 * R + C + 2 * S + 4) * (0 + 2 * R + C + 2 * S + 4)) := by
    rw [Nat.mul_assoc]
  omega

/-- the cascade of every operation runs to completion within the fuel -/
theorem settle_quiescent (m : M) (o : Own roots m) : (run (fuelFor m) m).stack = [] :=
  run_quiescent (fuelFor m) m o (potential_le_fuel m)

end Pistache.Promise
