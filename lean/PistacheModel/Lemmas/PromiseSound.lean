/-
Transition properties of the promise machine, on top of the ownership invariant:
`Ext cs cs'` — every request persists (same kind and chain, counters only grow) and every settled core
keeps its state — holds for every step and every operation of a well-formed program; and every
fulfilment-callback event of the log is justified by a fulfilled core carrying that value (`LogOK`).
-/
import PistacheModel.Lemmas.PromiseOwnStep

namespace Pistache.Promise

/-- a settled core keeps its state (outcome and value) -/
def Stable (cs cs' : List Core) : Prop := ∀ c, stOf cs c ≠ .pending → stOf cs' c = stOf cs c

/-- a pending core one of whose own continuations has already been told of a rejection (its promise is
    doomed: its only settler has been spent on a swallowed rejection) stays pending -/
def DoomStable (cs cs' : List Core) : Prop :=
  ∀ c i r, rq cs c i = some r → r.settler = true → 1 ≤ r.jc → stOf cs c = .pending → stOf cs' c = .pending

/-- no continuation attached to `d` has been told of a rejection -/
def NoSpent (cs : List Core) (d : Nat) : Prop := ∀ i r, rq cs d i = some r → r.settler = true → ¬ 1 ≤ r.jc

structure Ext (cs cs' : List Core) : Prop where
  fwd : Fwd cs cs'
  stable : Stable cs cs'
  doom : DoomStable cs cs'

theorem Ext.refl (cs : List Core) : Ext cs cs :=
  ⟨fun c i y hy => ⟨y, hy, rfl, rfl, Nat.le_refl _, Nat.le_refl _⟩, fun _ _ => rfl, fun _ _ _ _ _ _ h => h⟩

theorem Ext.trans {a b c : List Core} (h1 : Ext a b) (h2 : Ext b c) : Ext a c := by
  refine ⟨?_, ?_, ?_⟩
  · intro k i y hy
    obtain ⟨x, hx, hk, hc, hr, hj⟩ := h1.fwd k i y hy
    obtain ⟨z, hz, hk2, hc2, hr2, hj2⟩ := h2.fwd k i x hx
    exact ⟨z, hz, by rw [hk2, hk], by rw [hc2, hc], by omega, by omega⟩
  · intro k hk
    have e1 := h1.stable k hk
    have e2 := h2.stable k (by rw [e1]; exact hk)
    rw [e2, e1]
  · intro k i r hr hs hj hp
    have p1 := h1.doom k i r hr hs hj hp
    obtain ⟨x, hx, hxk, _, _, hxj⟩ := h1.fwd k i r hr
    exact h2.doom k i x hx (by rw [settler_congr hxk]; exact hs) (by omega) p1

theorem ext_of_eq {cs cs' : List Core} (h : cs' = cs) : Ext cs cs' := by subst h; exact Ext.refl _

theorem ext_reqUpd {cs cs' : List Core} {c i : Nat} {r r' : Req} (u : ReqUpd cs cs' c i r r')
    (hk : r'.kind = r.kind) (hch : r'.chain = r.chain) (hrc : r.rc ≤ r'.rc) (hjc : r.jc ≤ r'.jc) : Ext cs cs' :=
  ⟨u.fwd hk hch hrc hjc, fun k _ => u.st k, fun k _ _ _ _ _ hp => (u.st k).trans hp⟩

theorem ext_stUpd {cs cs' : List Core} {d : Nat} {s : St} (u : StUpd cs cs' d s) (hp : Pending cs d) (hns : NoSpent cs d) : Ext cs cs' := by
  refine ⟨u.fwd, ?_, ?_⟩
  · intro k hk
    by_cases hkd : k = d
    · subst hkd; exact absurd hp hk
    · exact u.other k hkd
  · intro k i r hr hs hj hpk
    by_cases hkd : k = d
    · subst hkd; exact absurd hj (hns i r hr hs)
    · exact (u.other k hkd).trans hpk

theorem ext_appUpd {cs cs' : List Core} {p : Nat} {r : Req} (u : AppUpd cs cs' p r) : Ext cs cs' :=
  ⟨u.fwd, fun k _ => u.st k, fun k _ _ _ _ _ hp => (u.st k).trans hp⟩

theorem ext_setReq (m : M) (c i : Nat) (r r' : Req) (hr : rq m.cores c i = some r)
    (hk : r'.kind = r.kind) (hch : r'.chain = r.chain) (hrc : r.rc ≤ r'.rc) (hjc : r.jc ≤ r'.jc) :
    Ext m.cores (m.setCore c (setReq (m.core c) i r')).cores :=
  ext_reqUpd (reqUpd_setReq m.cores c i r r' hr) hk hch hrc hjc

theorem ext_fulfilAndWalk (m : M) (d : Nat) (v : Int) (hp : Pending m.cores d) (hns : NoSpent m.cores d) : Ext m.cores (fulfilAndWalk m d v).cores := by
  by_cases hd : d < m.cores.length
  · exact ext_stUpd (stUpd_set m.cores d (.fulfilled v) hd) hp hns
  · exact ext_of_eq (List.set_eq_of_length_le (by omega))

theorem ext_rejectAndWalk (m : M) (d : Nat) (e : Nat) (hp : Pending m.cores d) (hns : NoSpent m.cores d) : Ext m.cores (rejectAndWalk m d e).cores := by
  by_cases hd : d < m.cores.length
  · exact ext_stUpd (stUpd_set m.cores d (.rejected e) hd) hp hns
  · exact ext_of_eq (List.set_eq_of_length_le (by omega))

theorem thenOn_cores (m : M) (p : Nat) (r : Req) :
    (thenOn m p r).cores = m.cores.set p { m.cores.getD p {} with reqs := (m.cores.getD p {}).reqs ++ [r] } := by
  unfold thenOn; simp only []; split <;> rfl

theorem ext_thenOn (m : M) (p : Nat) (r : Req) : Ext m.cores (thenOn m p r).cores := by
  rw [thenOn_cores]
  by_cases hp : p < m.cores.length
  · exact ext_appUpd (appUpd_set m.cores p r hp)
  · exact ext_of_eq (List.set_eq_of_length_le (by omega))

theorem ext_resolverOn (m : M) (c : Nat) (v : Int) (hns : NoSpent m.cores c) : Ext m.cores (resolverOn m c v).cores := by
  unfold resolverOn
  split
  · rename_i hst; exact ext_fulfilAndWalk m c v hst hns
  · exact Ext.refl _

theorem ext_rejectionOn (m : M) (c : Nat) (e : Nat) (hns : NoSpent m.cores c) : Ext m.cores (rejectionOn m c e).cores := by
  unfold rejectionOn
  split
  · rename_i hst; exact ext_rejectAndWalk m c e hst hns
  · exact Ext.refl _

theorem ext_newCore (cs : List Core) (x : Core) (hx : x.reqs = []) : Ext cs (cs ++ [x]) := by
  refine ⟨?_, ?_, ?_⟩
  · intro c i y hy; exact ⟨y, by rw [rq_append_core cs x hx]; exact hy, rfl, rfl, Nat.le_refl _, Nat.le_refl _⟩
  · intro c hc
    by_cases hlt : c < cs.length
    · exact stOf_append_core cs x c hlt
    · exact absurd (stOf_oob cs c (by omega)) hc
  · intro c i r hr _ _ hp
    exact (stOf_append_core cs x c (rq_some_lt hr)).trans hp

/-! ### the log -/

/-- every callback event of the log is justified:
    * a fulfilment callback belongs to a continuation attached to a core that IS fulfilled with exactly the logged
      value, and that continuation's resolve counter is spent;
    * a custom rejection handler belongs to a continuation whose reject counter is spent, and the logged exception is
      the exception of the core it is attached to (0, the null exception, when that core is pending: a rejection that
      an upstream ignore/custom handler of a value-returning continuation swallowed — as the code is) -/
structure LogOK (cs : List Core) (log : List Ev) : Prop where
  calls : ∀ cb a, Ev.call cb a ∈ log → ∃ c i r ret rej, rq cs c i = some r ∧ r.kind = .user cb ret rej ∧ stOf cs c = .fulfilled a ∧ 1 ≤ r.rc
  rejs : ∀ cb e, Ev.callRej cb e ∈ log → ∃ c i r cb0 ret, rq cs c i = some r ∧ r.kind = .user cb0 ret (.custom cb) ∧ (stOf cs c).exc = e ∧ 1 ≤ r.jc

/-- the exception seen through a spent continuation does not change any more -/
theorem exc_ext {cs cs' : List Core} (e : Ext cs cs') {c i : Nat} {r : Req} (hr : rq cs c i = some r) (hs : r.settler = true) (hj : 1 ≤ r.jc) :
    (stOf cs' c).exc = (stOf cs c).exc := by
  by_cases hp : stOf cs c = .pending
  · rw [e.doom c i r hr hs hj hp, hp]
  · rw [e.stable c hp]

theorem settler_of_user_kind {r : Req} {cb : Nat} {ret : Ret} {rej : Rej} (hk : r.kind = .user cb ret rej) : r.settler = true := by
  unfold Req.settler Req.isUser; rw [hk]; rfl

theorem logOK_ext {cs cs' : List Core} {log : List Ev} (e : Ext cs cs') (h : LogOK cs log) : LogOK cs' log := by
  refine ⟨?_, ?_⟩
  · intro cb a hm
    obtain ⟨c, i, r, ret, rej, hr, hk, hst, hrc⟩ := h.calls cb a hm
    obtain ⟨x, hx, hxk, _, hxr, _⟩ := e.fwd c i r hr
    exact ⟨c, i, x, ret, rej, hx, by rw [hxk, hk], by rw [e.stable c (by rw [hst]; simp), hst], by omega⟩
  · intro cb ex hm
    obtain ⟨c, i, r, cb0, ret, hr, hk, hst, hjc⟩ := h.rejs cb ex hm
    obtain ⟨x, hx, hxk, _, _, hxj⟩ := e.fwd c i r hr
    exact ⟨c, i, x, cb0, ret, hx, by rw [hxk, hk], by rw [exc_ext e hr (settler_of_user_kind hk) hjc, hst], by omega⟩

theorem logOK_append_other {cs : List Core} {log : List Ev} (ev : Ev) (hne : ∀ cb a, ev ≠ .call cb a) (hne' : ∀ cb e, ev ≠ .callRej cb e)
    (h : LogOK cs log) : LogOK cs (log ++ [ev]) := by
  refine ⟨?_, ?_⟩
  · intro cb a hm
    rcases List.mem_append.mp hm with hm | hm
    · exact h.calls cb a hm
    · simp only [List.mem_singleton] at hm; exact absurd hm.symm (hne cb a)
  · intro cb e hm
    rcases List.mem_append.mp hm with hm | hm
    · exact h.rejs cb e hm
    · simp only [List.mem_singleton] at hm; exact absurd hm.symm (hne' cb e)

theorem logOK_append_call {cs : List Core} {log : List Ev} (cb : Nat) (a : Int) (h : LogOK cs log)
    (w : ∃ c i r ret rej, rq cs c i = some r ∧ r.kind = .user cb ret rej ∧ stOf cs c = .fulfilled a ∧ 1 ≤ r.rc) :
    LogOK cs (log ++ [.call cb a]) := by
  refine ⟨?_, ?_⟩
  · intro cb' a' hm
    rcases List.mem_append.mp hm with hm | hm
    · exact h.calls cb' a' hm
    · simp only [List.mem_singleton] at hm; cases hm; exact w
  · intro cb' e hm
    rcases List.mem_append.mp hm with hm | hm
    · exact h.rejs cb' e hm
    · simp only [List.mem_singleton] at hm; cases hm

theorem logOK_append_rej {cs : List Core} {log : List Ev} (cb : Nat) (e : Nat) (h : LogOK cs log)
    (w : ∃ c i r cb0 ret, rq cs c i = some r ∧ r.kind = .user cb0 ret (.custom cb) ∧ (stOf cs c).exc = e ∧ 1 ≤ r.jc) :
    LogOK cs (log ++ [.callRej cb e]) := by
  refine ⟨?_, ?_⟩
  · intro cb' a' hm
    rcases List.mem_append.mp hm with hm | hm
    · exact h.calls cb' a' hm
    · simp only [List.mem_singleton] at hm; cases hm
  · intro cb' e' hm
    rcases List.mem_append.mp hm with hm | hm
    · exact h.rejs cb' e' hm
    · simp only [List.mem_singleton] at hm; cases hm; exact w

variable {roots : List Nat}

theorem noSpent_of_not_doomed {cs : List Core} (o : OwnC roots cs) {d : Nat} (hp : Pending cs d) (hnd : ¬ Doomed cs d) : NoSpent cs d := by
  intro j x hx hs hj
  rcases o.jcOK d j x hx hs hj with h | h
  · exact pending_not_rejected hp h
  · exact hnd h

/-- after the counter bump of request (c,i): no continuation attached to a core `d` that was pending and not doomed is spent -/
theorem noSpent_after {cs cs1 : List Core} {c i : Nat} {r r' : Req} (o : OwnC roots cs) (u : ReqUpd cs cs1 c i r r')
    (hk : r'.kind = r.kind) (hch : r'.chain = r.chain) (hrc : r.rc ≤ r'.rc) (hjc : r.jc ≤ r'.jc)
    {d : Nat} (hp : Pending cs d) (hnd : ¬ Doomed cs d) (hbump : r.jc < r'.jc → RejOK cs c) : NoSpent cs1 d := by
  intro j x hx hs hj
  obtain ⟨y, hy, hyk, _, _, hyj, hne, heq⟩ := u.back hk hch hrc hjc hx
  have key : RejOK cs d := by
    by_cases hpos : d = c ∧ j = i
    · obtain ⟨hx', hy'⟩ := heq hpos
      subst hx'; subst hy'
      obtain ⟨rfl, rfl⟩ := hpos
      by_cases h1 : 1 ≤ y.jc
      · exact o.jcOK d j y hy (by rw [← settler_congr hk]; exact hs) h1
      · exact hbump (by omega)
    · have := hne hpos; subst this; exact o.jcOK d j y hy hs hj
  rcases key with h | h
  · exact pending_not_rejected hp h
  · exact hnd h

theorem holder_chain_not_doomed {cs : List Core} (o : OwnC roots cs) {c i : Nat} {r : Req} (hr : rq cs c i = some r) (hu : r.isUser = true)
    (hj : ¬ 1 ≤ r.jc) : ¬ Doomed cs r.chain := by
  rintro ⟨_, c0, i0, r0, h0, hu0, hc0, hj0⟩
  have := holder_unique o hr hu h0 hu0 hc0
  subst this; exact hj hj0

theorem chainer_chain_not_doomed {cs : List Core} (o : OwnC roots cs) {q j : Nat} {ch : Req} (hq : rq cs q j = some ch) (hc : ch.isChainer = true) :
    ¬ Doomed cs ch.chain := by
  rintro ⟨_, c0, i0, r0, h0, hu0, hc0, hj0⟩
  obtain ⟨c1, i1, r1, h1, hu1, hc1, _, hrc1⟩ := o.prov q j ch hq hc
  have := holder_unique o h1 hu1 h0 hu0 (by rw [hc0, hc1])
  subst this
  exact fulfilled_not_rejOK (o.rcOK c0 i0 r0 h0 (user_settler hu0) hrc1) (o.jcOK c0 i0 r0 h0 (user_settler hu0) hj0)

/-- Ext and LogOK together, for a machine reached from `m` -/
def Sound (m m' : M) : Prop := Ext m.cores m'.cores ∧ LogOK m'.cores m'.log

theorem sound_of {m m1 m2 : M} (e1 : Ext m.cores m1.cores) (l1 : LogOK m1.cores m1.log) (e2 : Ext m1.cores m2.cores) (hl : m2.log = m1.log) :
    Sound m m2 :=
  ⟨e1.trans e2, by rw [hl]; exact logOK_ext e2 l1⟩

theorem fulfilAndWalk_log' (m : M) (c : Nat) (v : Int) : (fulfilAndWalk m c v).log = m.log := rfl
theorem rejectAndWalk_log' (m : M) (c : Nat) (e : Nat) : (rejectAndWalk m c e).log = m.log := rfl
theorem thenOn_log'' (m : M) (p : Nat) (r : Req) : (thenOn m p r).log = m.log := by
  unfold thenOn; simp only []; split <;> rfl

theorem sound_resolverOn {m m1 : M} (c : Nat) (v : Int) (e1 : Ext m.cores m1.cores) (l1 : LogOK m1.cores m1.log)
    (hns : Pending m1.cores c → NoSpent m1.cores c) : Sound m (resolverOn m1 c v) := by
  unfold resolverOn
  split
  · rename_i hst; exact sound_of e1 l1 (ext_fulfilAndWalk m1 c v hst (hns hst)) rfl
  · exact ⟨e1, logOK_append_other _ (by intro cb a h; cases h) (by intro cb a h; cases h) l1⟩

theorem sound_rejectionOn {m m1 : M} (c : Nat) (e : Nat) (e1 : Ext m.cores m1.cores) (l1 : LogOK m1.cores m1.log)
    (hns : Pending m1.cores c → NoSpent m1.cores c) : Sound m (rejectionOn m1 c e) := by
  unfold rejectionOn
  split
  · rename_i hst; exact sound_of e1 l1 (ext_rejectAndWalk m1 c e hst (hns hst)) rfl
  · exact ⟨e1, logOK_append_other _ (by intro cb a h; cases h) (by intro cb a h; cases h) l1⟩

theorem sound_stepResolve (m : M) (c i : Nat) (h : Own roots m) (hf : Fulfilled m.cores c) (hl : LogOK m.cores m.log) :
    Sound m (stepResolve m c i) := by
  unfold stepResolve
  simp only
  split
  · exact ⟨Ext.refl _, hl⟩
  · rename_i r hget
    split
    · exact ⟨Ext.refl _, hl⟩
    · rename_i hrc'
      have hrc : r.rc = 0 := by omega
      have hget : rq m.cores c i = some r := hget
      have hnoj : r.settler = true → ¬ 1 ≤ r.jc := fun hs hj => fulfilled_not_rejOK hf (h.c.jcOK c i r hget hs hj)
      obtain ⟨v0, hv0⟩ := hf
      have hst0 : (m.core c).st = .fulfilled v0 := hv0
      have harg : (m.core c).st.val = v0 := by rw [hst0]; rfl
      rw [harg]
      obtain ⟨r', hr'⟩ : ∃ r', r' = ({ r with rc := r.rc + 1 } : Req) := ⟨_, rfl⟩
      have hk' : r'.kind = r.kind := by rw [hr']
      have hch' : r'.chain = r.chain := by rw [hr']
      have hrc1 : r'.rc = r.rc + 1 := by rw [hr']
      have hjc' : r'.jc = r.jc := by rw [hr']
      rw [← hr']
      clear hr'
      have u := reqUpd_setReq m.cores c i r r' hget
      obtain ⟨m1, hm1⟩ : ∃ m1, m1 = m.setCore c (setReq (m.core c) i r') := ⟨_, rfl⟩
      have e1 : Ext m.cores m1.cores := by rw [hm1]; exact ext_reqUpd u hk' hch' (by omega) (by omega)
      have hlog1 : m1.log = m.log := by rw [hm1]; rfl
      have l1 : LogOK m1.cores m1.log := by rw [hlog1]; exact logOK_ext e1 hl
      have hget1 : rq m1.cores c i = some r' := by rw [hm1]; exact u.new
      have hst1 : stOf m1.cores c = .fulfilled v0 := by rw [hm1]; exact (u.st c).trans hv0
      have hpend1 : ∀ d, Pending m.cores d → Pending m1.cores d := by intro d hp; rw [hm1]; exact pending_of_st (u.st _) hp
      have hpend0 : ∀ d, Pending m1.cores d → Pending m.cores d := by intro d hp; rw [hm1] at hp; exact pending_of_st (u.st _).symm hp
      have hns1 : ∀ d, Pending m.cores d → ¬ Doomed m.cores d → NoSpent m1.cores d := by
        intro d hp hnd; rw [hm1]; exact noSpent_after h.c u hk' hch' (by omega) (by omega) hp hnd (fun hlt => absurd hlt (by omega))
      have hroot : ∀ d, d < m.datas.length → Pending m1.cores (m.data d).target → NoSpent m1.cores (m.data d).target := by
        intro d hd hp
        exact hns1 _ (hpend0 _ hp) (root_not_doomed h.c (h.dTarget _ (data_mem m d hd)))
      have hdat1 : ∀ d, m1.data d = m.data d := by intro d; rw [hm1]; rfl
      rw [← hm1]
      clear hm1
      cases hk : r.kind with
      | user cb ret rej =>
        have hu : r.isUser = true := isUser_of_kind hk
        -- the new log entry is justified by (c, i)
        have l2 : LogOK m1.cores (m1.log ++ [.call cb v0]) :=
          logOK_append_call cb v0 l1 ⟨c, i, r', ret, rej, hget1, by rw [hk', hk], hst1, by omega⟩
        simp only
        cases ret with
        | value d =>
          simp only
          have hp0 : Pending m.cores r.chain := holder_chain_pending h.c hget hu (by omega) (by omega) (fun hh => hnoj (user_settler hu) hh.2)
          have e2 := ext_fulfilAndWalk { m1 with log := m1.log ++ [.call cb v0] } r.chain (v0 + d) (hpend1 _ hp0)
            (hns1 _ hp0 (holder_chain_not_doomed h.c hget hu (hnoj (user_settler hu))))
          exact ⟨e1.trans e2, logOK_ext e2 l2⟩
        | void => exact ⟨e1, l2⟩
        | promise q =>
          simp only
          have e2 := ext_thenOn { m1 with log := m1.log ++ [.call cb v0] } q { kind := .chainer, chain := r.chain }
          exact ⟨e1.trans e2, by rw [thenOn_log'']; exact logOK_ext e2 l2⟩
      | chainer =>
        have hc : r.isChainer = true := isChainer_of_kind hk
        simp only
        have hp0 : Pending m.cores r.chain := chainer_chain_pending h.c hget hc (by omega) (hnoj (chainer_settler hc))
        have e2 := ext_fulfilAndWalk m1 r.chain v0 (hpend1 _ hp0) (hns1 _ hp0 (chainer_chain_not_doomed h.c hget hc))
        exact ⟨e1.trans e2, logOK_ext e2 l1⟩
      | allInput d idx =>
        have hd : d < m.datas.length := by have := h.dReq c i r hget; unfold DataIn at this; rw [hk] at this; exact this
        simp only
        split
        · exact ⟨e1, l1⟩
        · split
          · refine sound_resolverOn (m1 := m1.setData d _) _ _ e1 l1 ?_
            rw [hdat1]; exact hroot d hd
          · exact ⟨e1, l1⟩
      | anyInput d =>
        have hd : d < m.datas.length := by have := h.dReq c i r hget; unfold DataIn at this; rw [hk] at this; exact this
        simp only
        split
        · exact ⟨e1, l1⟩
        · refine sound_resolverOn (m1 := m1.setData d _) _ _ e1 l1 ?_
          rw [hdat1]; exact hroot d hd

theorem sound_stepReject (m : M) (c i : Nat) (h : Own roots m) (hrej : RejOK m.cores c) (hl : LogOK m.cores m.log) :
    Sound m (stepReject m c i) := by
  unfold stepReject
  simp only
  split
  · exact ⟨Ext.refl _, hl⟩
  · rename_i r hget
    split
    · exact ⟨Ext.refl _, hl⟩
    · rename_i hjc'
      have hjc : r.jc = 0 := by omega
      have hget : rq m.cores c i = some r := hget
      have hnor : r.settler = true → ¬ 1 ≤ r.rc := fun hs hj => fulfilled_not_rejOK (h.c.rcOK c i r hget hs hj) hrej
      obtain ⟨e, he⟩ : ∃ e, e = (m.core c).st.exc := ⟨_, rfl⟩
      rw [← he]
      obtain ⟨r', hr'⟩ : ∃ r', r' = ({ r with jc := r.jc + 1 } : Req) := ⟨_, rfl⟩
      have hk' : r'.kind = r.kind := by rw [hr']
      have hch' : r'.chain = r.chain := by rw [hr']
      have hrc' : r'.rc = r.rc := by rw [hr']
      have hjc1 : r'.jc = r.jc + 1 := by rw [hr']
      rw [← hr']
      clear hr'
      have u := reqUpd_setReq m.cores c i r r' hget
      obtain ⟨m1, hm1⟩ : ∃ m1, m1 = m.setCore c (setReq (m.core c) i r') := ⟨_, rfl⟩
      have e1 : Ext m.cores m1.cores := by rw [hm1]; exact ext_reqUpd u hk' hch' (by omega) (by omega)
      have hlog1 : m1.log = m.log := by rw [hm1]; rfl
      have l1 : LogOK m1.cores m1.log := by rw [hlog1]; exact logOK_ext e1 hl
      have hpend1 : ∀ d, Pending m.cores d → Pending m1.cores d := by intro d hp; rw [hm1]; exact pending_of_st (u.st _) hp
      have hpend0 : ∀ d, Pending m1.cores d → Pending m.cores d := by intro d hp; rw [hm1] at hp; exact pending_of_st (u.st _).symm hp
      have hget1 : rq m1.cores c i = some r' := by rw [hm1]; exact u.new
      have hexc1 : (stOf m1.cores c).exc = e := by rw [hm1, he]; exact congrArg St.exc (u.st c)
      have hns1 : ∀ d, Pending m.cores d → ¬ Doomed m.cores d → NoSpent m1.cores d := by
        intro d hp hnd; rw [hm1]; exact noSpent_after h.c u hk' hch' (by omega) (by omega) hp hnd (fun _ => hrej)
      have hroot : ∀ d, d < m.datas.length → Pending m1.cores (m.data d).target → NoSpent m1.cores (m.data d).target := by
        intro d hd hp
        exact hns1 _ (hpend0 _ hp) (root_not_doomed h.c (h.dTarget _ (data_mem m d hd)))
      have hdat1 : ∀ d, m1.data d = m.data d := by intro d; rw [hm1]; rfl
      rw [← hm1]
      clear hm1
      cases hk : r.kind with
      | user cb ret rej =>
        have hu : r.isUser = true := isUser_of_kind hk
        simp only
        cases rej with
        | rethrow =>
          simp only
          have hp0 : Pending m.cores r.chain :=
            holder_chain_pending h.c hget hu (fun hh => hnor (user_settler hu) hh.2) (fun hh => hnor (user_settler hu) hh.2) (by omega)
          have e2 := ext_rejectAndWalk m1 r.chain e (hpend1 _ hp0) (hns1 _ hp0 (holder_chain_not_doomed h.c hget hu (by omega)))
          exact ⟨e1.trans e2, logOK_ext e2 l1⟩
        | ignore =>
          cases ret with
          | value d => exact ⟨e1, l1⟩
          | void => exact ⟨e1, l1⟩
          | promise q => exact ⟨e1, l1⟩
        | custom cb' =>
          have l2 : LogOK m1.cores (m1.log ++ [.callRej cb' e]) :=
            logOK_append_rej cb' e l1 ⟨c, i, r', cb, ret, hget1, by rw [hk', hk], hexc1, by omega⟩
          cases ret with
          | value d => exact ⟨e1, l2⟩
          | void => exact ⟨e1, l2⟩
          | promise q => exact ⟨e1, l2⟩
      | chainer =>
        have hc : r.isChainer = true := isChainer_of_kind hk
        simp only
        have hp0 : Pending m.cores r.chain := chainer_chain_pending h.c hget hc (hnor (chainer_settler hc)) (by omega)
        have e2 := ext_rejectAndWalk m1 r.chain e (hpend1 _ hp0) (hns1 _ hp0 (chainer_chain_not_doomed h.c hget hc))
        exact ⟨e1.trans e2, logOK_ext e2 l1⟩
      | allInput d idx =>
        have hd : d < m.datas.length := by have := h.dReq c i r hget; unfold DataIn at this; rw [hk] at this; exact this
        simp only
        split
        · exact ⟨e1, l1⟩
        · refine sound_rejectionOn (m1 := m1.setData d _) _ _ e1 l1 ?_
          rw [hdat1]; exact hroot d hd
      | anyInput d =>
        have hd : d < m.datas.length := by have := h.dReq c i r hget; unfold DataIn at this; rw [hk] at this; exact this
        simp only
        split
        · exact ⟨e1, l1⟩
        · refine sound_rejectionOn (m1 := m1.setData d _) _ _ e1 l1 ?_
          rw [hdat1]; exact hroot d hd

theorem sound_step (m : M) (h : Own roots m) (hl : LogOK m.cores m.log) : Sound m (step m) := by
  rw [step_eq]
  split
  · exact ⟨Ext.refl _, hl⟩
  · rename_i p r rest hst
    have e := ext_thenOn { m with stack := rest } p r
    exact ⟨e, by rw [thenOn_log'']; exact logOK_ext e hl⟩
  · rename_i c i rest hst
    have ha := h.s (.resolveReq c i) (by rw [hst]; exact List.mem_cons_self)
    have hpop : Own roots { m with stack := rest } := own_stack rest h (stackOK_cons (hst ▸ h.s)) (stackData_cons (hst ▸ h.dStack))
    exact sound_stepResolve _ c i hpop ha hl
  · rename_i c i rest hst
    have ha := h.s (.rejectReq c i) (by rw [hst]; exact List.mem_cons_self)
    have hpop : Own roots { m with stack := rest } := own_stack rest h (stackOK_cons (hst ▸ h.s)) (stackData_cons (hst ▸ h.dStack))
    exact sound_stepReject _ c i hpop ha hl

theorem sound_run (fuel : Nat) (m : M) (h : Own roots m) (hl : LogOK m.cores m.log) : Sound m (run fuel m) := by
  induction fuel generalizing m with
  | zero => exact ⟨Ext.refl _, hl⟩
  | succ f ih =>
    unfold run
    split
    · exact ⟨Ext.refl _, hl⟩
    · have s1 := sound_step m h hl
      have s2 := ih (step m) (own_step m h) s1.2
      exact ⟨s1.1.trans s2.1, s2.2⟩

end Pistache.Promise
