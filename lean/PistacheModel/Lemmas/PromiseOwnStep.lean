/-
The ownership invariant (Lemmas/PromiseOwn.lean) is kept by every step of the promise machine and by
every operation of a well-formed program.
-/
import PistacheModel.Lemmas.PromiseOwn
import PistacheModel.Lemmas.Promise

namespace Pistache.Promise

/-- combinator requests refer to an existing data block -/
def DataIn (n : Nat) (r : Req) : Prop :=
  match r.kind with
  | .allInput d _ => d < n
  | .anyInput d => d < n
  | _ => True

theorem dataIn_congr {n : Nat} {r r' : Req} (h : r'.kind = r.kind) (hd : DataIn n r) : DataIn n r' := by
  unfold DataIn at *; rw [h]; exact hd

theorem dataIn_mono {n n' : Nat} {r : Req} (h : n ≤ n') (hd : DataIn n r) : DataIn n' r := by
  unfold DataIn at *; split <;> simp_all <;> omega

def StackData (n : Nat) (stack : List Act) : Prop :=
  ∀ a ∈ stack, match a with | .attach _ r => DataIn n r | _ => True

structure Own (roots : List Nat) (m : M) : Prop where
  c : OwnC roots m.cores
  s : StackOK m.cores m.stack
  rootsLt : ∀ d ∈ roots, d < m.cores.length
  dTarget : ∀ dd ∈ m.datas, dd.target ∈ roots
  dReq : ∀ c i r, rq m.cores c i = some r → DataIn m.datas.length r
  dStack : StackData m.datas.length m.stack

/-! ### stack lemmas -/

theorem stackOK_trans {cs cs' : List Core} {st : List Act} (hF : ∀ c, Fulfilled cs c → Fulfilled cs' c)
    (hR : ∀ c, RejOK cs c → RejOK cs' c) (h : StackOK cs st) : StackOK cs' st := by
  intro a ha
  have := h a ha
  cases a with
  | resolveReq c i => exact hF c this
  | rejectReq c i => exact hR c this
  | attach p r => exact this

theorem stackOK_append {cs : List Core} {a b : List Act} (ha : StackOK cs a) (hb : StackOK cs b) : StackOK cs (a ++ b) := by
  intro x hx
  rcases List.mem_append.mp hx with h | h
  · exact ha x h
  · exact hb x h

theorem stackOK_cons {cs : List Core} {a : Act} {b : List Act} (h : StackOK cs (a :: b)) : StackOK cs b :=
  fun x hx => h x (List.mem_cons_of_mem _ hx)

theorem stackOK_walk_res {cs : List Core} {c : Nat} (n : Nat) (h : Fulfilled cs c) : StackOK cs (walk Act.resolveReq c n) := by
  intro a ha
  simp only [walk, List.mem_map] at ha
  obtain ⟨i, _, rfl⟩ := ha
  exact h

theorem stackOK_walk_rej {cs : List Core} {c : Nat} (n : Nat) (h : RejOK cs c) : StackOK cs (walk Act.rejectReq c n) := by
  intro a ha
  simp only [walk, List.mem_map] at ha
  obtain ⟨i, _, rfl⟩ := ha
  exact h

theorem stackData_append {n : Nat} {a b : List Act} (ha : StackData n a) (hb : StackData n b) : StackData n (a ++ b) := by
  intro x hx
  rcases List.mem_append.mp hx with h | h
  · exact ha x h
  · exact hb x h

theorem stackData_walk {n : Nat} (mk : Nat → Nat → Act) (hmk : ∀ c i, match mk c i with | .attach _ _ => False | _ => True) (c k : Nat) :
    StackData n (walk mk c k) := by
  intro a ha
  simp only [walk, List.mem_map] at ha
  obtain ⟨i, _, rfl⟩ := ha
  have := hmk c i
  split <;> simp_all

theorem stackData_walk_res {n : Nat} (c k : Nat) : StackData n (walk Act.resolveReq c k) :=
  stackData_walk _ (fun _ _ => trivial) c k
theorem stackData_walk_rej {n : Nat} (c k : Nat) : StackData n (walk Act.rejectReq c k) :=
  stackData_walk _ (fun _ _ => trivial) c k

theorem stackData_cons {n : Nat} {a : Act} {b : List Act} (h : StackData n (a :: b)) : StackData n b :=
  fun x hx => h x (List.mem_cons_of_mem _ hx)

/-! ### facts derived from the invariant -/

variable {roots : List Nat}

theorem holder_unique {cs : List Core} (o : OwnC roots cs) {c i c' i' : Nat} {r x : Req} (hr : rq cs c i = some r) (hu : r.isUser = true)
    (hx : rq cs c' i' = some x) (hxu : x.isUser = true) (hcc : x.chain = r.chain) : x = r := by
  obtain ⟨rfl, rfl⟩ := o.uniqU c' i' x c i r hx hr hxu hu hcc
  rw [hr] at hx; cases hx; rfl

theorem chainer_unique {cs : List Core} (o : OwnC roots cs) {c i c' i' : Nat} {r x : Req} (hr : rq cs c i = some r) (hu : r.isChainer = true)
    (hx : rq cs c' i' = some x) (hxu : x.isChainer = true) (hcc : x.chain = r.chain) : x = r := by
  obtain ⟨rfl, rfl⟩ := o.uniqC c' i' x c i r hx hr hxu hu hcc
  rw [hr] at hx; cases hx; rfl

/-- if a chainer for the derived core of `r` exists, `r` is promise-returning and has been resolved -/
theorem chainer_implies {cs : List Core} (o : OwnC roots cs) {c i q j : Nat} {r ch : Req} (hr : rq cs c i = some r) (hu : r.isUser = true)
    (hq : rq cs q j = some ch) (hc : ch.isChainer = true) (hcc : ch.chain = r.chain) : r.retPromise = true ∧ 1 ≤ r.rc := by
  obtain ⟨c0, i0, r0, h0, hu0, hc0, hp0, hrc0⟩ := o.prov q j ch hq hc
  have := holder_unique o hr hu h0 hu0 (by rw [hc0, hcc])
  subst this; exact ⟨hp0, hrc0⟩

theorem holder_chain_pending {cs : List Core} (o : OwnC roots cs) {c i : Nat} {r : Req} (hr : rq cs c i = some r) (hu : r.isUser = true)
    (hP : ¬ (r.retPromise = true ∧ 1 ≤ r.rc)) (hF : ¬ (r.retValue = true ∧ 1 ≤ r.rc)) (hR : ¬ (r.rethrows = true ∧ 1 ≤ r.jc)) :
    Pending cs r.chain := by
  rcases st_cases cs r.chain with h | h | h
  · exact h
  · rcases o.spentF c i r hr hu h with h1 | ⟨q, j, ch, hq, hc, hcc, _⟩
    · exact absurd h1 hF
    · exact absurd (chainer_implies o hr hu hq hc hcc) hP
  · rcases o.spentR c i r hr hu h with h1 | ⟨q, j, ch, hq, hc, hcc, _⟩
    · exact absurd h1 hR
    · exact absurd (chainer_implies o hr hu hq hc hcc) hP

theorem chainer_chain_pending {cs : List Core} (o : OwnC roots cs) {q j : Nat} {ch : Req} (hq : rq cs q j = some ch) (hc : ch.isChainer = true)
    (h1 : ¬ 1 ≤ ch.rc) (h2 : ¬ 1 ≤ ch.jc) : Pending cs ch.chain := by
  obtain ⟨c0, i0, r0, h0, hu0, hc0, hp0, hrc0⟩ := o.prov q j ch hq hc
  have hf0 : Fulfilled cs c0 := o.rcOK c0 i0 r0 h0 (user_settler hu0) hrc0
  rcases st_cases cs ch.chain with h | h | h
  · exact h
  · rcases o.spentF c0 i0 r0 h0 hu0 (by rw [hc0]; exact h) with ⟨hv, _⟩ | ⟨q', j', ch', hq', hc', hcc', hr'⟩
    · exact absurd hp0 (fun hp => retValue_not_retPromise hv hp)
    · have := chainer_unique o hq hc hq' hc' (by rw [hcc', hc0]); subst this; exact absurd hr' h1
  · rcases o.spentR c0 i0 r0 h0 hu0 (by rw [hc0]; exact h) with ⟨_, hj⟩ | ⟨q', j', ch', hq', hc', hcc', hr'⟩
    · exact absurd (o.jcOK c0 i0 r0 h0 (user_settler hu0) hj) (fun hr => fulfilled_not_rejOK hf0 hr)
    · have := chainer_unique o hq hc hq' hc' (by rw [hcc', hc0]); subst this; exact absurd hr' h2

/-! ### the machine operations -/

theorem own_congr {m m' : M} (hc : m'.cores = m.cores) (hs : m'.stack = m.stack) (hd : m'.datas = m.datas) (h : Own roots m) : Own roots m' :=
  ⟨by rw [hc]; exact h.c, by rw [hc, hs]; exact h.s, by rw [hc]; exact h.rootsLt, by rw [hd]; exact h.dTarget,
   by rw [hc, hd]; exact h.dReq, by rw [hd, hs]; exact h.dStack⟩

theorem own_stack {m : M} (st : List Act) (h : Own roots m) (h1 : StackOK m.cores st) (h2 : StackData m.datas.length st) :
    Own roots { m with stack := st } :=
  ⟨h.c, h1, h.rootsLt, h.dTarget, h.dReq, h2⟩

theorem own_log {m : M} (l : List Ev) (h : Own roots m) : Own roots { m with log := l } :=
  ⟨h.c, h.s, h.rootsLt, h.dTarget, h.dReq, h.dStack⟩

theorem own_abort {m : M} (l : List Ev) (h : Own roots m) : Own roots { m with log := l, aborted := true, stack := [] } :=
  ⟨h.c, (by intro a ha; cases ha), h.rootsLt, h.dTarget, h.dReq, (by intro a ha; cases ha)⟩

theorem own_setReq {m : M} {c i : Nat} {r r' : Req} (h : Own roots m) (hr : rq m.cores c i = some r)
    (hk : r'.kind = r.kind) (hch : r'.chain = r.chain) (hrc : r.rc ≤ r'.rc) (hjc : r.jc ≤ r'.jc)
    (hF : r.settler = true → 1 ≤ r'.rc → Fulfilled m.cores c) (hR : r.settler = true → 1 ≤ r'.jc → RejOK m.cores c) :
    Own roots (m.setCore c (setReq (m.core c) i r')) := by
  have u := reqUpd_setReq m.cores c i r r' hr
  have fwd := u.fwd hk hch hrc hjc
  refine ⟨ownC_reqUpd h.c u hk hch hrc hjc hF hR, ?_, ?_, h.dTarget, ?_, h.dStack⟩
  · exact stackOK_trans (fun c hc => fulfilled_of_st (u.st c) hc) (fun c hc => rejOK_fwd (u.st c) fwd hc) h.s
  · intro d hd; show d < (m.cores.set c _).length; rw [List.length_set]; exact h.rootsLt d hd
  · intro c' i' x hx
    obtain ⟨y, hy, hyk, _⟩ := u.back hk hch hrc hjc hx
    exact dataIn_congr hyk.symm (h.dReq c' i' y hy)

theorem own_fulfilAndWalk {m : M} {d : Nat} {v : Int} (h : Own roots m) (hd : d < m.cores.length) (hp : Pending m.cores d)
    (hnd : ¬ Doomed m.cores d)
    (hF : ∀ c i r, rq m.cores c i = some r → r.isUser = true → r.chain = d →
      (r.retValue = true ∧ 1 ≤ r.rc) ∨ (∃ q j ch, rq m.cores q j = some ch ∧ ch.isChainer = true ∧ ch.chain = d ∧ 1 ≤ ch.rc)) :
    Own roots (fulfilAndWalk m d v) := by
  have u := stUpd_set m.cores d (.fulfilled v) hd
  have hful : Fulfilled (m.cores.set d { m.cores.getD d {} with st := .fulfilled v }) d := ⟨v, u.new⟩
  have hst : StackOK (m.cores.set d { m.cores.getD d {} with st := .fulfilled v }) m.stack :=
    stackOK_trans (fun c hc => u.fulfilled_mono hp hc) (fun c hc => u.rejOK_mono hp (fun hdm => absurd hdm hnd) hc) h.s
  refine ⟨ownC_fulfil h.c u hp hnd hF, ?_, ?_, h.dTarget, ?_, ?_⟩
  · exact stackOK_append (stackOK_walk_res _ hful) hst
  · intro d' hd'; show d' < (m.cores.set d _).length; rw [List.length_set]; exact h.rootsLt d' hd'
  · intro c i r hr
    have hr' : rq (m.cores.set d { m.cores.getD d {} with st := .fulfilled v }) c i = some r := hr
    rw [u.rqs] at hr'; exact h.dReq c i r hr'
  · exact stackData_append (stackData_walk_res _ _) h.dStack

theorem own_rejectAndWalk {m : M} {d : Nat} {e : Nat} (h : Own roots m) (hd : d < m.cores.length) (hp : Pending m.cores d)
    (hR : ∀ c i r, rq m.cores c i = some r → r.isUser = true → r.chain = d →
      (r.rethrows = true ∧ 1 ≤ r.jc) ∨ (∃ q j ch, rq m.cores q j = some ch ∧ ch.isChainer = true ∧ ch.chain = d ∧ 1 ≤ ch.jc)) :
    Own roots (rejectAndWalk m d e) := by
  have u := stUpd_set m.cores d (.rejected e) hd
  have hrej : Rejected (m.cores.set d { m.cores.getD d {} with st := .rejected e }) d := ⟨e, u.new⟩
  have hst : StackOK (m.cores.set d { m.cores.getD d {} with st := .rejected e }) m.stack :=
    stackOK_trans (fun c hc => u.fulfilled_mono hp hc) (fun c hc => u.rejOK_mono hp (fun _ => hrej) hc) h.s
  refine ⟨ownC_reject h.c u hp hR, ?_, ?_, h.dTarget, ?_, ?_⟩
  · exact stackOK_append (stackOK_walk_rej _ (Or.inl hrej)) hst
  · intro d' hd'; show d' < (m.cores.set d _).length; rw [List.length_set]; exact h.rootsLt d' hd'
  · intro c i r hr
    have hr' : rq (m.cores.set d { m.cores.getD d {} with st := .rejected e }) c i = some r := hr
    rw [u.rqs] at hr'; exact h.dReq c i r hr'
  · exact stackData_append (stackData_walk_rej _ _) h.dStack

theorem own_thenOn {m : M} {p : Nat} {r : Req} (h : Own roots m) (h0 : r.rc = 0 ∧ r.jc = 0)
    (hU : r.isUser = true → r.chain < m.cores.length ∧ (∀ c i y, rq m.cores c i = some y → y.isUser = true → y.chain ≠ r.chain) ∧
      r.chain ∉ roots ∧ Pending m.cores r.chain)
    (hC : r.isChainer = true → r.chain < m.cores.length ∧ (∀ c i y, rq m.cores c i = some y → y.isChainer = true → y.chain ≠ r.chain) ∧
      (∃ c i y, rq m.cores c i = some y ∧ y.isUser = true ∧ y.chain = r.chain ∧ y.retPromise = true ∧ 1 ≤ y.rc))
    (hD : DataIn m.datas.length r) : Own roots (thenOn m p r) := by
  by_cases hp : p < m.cores.length
  · have u := appUpd_set m.cores p r hp
    have fwd := u.fwd
    have base : Own roots (m.setCore p { m.core p with reqs := (m.core p).reqs ++ [r] }) := by
      refine ⟨ownC_append h.c u h0 hU hC, ?_, ?_, h.dTarget, ?_, h.dStack⟩
      · exact stackOK_trans (fun c hc => fulfilled_of_st (u.st c) hc) (fun c hc => rejOK_fwd (u.st c) fwd hc) h.s
      · intro d hd; show d < (m.cores.set p _).length; rw [List.length_set]; exact h.rootsLt d hd
      · intro c i x hx
        rcases u.back hx with ⟨_, _, rfl⟩ | hx
        · exact hD
        · exact h.dReq c i x hx
    unfold thenOn
    simp only []
    split
    · exact base
    · rename_i v hv
      refine own_stack _ base ?_ ?_
      · intro a ha
        rcases List.mem_cons.mp ha with rfl | ha
        · exact fulfilled_of_st (u.st p) ⟨v, hv⟩
        · exact base.s a ha
      · intro a ha
        rcases List.mem_cons.mp ha with rfl | ha
        · trivial
        · exact base.dStack a ha
    · rename_i e he
      refine own_stack _ base ?_ ?_
      · intro a ha
        rcases List.mem_cons.mp ha with rfl | ha
        · exact Or.inl (rejected_of_st (u.st p) ⟨e, he⟩)
        · exact base.s a ha
      · intro a ha
        rcases List.mem_cons.mp ha with rfl | ha
        · trivial
        · exact base.dStack a ha
  · have hset : ∀ x, m.cores.set p x = m.cores := fun x => List.set_eq_of_length_le (by omega)
    have hst : (m.core p).st = .pending := by
      show (m.cores.getD p {}).st = .pending; rw [getD_oob m.cores p (by omega)]
    unfold thenOn
    simp only [hst]
    exact own_congr (hset _) rfl rfl h

theorem own_setData {m : M} {d : Nat} {x : Data} (h : Own roots m) (hx : x.target ∈ roots) : Own roots (m.setData d x) := by
  refine ⟨h.c, h.s, h.rootsLt, ?_, ?_, ?_⟩
  · intro dd hdd
    rcases List.mem_or_eq_of_mem_set hdd with hdd | rfl
    · exact h.dTarget dd hdd
    · exact hx
  · intro c i r hr; show DataIn (m.datas.set d x).length r; rw [List.length_set]; exact h.dReq c i r hr
  · show StackData (m.datas.set d x).length m.stack; rw [List.length_set]; exact h.dStack

theorem data_mem (m : M) (d : Nat) (h : d < m.datas.length) : m.data d ∈ m.datas := by
  unfold M.data
  simp [List.getD, List.getElem?_eq_getElem h]

theorem root_not_doomed {cs : List Core} (o : OwnC roots cs) {d : Nat} (hd : d ∈ roots) : ¬ Doomed cs d := by
  rintro ⟨_, c0, i0, r0, h0, hu0, hc0, _⟩
  exact o.noHolder d hd c0 i0 r0 h0 hu0 hc0

theorem own_resolverOn {m : M} {c : Nat} {v : Int} (h : Own roots m) (hc : c ∈ roots) : Own roots (resolverOn m c v) := by
  unfold resolverOn
  split
  · rename_i hst
    exact own_fulfilAndWalk h (h.rootsLt c hc) hst (root_not_doomed h.c hc)
      (fun c0 i0 r0 h0 hu0 hc0 => absurd hc0 (h.c.noHolder c hc c0 i0 r0 h0 hu0))
  · exact own_abort _ h

theorem own_rejectionOn {m : M} {c : Nat} {e : Nat} (h : Own roots m) (hc : c ∈ roots) : Own roots (rejectionOn m c e) := by
  unfold rejectionOn
  split
  · rename_i hst
    exact own_rejectAndWalk h (h.rootsLt c hc) hst
      (fun c0 i0 r0 h0 hu0 hc0 => absurd hc0 (h.c.noHolder c hc c0 i0 r0 h0 hu0))
  · exact own_abort _ h

theorem isUser_of_kind {r : Req} {cb : Nat} {ret : Ret} {rej : Rej} (hk : r.kind = .user cb ret rej) : r.isUser = true := by
  unfold Req.isUser; rw [hk]
theorem isChainer_of_kind {r : Req} (hk : r.kind = .chainer) : r.isChainer = true := by
  unfold Req.isChainer; rw [hk]

theorem own_stepResolve (m : M) (c i : Nat) (h : Own roots m) (hf : Fulfilled m.cores c) : Own roots (stepResolve m c i) := by
  unfold stepResolve
  simp only
  split
  · exact h
  · rename_i r hget
    split
    · exact h
    · rename_i hrc'
      have hrc : r.rc = 0 := by omega
      have hget : rq m.cores c i = some r := hget
      generalize harg : (m.core c).st.val = arg
      have hnoj : r.settler = true → ¬ 1 ≤ r.jc := fun hs hj => fulfilled_not_rejOK hf (h.c.jcOK c i r hget hs hj)
      obtain ⟨r', hr'⟩ : ∃ r', r' = ({ r with rc := r.rc + 1 } : Req) := ⟨_, rfl⟩
      have hk' : r'.kind = r.kind := by rw [hr']
      have hch' : r'.chain = r.chain := by rw [hr']
      have hrc1 : r'.rc = r.rc + 1 := by rw [hr']
      have hjc' : r'.jc = r.jc := by rw [hr']
      rw [← hr']
      clear hr'
      have u := reqUpd_setReq m.cores c i r r' hget
      have fwd := u.fwd hk' hch' (by omega) (by omega)
      have hb : Own roots (m.setCore c (setReq (m.core c) i r')) :=
        own_setReq h hget hk' hch' (by omega) (by omega) (fun _ _ => hf) (fun hs hj => h.c.jcOK c i r hget hs (by omega))
      have hget1 : rq (m.setCore c (setReq (m.core c) i r')).cores c i = some r' := u.new
      cases hk : r.kind with
      | user cb ret rej =>
        have hu : r.isUser = true := isUser_of_kind hk
        have hu' : r'.isUser = true := by rw [isUser_congr hk']; exact hu
        simp only
        cases ret with
        | value d =>
          simp only
          have hp0 : Pending m.cores r.chain := holder_chain_pending h.c hget hu (by omega) (by omega) (fun hh => hnoj (user_settler hu) hh.2)
          refine own_fulfilAndWalk (own_log _ hb) ?_ ?_ ?_ ?_
          · have := hb.c.bound c i _ hget1 (user_settler hu'); rw [hch'] at this; exact this
          · exact pending_of_st (u.st _) hp0
          · rintro ⟨_, c0, i0, r0, h0, hu0, hc0, hj0⟩
            have := holder_unique hb.c hget1 hu' h0 hu0 (by rw [hc0, hch'])
            subst this
            exact hnoj (user_settler hu) (by omega)
          · intro c0 i0 r0 h0 hu0 hc0
            have := holder_unique hb.c hget1 hu' h0 hu0 (by rw [hc0, hch'])
            subst this
            exact Or.inl ⟨by unfold Req.retValue; rw [hk', hk], by omega⟩
        | void => exact own_log _ hb
        | promise q =>
          simp only
          refine own_thenOn (own_log _ hb) ⟨rfl, rfl⟩ (fun hcu => by simp [Req.isUser] at hcu) ?_ (by simp [DataIn])
          intro _
          refine ⟨?_, ?_, ⟨c, i, r', hget1, hu', hch', by unfold Req.retPromise; rw [hk', hk], by omega⟩⟩
          · have := hb.c.bound c i _ hget1 (user_settler hu'); rw [hch'] at this; exact this
          · intro c2 i2 y hy hyc hcc
            obtain ⟨y0, hy0, hyk, hych, _⟩ := u.back hk' hch' (by omega) (by omega) hy
            have := chainer_implies h.c hget hu hy0 (by rw [isChainer_congr hyk]; exact hyc) (by rw [hych]; exact hcc)
            omega
      | chainer =>
        have hc : r.isChainer = true := isChainer_of_kind hk
        have hc' : r'.isChainer = true := by rw [isChainer_congr hk']; exact hc
        simp only
        have hp0 : Pending m.cores r.chain := chainer_chain_pending h.c hget hc (by omega) (hnoj (chainer_settler hc))
        refine own_fulfilAndWalk hb ?_ ?_ ?_ ?_
        · have := hb.c.bound c i _ hget1 (chainer_settler hc'); rw [hch'] at this; exact this
        · exact pending_of_st (u.st _) hp0
        · rintro ⟨_, c0, i0, r0, h0, hu0, hc0, hj0⟩
          obtain ⟨y0, hy0, hyk, hych, _, hyj, hne, heq⟩ := u.back hk' hch' (by omega) (by omega) h0
          by_cases hpos : c0 = c ∧ i0 = i
          · have := (heq hpos).1; subst this
            rw [user_not_chainer hu0] at hc'; cases hc'
          · have := hne hpos; subst this
            obtain ⟨c1, i1, r1, h1, hu1, hc1, hp1, hrc1'⟩ := h.c.prov c i r hget hc
            have := holder_unique h.c h1 hu1 hy0 hu0 (by rw [hc0, hc1])
            subst this
            exact fulfilled_not_rejOK (h.c.rcOK c0 i0 y0 hy0 (user_settler hu0) hrc1') (h.c.jcOK c0 i0 y0 hy0 (user_settler hu0) hj0)
        · intro c0 i0 r0 h0 hu0 hc0
          exact Or.inr ⟨c, i, r', hget1, hc', hch', by omega⟩
      | allInput d idx =>
        have hd : d < m.datas.length := by have := h.dReq c i r hget; unfold DataIn at this; rw [hk] at this; exact this
        have htgt : (m.data d).target ∈ roots := h.dTarget _ (data_mem m d hd)
        simp only
        split
        · exact hb
        · split
          · exact own_resolverOn (own_setData hb htgt) htgt
          · exact own_setData hb htgt
      | anyInput d =>
        have hd : d < m.datas.length := by have := h.dReq c i r hget; unfold DataIn at this; rw [hk] at this; exact this
        have htgt : (m.data d).target ∈ roots := h.dTarget _ (data_mem m d hd)
        simp only
        split
        · exact hb
        · exact own_resolverOn (own_setData hb htgt) htgt

theorem own_pushWalkRej {m : M} {d n : Nat} (h : Own roots m) (hr : RejOK m.cores d) :
    Own roots { m with stack := walk Act.rejectReq d n ++ m.stack } :=
  own_stack _ h (stackOK_append (stackOK_walk_rej _ hr) h.s) (stackData_append (stackData_walk_rej _ _) h.dStack)

theorem own_stepReject (m : M) (c i : Nat) (h : Own roots m) (hrej : RejOK m.cores c) : Own roots (stepReject m c i) := by
  unfold stepReject
  simp only
  split
  · exact h
  · rename_i r hget
    split
    · exact h
    · rename_i hjc'
      have hjc : r.jc = 0 := by omega
      have hget : rq m.cores c i = some r := hget
      generalize he : (m.core c).st.exc = e
      have hnor : r.settler = true → ¬ 1 ≤ r.rc := fun hs hj => fulfilled_not_rejOK (h.c.rcOK c i r hget hs hj) hrej
      obtain ⟨r', hr'⟩ : ∃ r', r' = ({ r with jc := r.jc + 1 } : Req) := ⟨_, rfl⟩
      have hk' : r'.kind = r.kind := by rw [hr']
      have hch' : r'.chain = r.chain := by rw [hr']
      have hrc' : r'.rc = r.rc := by rw [hr']
      have hjc1 : r'.jc = r.jc + 1 := by rw [hr']
      rw [← hr']
      clear hr'
      have u := reqUpd_setReq m.cores c i r r' hget
      have fwd := u.fwd hk' hch' (by omega) (by omega)
      have hb : Own roots (m.setCore c (setReq (m.core c) i r')) :=
        own_setReq h hget hk' hch' (by omega) (by omega) (fun hs hj => h.c.rcOK c i r hget hs (by omega)) (fun _ _ => hrej)
      have hget1 : rq (m.setCore c (setReq (m.core c) i r')).cores c i = some r' := u.new
      have hrej1 : RejOK (m.setCore c (setReq (m.core c) i r')).cores c := rejOK_fwd (u.st c) fwd hrej
      cases hk : r.kind with
      | user cb ret rej =>
        have hu : r.isUser = true := isUser_of_kind hk
        have hu' : r'.isUser = true := by rw [isUser_congr hk']; exact hu
        have hbound : r.chain < (m.setCore c (setReq (m.core c) i r')).cores.length := by
          have := hb.c.bound c i _ hget1 (user_settler hu'); rw [hch'] at this; exact this
        have hpend : ¬ (r.rethrows = true ∧ 1 ≤ r.jc) → Pending (m.setCore c (setReq (m.core c) i r')).cores r.chain := fun hR =>
          pending_of_st (u.st _) (holder_chain_pending h.c hget hu (fun hh => hnor (user_settler hu) hh.2) (fun hh => hnor (user_settler hu) hh.2) hR)
        have hdoomed : ¬ (r.rethrows = true ∧ 1 ≤ r.jc) → RejOK (m.setCore c (setReq (m.core c) i r')).cores r.chain := fun hR =>
          Or.inr ⟨hpend hR, c, i, r', hget1, hu', hch', by omega⟩
        simp only
        cases rej with
        | rethrow =>
          simp only
          refine own_rejectAndWalk hb hbound (hpend (by omega)) ?_
          intro c0 i0 r0 h0 hu0 hc0
          have := holder_unique hb.c hget1 hu' h0 hu0 (by rw [hc0, hch'])
          subst this
          exact Or.inl ⟨by unfold Req.rethrows; rw [hk', hk], by omega⟩
        | ignore =>
          have hnr : ¬ (r.rethrows = true ∧ 1 ≤ r.jc) := by omega
          cases ret with
          | value d => exact own_pushWalkRej hb (hdoomed hnr)
          | void => exact hb
          | promise q => exact own_pushWalkRej hb hrej1
        | custom cb' =>
          have hnr : ¬ (r.rethrows = true ∧ 1 ≤ r.jc) := by omega
          cases ret with
          | value d => simp only; exact own_congr (by rfl) (by rfl) (by rfl) (own_pushWalkRej hb (hdoomed hnr))
          | void => exact own_log _ hb
          | promise q => simp only; exact own_congr (by rfl) (by rfl) (by rfl) (own_pushWalkRej hb hrej1)
      | chainer =>
        have hc : r.isChainer = true := isChainer_of_kind hk
        have hc' : r'.isChainer = true := by rw [isChainer_congr hk']; exact hc
        simp only
        have hp0 : Pending m.cores r.chain := chainer_chain_pending h.c hget hc (hnor (chainer_settler hc)) (by omega)
        refine own_rejectAndWalk hb ?_ (pending_of_st (u.st _) hp0) ?_
        · have := hb.c.bound c i _ hget1 (chainer_settler hc'); rw [hch'] at this; exact this
        · intro c0 i0 r0 h0 hu0 hc0
          exact Or.inr ⟨c, i, r', hget1, hc', hch', by omega⟩
      | allInput d idx =>
        have hd : d < m.datas.length := by have := h.dReq c i r hget; unfold DataIn at this; rw [hk] at this; exact this
        have htgt : (m.data d).target ∈ roots := h.dTarget _ (data_mem m d hd)
        simp only
        split
        · exact hb
        · exact own_rejectionOn (own_setData hb htgt) htgt
      | anyInput d =>
        have hd : d < m.datas.length := by have := h.dReq c i r hget; unfold DataIn at this; rw [hk] at this; exact this
        have htgt : (m.data d).target ∈ roots := h.dTarget _ (data_mem m d hd)
        simp only
        split
        · exact hb
        · exact own_rejectionOn (own_setData hb htgt) htgt

theorem own_step (m : M) (h : Own roots m) : Own roots (step m) := by
  rw [step_eq]
  split
  · exact h
  · rename_i p r rest hst
    have ha := h.s (.attach p r) (by rw [hst]; exact List.mem_cons_self)
    have hd := h.dStack (.attach p r) (by rw [hst]; exact List.mem_cons_self)
    have hpop : Own roots { m with stack := rest } := own_stack rest h (stackOK_cons (hst ▸ h.s)) (stackData_cons (hst ▸ h.dStack))
    refine own_thenOn hpop ⟨ha.2.1, ha.2.2⟩ ?_ ?_ hd
    · intro hu; have := user_settler hu; rw [ha.1] at this; cases this
    · intro hc; have := chainer_settler hc; rw [ha.1] at this; cases this
  · rename_i c i rest hst
    have ha := h.s (.resolveReq c i) (by rw [hst]; exact List.mem_cons_self)
    have hpop : Own roots { m with stack := rest } := own_stack rest h (stackOK_cons (hst ▸ h.s)) (stackData_cons (hst ▸ h.dStack))
    exact own_stepResolve _ c i hpop ha
  · rename_i c i rest hst
    have ha := h.s (.rejectReq c i) (by rw [hst]; exact List.mem_cons_self)
    have hpop : Own roots { m with stack := rest } := own_stack rest h (stackOK_cons (hst ▸ h.s)) (stackData_cons (hst ▸ h.dStack))
    exact own_stepReject _ c i hpop ha

theorem own_run (fuel : Nat) (m : M) (h : Own roots m) : Own roots (run fuel m) := by
  induction fuel generalizing m with
  | zero => exact h
  | succ f ih =>
    unfold run
    split
    · exact h
    · exact ih _ (own_step m h)

end Pistache.Promise
