/-
Absorption: the effects left on the message by an abandoned attempt of a step do not change what the
next, longer attempt produces:  (m.apps t).apps (t ++ t2) = m.apps (t ++ t2).
-/
import PistacheModel.Model.Parser

namespace Pistache.Parser
open Pistache Pistache.Stream

/-! ### generic: replaying a trace on its own result is the identity -/

/-- `D x e`: effect `e` is already absorbed by state `x` -/
theorem replay_of_done {σ : Type} (f : σ → Eff → σ) (Q : Eff → Prop) (D : σ → Eff → Prop)
    (ha : ∀ x e, Q e → D (f x e) e)
    (hb : ∀ x e e', Q e' → D x e → D (f x e') e)
    (hc : ∀ x e, D x e → f x e = x) :
    ∀ (t : List Eff), (∀ e ∈ t, Q e) → ∀ x, t.foldl f (t.foldl f x) = t.foldl f x := by
  have persist : ∀ (t : List Eff), (∀ e ∈ t, Q e) → ∀ x e, D x e → D (t.foldl f x) e := by
    intro t; induction t with
    | nil => intro _ x e h; exact h
    | cons e0 t' ih => intro hq x e h; exact ih (fun y hy => hq y (by simp [hy])) (f x e0) e (hb x e e0 (hq e0 (by simp)) h)
  have alldone : ∀ (t : List Eff), (∀ e ∈ t, Q e) → ∀ x, ∀ e ∈ t, D (t.foldl f x) e := by
    intro t; induction t with
    | nil => intro _ x e he; simp at he
    | cons e0 t' ih =>
      intro hq x e he
      simp only [List.mem_cons] at he
      simp only [List.foldl_cons]
      rcases he with rfl | he
      · exact persist t' (fun y hy => hq y (by simp [hy])) (f x e) e (ha x e (hq e (by simp)))
      · exact ih (fun y hy => hq y (by simp [hy])) (f x e0) e he
  have noop : ∀ (t : List Eff) (y : σ), (∀ e ∈ t, D y e) → t.foldl f y = y := by
    intro t; induction t with
    | nil => intro y _; rfl
    | cons e0 t' ih =>
      intro y h
      simp only [List.foldl_cons]
      rw [hc y e0 (h e0 (by simp))]
      exact ih y (fun e he => h e (by simp [he]))
  intro t hq x
  exact noop t _ (alldone t hq x)

/-- last-write-wins fields -/
theorem replay_lww {σ : Type} (g : Eff → Option σ) (f : σ → Eff → σ) (hf : ∀ x e, f x e = (g e).getD x) :
    ∀ (t : List Eff) (x : σ), t.foldl f (t.foldl f x) = t.foldl f x := by
  have glast : ∀ (v : σ) (l : List σ), (v :: l).getLast? = some (l.getLast?.getD v) := by
    intro v l
    induction l generalizing v with
    | nil => rfl
    | cons w l' ih => rw [List.getLast?_cons_cons, ih w]; simp
  have key : ∀ (t : List Eff) (x : σ), t.foldl f x = ((t.filterMap g).getLast?).getD x := by
    intro t
    induction t with
    | nil => intro x; rfl
    | cons e t' ih =>
      intro x
      rw [List.foldl_cons, ih, hf]
      cases hg : g e with
      | none => simp [List.filterMap_cons, hg]
      | some v => simp [List.filterMap_cons, hg, glast]
  intro t x
  rw [key t (t.foldl f x), key t x]
  cases (t.filterMap g).getLast? <;> rfl

/-! ### keep-first maps -/

theorem kfInsert_present {κ ν : Type} [DecidableEq κ] (m : List (κ × ν)) (k : κ) (v : ν)
    (h : m.any (fun p => p.1 = k) = true) : kfInsert m k v = m := by
  unfold kfInsert; rw [if_pos h]

theorem kfInsert_has {κ ν : Type} [DecidableEq κ] (m : List (κ × ν)) (k : κ) (v : ν) :
    (kfInsert m k v).any (fun p => p.1 = k) = true := by
  unfold kfInsert; split
  · assumption
  · simp

theorem kfInsert_mono {κ ν : Type} [DecidableEq κ] (m : List (κ × ν)) (k k' : κ) (v' : ν)
    (h : m.any (fun p => p.1 = k) = true) : (kfInsert m k' v').any (fun p => p.1 = k) = true := by
  unfold kfInsert; split
  · exact h
  · rw [List.any_append, h]; rfl

theorem rawInsert_present (m : List (Bytes × Bytes)) (n v : Bytes)
    (h : m.any (fun p => p.1.map lower = n.map lower) = true) : rawInsert m n v = m := by
  unfold rawInsert; rw [if_pos h]

theorem rawInsert_has (m : List (Bytes × Bytes)) (n v : Bytes) :
    (rawInsert m n v).any (fun p => p.1.map lower = n.map lower) = true := by
  unfold rawInsert; split
  · assumption
  · simp

theorem rawInsert_mono (m : List (Bytes × Bytes)) (n n' v' : Bytes)
    (h : m.any (fun p => p.1.map lower = n.map lower) = true) :
    (rawInsert m n' v').any (fun p => p.1.map lower = n.map lower) = true := by
  unfold rawInsert; split
  · exact h
  · rw [List.any_append, h]; rfl

theorem replay_query : ∀ (t : List Eff) (x : List (Bytes × Bytes)), t.foldl fQuery (t.foldl fQuery x) = t.foldl fQuery x := by
  intro t x
  refine replay_of_done fQuery (fun _ => True)
    (fun x e => match e with | .queryAdd k _ => x.any (fun p => p.1 = k) = true | _ => True) ?_ ?_ ?_ t (fun _ _ => trivial) x
  · intro x e _; cases e <;> simp [fQuery, kfInsert_has]
  · intro x e e' _ h
    cases e <;> try trivial
    cases e' <;> simp_all [fQuery, kfInsert_mono]
  · intro x e h; cases e <;> simp_all [fQuery, kfInsert_present]

theorem replay_typed : ∀ (t : List Eff) (x : List (String × Bytes)), t.foldl fTyped (t.foldl fTyped x) = t.foldl fTyped x := by
  intro t x
  refine replay_of_done fTyped (fun _ => True)
    (fun x e => match e with | .typedAdd k _ => x.any (fun p => p.1 = k) = true | _ => True) ?_ ?_ ?_ t (fun _ _ => trivial) x
  · intro x e _; cases e <;> simp [fTyped, kfInsert_has]
  · intro x e e' _ h
    cases e <;> try trivial
    cases e' <;> simp_all [fTyped, kfInsert_mono]
  · intro x e h; cases e <;> simp_all [fTyped, kfInsert_present]

theorem replay_raw : ∀ (t : List Eff) (x : List (Bytes × Bytes)), t.foldl fRaw (t.foldl fRaw x) = t.foldl fRaw x := by
  intro t x
  refine replay_of_done fRaw (fun _ => True)
    (fun x e => match e with | .rawAdd n _ => x.any (fun p => p.1.map lower = n.map lower) = true | _ => True) ?_ ?_ ?_ t (fun _ _ => trivial) x
  · intro x e _; cases e <;> simp [fRaw, rawInsert_has]
  · intro x e e' _ h
    cases e <;> try trivial
    cases e' <;> simp_all [fRaw, rawInsert_mono]
  · intro x e h; cases e <;> simp_all [fRaw, rawInsert_present]

/-! ### cookies: keep-first per (name,value), with reset -/

/-- the pair (name,value) of `c` is stored (mirrors the search order of `jarAdd`) -/
def present : Cookie.Jar → Cookie.Cookie → Bool
  | [], _ => false
  | (n, inner) :: rest, c => if n = c.name then inner.any (fun p => p.1 = c.value) else present rest c

theorem jarAddInner_present (inner : List (Bytes × Cookie.Cookie)) (c : Cookie.Cookie)
    (h : inner.any (fun p => p.1 = c.value) = true) : Cookie.jarAddInner inner c = inner := by
  induction inner with
  | nil => simp at h
  | cons p r ih =>
    obtain ⟨v, c'⟩ := p
    simp only [Cookie.jarAddInner]
    split
    · rfl
    · rename_i hne
      simp only [List.any_cons, hne, decide_false, Bool.false_or] at h
      rw [ih h]

theorem jarAddInner_has (inner : List (Bytes × Cookie.Cookie)) (c : Cookie.Cookie) :
    (Cookie.jarAddInner inner c).any (fun p => p.1 = c.value) = true := by
  induction inner with
  | nil => simp [Cookie.jarAddInner]
  | cons p r ih =>
    obtain ⟨v, c'⟩ := p
    simp only [Cookie.jarAddInner]
    split
    · rename_i h; simp [h]
    · simp [ih]

theorem jarAddInner_mono (inner : List (Bytes × Cookie.Cookie)) (c c' : Cookie.Cookie)
    (h : inner.any (fun p => p.1 = c.value) = true) : (Cookie.jarAddInner inner c').any (fun p => p.1 = c.value) = true := by
  induction inner with
  | nil => simp at h
  | cons p r ih =>
    obtain ⟨v, c0⟩ := p
    simp only [Cookie.jarAddInner]
    split
    · exact h
    · simp only [List.any_cons, Bool.or_eq_true, decide_eq_true_eq] at h ⊢
      rcases h with h | h
      · exact Or.inl h
      · exact Or.inr (ih h)

theorem jarAdd_present (j : Cookie.Jar) (c : Cookie.Cookie) (h : present j c = true) : Cookie.jarAdd j c = j := by
  induction j with
  | nil => simp [present] at h
  | cons b r ih =>
    obtain ⟨n, inner⟩ := b
    simp only [Cookie.jarAdd, present] at h ⊢
    split
    · rename_i hn; rw [if_pos hn] at h; rw [jarAddInner_present inner c h]
    · rename_i hn; rw [if_neg hn] at h; rw [ih h]

theorem jarAdd_has (j : Cookie.Jar) (c : Cookie.Cookie) : present (Cookie.jarAdd j c) c = true := by
  induction j with
  | nil => simp [Cookie.jarAdd, present]
  | cons b r ih =>
    obtain ⟨n, inner⟩ := b
    simp only [Cookie.jarAdd]
    split
    · rename_i hn; simp only [present, hn, if_true]; exact jarAddInner_has inner c
    · rename_i hn; simp only [present, hn, if_false]; exact ih

theorem jarAdd_mono (j : Cookie.Jar) (c c' : Cookie.Cookie) (h : present j c = true) :
    present (Cookie.jarAdd j c') c = true := by
  induction j with
  | nil => simp [present] at h
  | cons b r ih =>
    obtain ⟨n, inner⟩ := b
    simp only [Cookie.jarAdd]
    split
    · rename_i hn'
      simp only [present] at h ⊢
      by_cases hn : n = c.name
      · rw [if_pos hn] at h ⊢; exact jarAddInner_mono inner c c' h
      · rw [if_neg hn] at h ⊢; exact h
    · rename_i hn'
      simp only [present] at h ⊢
      by_cases hn : n = c.name
      · rw [if_pos hn] at h ⊢; exact h
      · rw [if_neg hn] at h ⊢; exact ih h

/-- a trace with a reset makes the jar independent of where it started -/
theorem cookies_reset_const (t : List Eff) (h : Eff.cookiesReset ∈ t) :
    ∀ (x y : Cookie.Jar), t.foldl fCookies x = t.foldl fCookies y := by
  induction t with
  | nil => simp at h
  | cons e t' ih =>
    intro x y
    simp only [List.foldl_cons]
    by_cases h' : Eff.cookiesReset ∈ t'
    · exact ih h' _ _
    · have : e = Eff.cookiesReset := by
        simp only [List.mem_cons] at h; rcases h with h | h
        · exact h.symm
        · exact absurd h h'
      subst this; rfl

theorem replay_cookies : ∀ (t : List Eff) (x : Cookie.Jar), t.foldl fCookies (t.foldl fCookies x) = t.foldl fCookies x := by
  intro t x
  by_cases h : Eff.cookiesReset ∈ t
  · exact cookies_reset_const t h _ _
  · refine replay_of_done fCookies (fun e => e ≠ Eff.cookiesReset)
      (fun x e => match e with | .cookieAdd c => present x c = true | .cookiesReset => False | _ => True) ?_ ?_ ?_ t
      (fun e he heq => h (heq ▸ he)) x
    · intro x e hq; cases e <;> simp_all [fCookies, jarAdd_has]
    · intro x e e' hq hd
      cases e <;> try trivial
      cases e' <;> simp_all [fCookies, jarAdd_mono]
    · intro x e hd; cases e <;> simp_all [fCookies, jarAdd_present]

/-! ### the message -/

theorem apps_fields (t : List Eff) : ∀ (m : Msg), m.apps t =
    { method := t.foldl fMethod m.method, resource := t.foldl fResource m.resource,
      version := t.foldl fVersion m.version, code := t.foldl fCode m.code,
      query := t.foldl fQuery m.query, typed := t.foldl fTyped m.typed, raw := t.foldl fRaw m.raw,
      cookies := t.foldl fCookies m.cookies, body := m.body } := by
  induction t with
  | nil => intro m; rfl
  | cons e t' ih => intro m; simp only [Msg.apps, List.foldl_cons] at ih ⊢; rw [ih (m.app e)]; rfl

theorem apps_append (m : Msg) (t t2 : List Eff) : m.apps (t ++ t2) = (m.apps t).apps t2 := by
  simp [Msg.apps, List.foldl_append]

/-- replaying a trace on its own result changes nothing -/
theorem apps_replay (m : Msg) (t : List Eff) : (m.apps t).apps t = m.apps t := by
  rw [apps_fields t (m.apps t), apps_fields t m]
  simp only
  have h1 := replay_lww (fun e => match e with | .setMethod i => some (some i) | _ => none) fMethod
    (by intro x e; cases e <;> rfl) t m.method
  have h2 := replay_lww (fun e => match e with | .setResource r => some r | _ => none) fResource
    (by intro x e; cases e <;> rfl) t m.resource
  have h3 := replay_lww (fun e => match e with | .setVersion v => some v | _ => none) fVersion
    (by intro x e; cases e <;> rfl) t m.version
  have h4 := replay_lww (fun e => match e with | .setCode c => some c | _ => none) fCode
    (by intro x e; cases e <;> rfl) t m.code
  rw [h1, h2, h3, h4, replay_query, replay_typed, replay_raw, replay_cookies]

/-- ABSORPTION: what an abandoned attempt left behind does not influence the next, longer attempt -/
theorem apps_absorb (m : Msg) (t t2 : List Eff) : (m.apps t).apps (t ++ t2) = m.apps (t ++ t2) := by
  rw [apps_append (m.apps t) t t2, apps_replay, ← apps_append]

end Pistache.Parser
