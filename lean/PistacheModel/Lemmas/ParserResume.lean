/-
Resume: after an attempt that ended "need more data", continuing with the new bytes gives exactly the
state and outcome that parsing from the earlier state with all the bytes gives.
-/
import PistacheModel.Lemmas.ParserSteps
import PistacheModel.Lemmas.ParserAbsorb

namespace Pistache.Parser
open Pistache Pistache.Stream

/-- append bytes to the buffer (what `feed` does when the size limit allows) -/
def feedRaw (p : PState) (e : Bytes) : PState := { p with total := p.total + e.length, unread := p.unread ++ e }

theorem bodyFeed_append (st : BSt) (a b : Bytes) : bodyFeed st (a ++ b) = bodyFeed (bodyFeed st a) b := by
  simp [bodyFeed, List.foldl_append]

theorem runBody_resume (q : PState) (e : Bytes) : runBody (feedRaw (runBody q).1 e) = runBody (feedRaw q e) := by
  simp only [runBody, feedRaw, List.nil_append, bodyFeed_append]

theorem runBody_step (q : PState) : (runBody q).1.step = q.step := rfl

/-- one line step, before and after more bytes arrive -/
theorem runLine_ok (q : PState) (p : P Unit) (hp : Stable p) (e : Bytes) (q1 : PState)
    (h : runLine q p = (q1, none)) : runLine (feedRaw q e) p = (feedRaw q1 e, none) := by
  unfold runLine at h ⊢
  cases hs : p q.unread with
  | mk t o =>
    rw [hs] at h
    cases o with
    | ok a r =>
      cases a
      simp only [Prod.mk.injEq, and_true] at h
      subst h
      have := hp.ok q.unread e t () r hs
      simp only [feedRaw, this]
    | again => simp at h
    | err c => simp at h
    | unspec => simp at h

theorem runLine_again (q : PState) (p : P Unit) (hp : Stable p) (e : Bytes) (q1 : PState)
    (h : runLine q p = (q1, some .again)) : runLine (feedRaw q1 e) p = runLine (feedRaw q e) p := by
  unfold runLine at h ⊢
  cases hs : p q.unread with
  | mk t o =>
    rw [hs] at h
    cases o with
    | ok a r => cases a; simp at h
    | again =>
      simp only [Prod.mk.injEq, and_true] at h
      subst h
      obtain ⟨t2, ht2⟩ := hp.again q.unread e t hs
      simp only [feedRaw]
      cases hx : p (q.unread ++ e) with
      | mk t' o' =>
        rw [hx] at ht2
        simp only at ht2
        subst ht2
        cases o' with
        | ok a r => cases a; simp only [apps_absorb]
        | again => simp only [apps_absorb]
        | err c => simp only [apps_absorb]
        | unspec => simp only [apps_absorb]
    | err c => simp at h
    | unspec => simp at h

theorem runLine_step_again (q : PState) (p : P Unit) (q1 : PState) (o : Outcome)
    (h : runLine q p = (q1, some o)) : q1.step = q.step ∧ q1.kind = q.kind := by
  unfold runLine at h
  cases hs : p q.unread with
  | mk t o' =>
    rw [hs] at h
    cases o' with
    | ok a r => cases a; simp at h
    | again => simp only [Prod.mk.injEq] at h; obtain ⟨rfl, _⟩ := h; exact ⟨rfl, rfl⟩
    | err c => simp only [Prod.mk.injEq] at h; obtain ⟨rfl, _⟩ := h; exact ⟨rfl, rfl⟩
    | unspec => simp only [Prod.mk.injEq] at h; obtain ⟨rfl, _⟩ := h; exact ⟨rfl, rfl⟩

theorem runLine_step_ok (q : PState) (p : P Unit) (q1 : PState)
    (h : runLine q p = (q1, none)) : q1.step = q.step + 1 ∧ q1.kind = q.kind := by
  unfold runLine at h
  cases hs : p q.unread with
  | mk t o' =>
    rw [hs] at h
    cases o' with
    | ok a r => cases a; simp only [Prod.mk.injEq, and_true] at h; subst h; exact ⟨rfl, rfl⟩
    | again => simp at h
    | err c => simp at h
    | unspec => simp at h

theorem stage1_resume (q : PState) (e : Bytes) (h : (stage1 q).2 = .again) :
    stage1 (feedRaw (stage1 q).1 e) = stage1 (feedRaw q e) := by
  unfold stage1 at h ⊢
  by_cases hs : q.step = 1
  · have hs' : (feedRaw q e).step = 1 := hs
    rw [if_pos hs] at h ⊢
    rw [if_pos hs']
    cases hr : runLine q headers with
    | mk q1 oo =>
      rw [hr] at h
      cases oo with
      | none =>
        simp only at h ⊢
        obtain ⟨hst, _⟩ := runLine_step_ok q headers q1 hr
        have hne : ¬ (feedRaw (runBody q1).1 e).step = 1 := by
          show ¬ (runBody q1).1.step = 1; rw [runBody_step, hst, hs]; omega
        rw [if_neg hne, runLine_ok q headers stable_headers e q1 hr]
        simp only
        exact runBody_resume q1 e
      | some o =>
        simp only at h ⊢
        subst h
        obtain ⟨hst, _⟩ := runLine_step_again q headers q1 .again hr
        have hs1 : (feedRaw q1 e).step = 1 := by show q1.step = 1; rw [hst, hs]
        rw [if_pos hs1, runLine_again q headers stable_headers e q1 hr]
  · have hs' : ¬ (feedRaw q e).step = 1 := hs
    rw [if_neg hs] at h ⊢
    rw [if_neg hs']
    have hne : ¬ (feedRaw (runBody q).1 e).step = 1 := by show ¬ (runBody q).1.step = 1; rw [runBody_step]; exact hs
    rw [if_neg hne]
    exact runBody_resume q e

theorem stage1_step (q : PState) (hs : 1 ≤ q.step) : 1 ≤ (stage1 q).1.step := by
  unfold stage1
  split
  · rename_i h1
    cases hr : runLine q headers with
    | mk q1 oo =>
      cases oo with
      | none => simp only; rw [runBody_step]; have := (runLine_step_ok q headers q1 hr).1; omega
      | some o => simp only; have := (runLine_step_again q headers q1 o hr).1; omega
  · rw [runBody_step]; exact hs

theorem stage1_kind (q : PState) : (stage1 q).1.kind = q.kind := by
  unfold stage1
  split
  · cases hr : runLine q headers with
    | mk q1 oo =>
      cases oo with
      | none => simp only; show q1.kind = q.kind; exact (runLine_step_ok q headers q1 hr).2
      | some o => simp only; exact (runLine_step_again q headers q1 o hr).2
  · rfl

/-- RESUME: continuing after "need more data" = parsing the longer buffer from the earlier state -/
theorem parse_resume (p : PState) (e : Bytes) (h : (parse p).2 = .again) :
    parse (feedRaw (parse p).1 e) = parse (feedRaw p e) := by
  unfold parse at h ⊢
  by_cases hs : p.step = 0
  · have hs' : (feedRaw p e).step = 0 := hs
    have hk : (feedRaw p e).kind = p.kind := rfl
    rw [if_pos hs] at h ⊢
    rw [if_pos hs', hk]
    cases hr : runLine p (firstLine p.kind) with
    | mk q oo =>
      rw [hr] at h
      cases oo with
      | none =>
        simp only at h ⊢
        obtain ⟨hst, hkq⟩ := runLine_step_ok p _ q hr
        have h1 : 1 ≤ (stage1 q).1.step := stage1_step q (by omega)
        have hne : ¬ (feedRaw (stage1 q).1 e).step = 0 := by show ¬ (stage1 q).1.step = 0; omega
        rw [if_neg hne, runLine_ok p _ (stable_firstLine _) e q hr]
        simp only
        exact stage1_resume q e h
      | some o =>
        simp only at h ⊢
        subst h
        obtain ⟨hst, hkq⟩ := runLine_step_again p _ q .again hr
        have hs1 : (feedRaw q e).step = 0 := by show q.step = 0; rw [hst, hs]
        have hk1 : (feedRaw q e).kind = p.kind := hkq
        rw [if_pos hs1, hk1, runLine_again p _ (stable_firstLine _) e q hr]
  · have hs' : ¬ (feedRaw p e).step = 0 := hs
    rw [if_neg hs] at h ⊢
    rw [if_neg hs']
    have h1 : 1 ≤ (stage1 p).1.step := stage1_step p (by omega)
    have hne : ¬ (feedRaw (stage1 p).1 e).step = 0 := by show ¬ (stage1 p).1.step = 0; omega
    rw [if_neg hne]
    exact stage1_resume p e h

end Pistache.Parser
