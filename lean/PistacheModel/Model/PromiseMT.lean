/-
Model of the cross-thread behaviour of include/pistache/async.h for C12: one thread settles a promise P
(`Resolver::operator()` / `Rejection::operator()`) while another attaches continuations (`Promise::then`)
to P or to the promise D derived from P by a value-returning continuation `g`.

Granularity = the PISTACHE_VERIF hooks of async.h: before each lock acquisition (with `blocked` retries
while the mutex is taken), before each state read/write, before each walk of / append to the request list.
`lockChain = true` is the code after the repair recorded in known_findings.json (a continuation settles
its derived promise under that promise's mutex); `lockChain = false` is the code before it.
-/
import PistacheModel.Model.Basic

namespace Pistache.PromiseMT

inductive CSt | pending | ful (v : Nat) | rej (e : Nat)
  deriving DecidableEq, Repr

/-- the two continuations of the scenarios: `g` returns value+1 (so it has a derived promise D, and
    rethrows a rejection into D); `h` returns nothing and records what it received -/
inductive Cont | g | h
  deriving DecidableEq, Repr

inductive CoreId | P | D
  deriving DecidableEq, Repr

structure Core where
  st : CSt := .pending
  lock : Option Nat := none        -- thread holding `mtx`
  reqs : List Cont := []
  deriving DecidableEq, Repr

inductive Label
  | settleCheck | settleLock | settleStore | settleWalk
  | chainLock | chainStore | chainWalk
  | thenLock | thenState | thenPush | blocked
  deriving DecidableEq, Repr

inductive Field | state | requests
  deriving DecidableEq, Repr

inductive Ev
  | label (l : Label)
  | acc (c : CoreId) (f : Field) (write : Bool) (locked : Bool)
  deriving DecidableEq, Repr

/-- thread 0, the settler -/
inductive APc
  | start | check | lock | store
  | walk                                  -- parked at `p.settle.walk`
  | cLock (o : CSt) (rest : List Cont)    -- inside g's continuation: about to lock D; `rest` of P's list still to walk
  | cStore (o : CSt) (rest : List Cont)
  | cWalk (rest : List Cont)
  | done
  deriving DecidableEq, Repr

abbrev BOp := CoreId × Cont

/-- thread 1, the attacher; `ops` = the then() calls still to do, the head being the one in progress -/
inductive BPc
  | start (ops : List BOp)
  | tLock (ops : List BOp) | tState (ops : List BOp)
  | cLock (o : CSt) (ops : List BOp) | cStore (o : CSt) (ops : List BOp) | cWalk (ops : List BOp)
  | tPush (ops : List BOp)
  | done
  deriving DecidableEq, Repr

structure St where
  P : Core := {}
  D : Core := {}
  gcount : Nat := 0
  hcount : Nat := 0
  hval : Option Nat := none
  hrej : Nat := 0
  hrejval : Option Nat := none
  a : APc := .start
  b : BPc
  excA : Bool := false
  deriving DecidableEq, Repr

structure Cfg where
  lockChain : Bool
  outcome : CSt            -- what thread 0 settles P with
  deriving DecidableEq, Repr

def St.core (s : St) : CoreId → Core | .P => s.P | .D => s.D
def St.setCore (s : St) (c : CoreId) (k : Core) : St := match c with | .P => { s with P := k } | .D => { s with D := k }

def runH (s : St) (o : CSt) : St :=
  match o with
  | .ful v => { s with hcount := s.hcount + 1, hval := some v }
  | .rej e => { s with hrej := s.hrej + 1, hrejval := some e }
  | .pending => s

/-- walk D's request list with D's outcome (only `h` can be attached to D) -/
def walkD (s : St) : St :=
  s.D.reqs.foldl (fun s k => match k with | .h => runH s s.D.st | .g => s) s

def held (s : St) (c : CoreId) (tid : Nat) : Bool := (s.core c).lock == some tid

def unlock (s : St) (c : CoreId) : St := s.setCore c { s.core c with lock := none }

/-- what `g`'s continuation does with the outcome of its promise: fulfilment runs g (once) and yields
    value+1 for D; a rejection is rethrown into D (Async::Throw) -/
def gOutcome (o : CSt) : CSt := match o with | .ful v => .ful (v + 1) | .rej e => .rej e | .pending => .pending

def runGCount (s : St) (o : CSt) : St := match o with | .ful _ => { s with gcount := s.gcount + 1 } | _ => s

/-- thread 0 continues the walk of P's list `rest` (outcome P.st) until the next yield point -/
def aWalk (cfg : Cfg) (s : St) : List Cont → St × List Ev
  | [] => ({ unlock s .P with a := .done }, [])
  | .h :: r => aWalk cfg (runH s s.P.st) r
  | .g :: r =>
    let s1 := runGCount s s.P.st
    if cfg.lockChain then ({ s1 with a := .cLock (gOutcome s.P.st) r }, [.label .chainLock])
    else ({ s1 with a := .cStore (gOutcome s.P.st) r }, [.label .chainStore])

def stepA (cfg : Cfg) (s : St) : St × List Ev :=
  match s.a with
  | .start => ({ s with a := .check }, [.label .settleCheck])
  | .check =>
    if s.P.st ≠ .pending then ({ s with a := .done, excA := true }, [])
    else ({ s with a := .lock }, [.label .settleLock])
  | .lock =>
    if s.P.lock = none then ({ s with P := { s.P with lock := some 0 }, a := .store }, [.label .settleStore])
    else (s, [.label .blocked])
  | .store =>
    ({ s with P := { s.P with st := cfg.outcome }, a := .walk }, [.acc .P .state true (held s .P 0), .label .settleWalk])
  | .walk =>
    let r := aWalk cfg s s.P.reqs
    (r.1, .acc .P .requests false (held s .P 0) :: r.2)
  | .cLock o rest =>
    if s.D.lock = none then ({ s with D := { s.D with lock := some 0 }, a := .cStore o rest }, [.label .chainStore])
    else (s, [.label .blocked])
  | .cStore o rest =>
    ({ s with D := { s.D with st := o }, a := .cWalk rest }, [.acc .D .state true (held s .D 0), .label .chainWalk])
  | .cWalk rest =>
    let s1 := walkD s
    let s2 := if cfg.lockChain then unlock s1 .D else s1
    let r := aWalk cfg s2 rest
    (r.1, .acc .D .requests false (held s .D 0) :: r.2)
  | .done => (s, [])

/-- thread 1 after finishing the immediate run of a continuation inside then(): park at `p.then.push` -/
def bNext (s : St) (ops : List BOp) : St × List Ev := ({ s with b := .tPush ops }, [.label .thenPush])

def stepB (cfg : Cfg) (s : St) : St × List Ev :=
  match s.b with
  | .start ops => if ops.isEmpty then ({ s with b := .done }, []) else ({ s with b := .tLock ops }, [.label .thenLock])
  | .tLock ops =>
    match ops with
    | [] => ({ s with b := .done }, [])
    | (c, _) :: _ =>
      if (s.core c).lock = none then ({ s.setCore c { s.core c with lock := some 1 } with b := .tState ops }, [.label .thenState])
      else (s, [.label .blocked])
  | .tState ops =>
    match ops with
    | [] => ({ s with b := .done }, [])
    | (c, k) :: _ =>
      let ev := Ev.acc c .state false (held s c 1)
      let o := (s.core c).st
      if o = .pending then let r := bNext s ops; (r.1, ev :: r.2)
      else match k with
        | .h => let r := bNext (runH s o) ops; (r.1, ev :: r.2)
        | .g =>
          let s1 := runGCount s o
          if cfg.lockChain then ({ s1 with b := .cLock (gOutcome o) ops }, [ev, .label .chainLock])
          else ({ s1 with b := .cStore (gOutcome o) ops }, [ev, .label .chainStore])
  | .cLock o ops =>
    if s.D.lock = none then ({ s with D := { s.D with lock := some 1 }, b := .cStore o ops }, [.label .chainStore])
    else (s, [.label .blocked])
  | .cStore o ops =>
    ({ s with D := { s.D with st := o }, b := .cWalk ops }, [.acc .D .state true (held s .D 1), .label .chainWalk])
  | .cWalk ops =>
    let s1 := walkD s
    let s2 := if cfg.lockChain then unlock s1 .D else s1
    let r := bNext s2 ops
    (r.1, .acc .D .requests false (held s .D 1) :: r.2)
  | .tPush ops =>
    match ops with
    | [] => ({ s with b := .done }, [])
    | (c, k) :: rest =>
      let ev := Ev.acc c .requests true (held s c 1)
      let s1 := s.setCore c { s.core c with reqs := (s.core c).reqs ++ [k], lock := none }
      if rest.isEmpty then ({ s1 with b := .done }, [ev]) else ({ s1 with b := .tLock rest }, [ev, .label .thenLock])
  | .done => (s, [])

def step (cfg : Cfg) (s : St) (tid : Nat) : St × List Ev :=
  if tid = 0 then stepA cfg s else if tid = 1 then stepB cfg s else (s, [])

/-- the scenarios of C12: which promise `h` is attached to, and who attaches `g` (beforehand, on the main
    thread, or thread 1 inside the race) -/
inductive GWho | none | pre | race
  deriving DecidableEq, Repr

structure Scenario where
  target : CoreId
  gwho : GWho
  deriving DecidableEq, Repr

def Scenario.valid (sc : Scenario) : Bool := (sc.target == .D) != (sc.gwho == .none)

def initSt (sc : Scenario) : St :=
  match sc.gwho with
  | .none => { b := .start [(sc.target, .h)] }
  | .pre => { P := { reqs := [.g] }, b := .start [(sc.target, .h)] }
  | .race => { b := .start [(.P, .g), (sc.target, .h)] }

def bothDone (s : St) : Bool := s.a == .done && s.b == .done

end Pistache.PromiseMT
