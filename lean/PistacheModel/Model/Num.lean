/-
Models of the libc / libstdc++ number scanners and printers as the code uses them.
-/
import PistacheModel.Model.Stream

namespace Pistache.Num
open Pistache.Stream

def isDigit (c : Nat) : Bool := 48 ≤ c && c ≤ 57
/-- `isspace` in the C locale -/
def isSpace (c : Nat) : Bool := c = 32 || (9 ≤ c && c ≤ 13)

def spanDigits : Bytes → Bytes × Bytes
  | [] => ([], [])
  | c :: rest => if isDigit c then let (a, b) := spanDigits rest; (c :: a, b) else ([], c :: rest)

def digitsVal (ds : Bytes) : Nat := ds.foldl (fun acc d => acc * 10 + (d - 48)) 0

def dropSpaces : Bytes → Bytes
  | [] => []
  | c :: rest => if isSpace c then dropSpaces rest else c :: rest

/-- decimal printing of a natural number (`ostream << unsigned`, `std::to_string`) -/
def natToDec (n : Nat) : Bytes :=
  if n < 10 then [48 + n] else natToDec (n / 10) ++ [48 + n % 10]
termination_by n
decreasing_by omega

/-! ### `strtod` restricted to decimal notation -/

structure DecFloat where
  neg : Bool
  mant : Nat        -- all mantissa digits as an integer
  ndigits : Nat     -- number of mantissa digits (for the precision guard)
  exp10 : Int       -- value = mant * 10^exp10
  rest : Bytes      -- unread input (`end`)
  deriving Repr, DecidableEq

inductive StrtodRes
  | noConv                      -- `end == start`
  | dec (d : DecFloat)
  | unspec                      -- hexadecimal float: outside the model
  | nonfinite                   -- "inf", "infinity", "nan", "nan(...)" in any capitalisation, with or without sign: strtod converts
                                -- them to an infinity / a NaN, neither of which is a number in any range
  deriving Repr, DecidableEq

def startsWithCI (pat : Bytes) (s : Bytes) : Bool :=
  pat.length ≤ s.length && (s.take pat.length).map lower == pat.map lower

def signOf (s : Bytes) : Bool := match s with | 45 :: _ => true | _ => false
def afterSign (s : Bytes) : Bytes := match s with | 45 :: r => r | 43 :: r => r | _ => s
def fracDigits (s : Bytes) : Bytes := match s with | 46 :: r => (spanDigits r).1 | _ => []
def afterFrac (s : Bytes) : Bytes := match s with | 46 :: r => (spanDigits r).2 | _ => s

/-- digits of a syntactically valid exponent at the head of `s` (`e`/`E`, optional sign, >= 1 digit) -/
def expDigits (s : Bytes) : Bytes :=
  match s with
  | c :: r => if c = 101 ∨ c = 69 then (spanDigits (afterSign r)).1 else []
  | [] => []
def expVal (s : Bytes) : Int :=
  match s with
  | c :: r =>
    if (c = 101 ∨ c = 69) ∧ ¬ (expDigits s).isEmpty then
      let ev : Nat := if (expDigits s).length > 6 then 1000000 else digitsVal (expDigits s)
      if signOf r then -(ev : Int) else (ev : Int)
    else 0
  | [] => 0
def afterExp (s : Bytes) : Bytes :=
  match s with
  | c :: r => if (c = 101 ∨ c = 69) ∧ ¬ (expDigits s).isEmpty then (spanDigits (afterSign r)).2 else s
  | [] => []

def strtod (s0 : Bytes) : StrtodRes :=
  let s2 := afterSign (dropSpaces s0)
  if startsWithCI [48, 120] s2 then .unspec          -- "0x": hex float; left outside the model
  else if startsWithCI [105, 110, 102] s2 || startsWithCI [110, 97, 110] s2 then .nonfinite
  else
    let d1 := (spanDigits s2).1
    let s3 := (spanDigits s2).2
    let d2 := fracDigits s3
    let s4 := afterFrac s3
    if d1.isEmpty && d2.isEmpty then .noConv
    else .dec { neg := signOf (dropSpaces s0), mant := digitsVal (d1 ++ d2), ndigits := (d1 ++ d2).length,
                exp10 := expVal s4 - d2.length, rest := afterExp s4 }

end Pistache.Num
