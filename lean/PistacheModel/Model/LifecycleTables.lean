/-
The per-connection tables of a worker (C08: "the socket and all per-connection state are released exactly once. After all
clients are gone the process holds no descriptor, peer entry, pending-write entry ... for them"), on top of the handler-level
model of Model/Lifecycle.lean:

  peers    Transport::peers                      (base.peers of the handler-level model)
  toWrite  Transport::toWrite                    connections with a non-empty pending-write queue
  epoll    the worker's epoll interest set       Reactor::registerFd / removeFd
  fds      open descriptors                      accept4 / close
  timers   Transport::timers                     response time-out timers armed for a request in flight

`removePeer` (reached from handlePeerDisconnection and from checkIdlePeers) erases the connection from every table, removes it
from epoll and closes the descriptor; `closed` logs every close.
-/
import PistacheModel.Model.Lifecycle

namespace Pistache.Lifecycle

inductive TEv
  | base (e : Ev)               -- accept / data / gone / expire / writeFail, as in the handler-level model
  | queueWrite (id : Nat)       -- a write is queued for the connection (asyncWrite -> handleWriteQueue)
  | drained (id : Nat)          -- its queue has been written out completely (cleanUp in asyncWriteImpl)
  | armTimer (id : Nat)         -- a response time-out timer is armed for the request in flight
  | disarmTimer (id : Nat)      -- the response went out / the timer fired
  deriving DecidableEq, Repr

structure TState where
  base : LState := {}
  toWrite : List Nat := []
  epoll : List Nat := []
  fds : List Nat := []
  timers : List Nat := []
  closed : List Nat := []       -- descriptors closed, in order
  deriving DecidableEq, Repr

def ins (l : List Nat) (id : Nat) : List Nat := if id ∈ l then l else l ++ [id]

/-- does the event make the connection leave (it is registered and the event is its end)? -/
def leaves (s : LState) : Ev → Option Nat
  | .gone id => if id ∈ s.peers then some id else none
  | .expire id => if id ∈ s.peers then some id else none
  | _ => none

/-- does the event register a new connection? -/
def enters (s : LState) : Ev → Option Nat
  | .accept id => if id ∈ s.peers ∨ id ∈ s.released then none else some id
  | _ => none

def tstep (s : TState) : TEv → TState
  | .base e =>
    match leaves s.base e, enters s.base e with
    | some id, _ =>
      -- removePeer: peers.erase, toWrite.erase, timers of the peer, reactor()->removeFd, close(fd)
      { base := step s.base e, toWrite := s.toWrite.erase id, epoll := s.epoll.erase id, fds := s.fds.erase id,
        timers := s.timers.erase id, closed := s.closed ++ [id] }
    | none, some id =>
      { s with base := step s.base e, epoll := s.epoll ++ [id], fds := s.fds ++ [id] }
    | none, none => { s with base := step s.base e }
  | .queueWrite id => if id ∈ s.base.peers then { s with toWrite := ins s.toWrite id } else s   -- `if (!isPeerFd(fd)) continue;`
  | .drained id => { s with toWrite := s.toWrite.erase id }
  | .armTimer id => if id ∈ s.base.peers then { s with timers := ins s.timers id } else s
  | .disarmTimer id => { s with timers := s.timers.erase id }

def trun (evs : List TEv) : TState := evs.foldl tstep {}

end Pistache.Lifecycle
