/-
Model of the incremental HTTP parser of src/common/http.cc (`RequestLineStep`, `ResponseLineStep`,
`HeadersStep`, `BodyStep`, `ParserBase::{feed,parse,reset}`), after the repairs recorded in
known_findings.json.

The two line-oriented steps take a `StreamCursor::Revert`: when input ends inside the step the cursor
returns to the start of the step and the step is re-run on the longer buffer later, while the side
effects already made on the message stay.  They are therefore modelled as PURE functions from the
unread bytes to a trace of effects and an outcome (`P`); the message is obtained by applying the trace
(`Msg.apps`).  The body step is incremental (no revert) and is a state machine.
-/
import PistacheModel.Model.Headers
import PistacheModel.Model.Cookie
import PistacheModel.Generated.Tables

namespace Pistache.Parser
open Pistache Pistache.Stream Pistache.Num

/-! ### effects on the message -/

inductive Eff
  | setMethod (idx : Nat)
  | setResource (r : Bytes)
  | setVersion (v : Nat)                 -- 0 = HTTP/1.0, 1 = HTTP/1.1
  | setCode (c : Int)
  | queryAdd (k v : Bytes)               -- unordered_map::insert: keep-first
  | typedAdd (canon : String) (v : Bytes)  -- typed header under its registered name, keep-first
  | rawAdd (name v : Bytes)              -- raw header, keep-first under the case-insensitive name
  | cookiesReset
  | cookieAdd (c : Cookie.Cookie)
  deriving DecidableEq, Repr

structure Msg where
  method : Option Nat := none
  resource : Bytes := []
  version : Nat := 1
  code : Int := 0
  query : List (Bytes × Bytes) := []
  typed : List (String × Bytes) := []
  raw : List (Bytes × Bytes) := []
  cookies : Cookie.Jar := []
  body : Bytes := []
  deriving DecidableEq, Repr

def kfInsert {κ ν : Type} [DecidableEq κ] (m : List (κ × ν)) (k : κ) (v : ν) : List (κ × ν) :=
  if m.any (fun p => p.1 = k) then m else m ++ [(k, v)]

def rawInsert (m : List (Bytes × Bytes)) (name v : Bytes) : List (Bytes × Bytes) :=
  if m.any (fun p => p.1.map lower = name.map lower) then m else m ++ [(name, v)]

/-! each effect touches one field; `Msg.app` is defined field by field so that a trace acts on every
    field independently -/
def fMethod (x : Option Nat) : Eff → Option Nat | .setMethod i => some i | _ => x
def fResource (x : Bytes) : Eff → Bytes | .setResource r => r | _ => x
def fVersion (x : Nat) : Eff → Nat | .setVersion v => v | _ => x
def fCode (x : Int) : Eff → Int | .setCode c => c | _ => x
def fQuery (x : List (Bytes × Bytes)) : Eff → List (Bytes × Bytes) | .queryAdd k v => kfInsert x k v | _ => x
def fTyped (x : List (String × Bytes)) : Eff → List (String × Bytes) | .typedAdd n v => kfInsert x n v | _ => x
def fRaw (x : List (Bytes × Bytes)) : Eff → List (Bytes × Bytes) | .rawAdd n v => rawInsert x n v | _ => x
def fCookies (x : Cookie.Jar) : Eff → Cookie.Jar
  | .cookiesReset => []
  | .cookieAdd c => Cookie.jarAdd x c
  | _ => x

def Msg.app (m : Msg) (e : Eff) : Msg :=
  { method := fMethod m.method e, resource := fResource m.resource e, version := fVersion m.version e,
    code := fCode m.code e, query := fQuery m.query e, typed := fTyped m.typed e, raw := fRaw m.raw e,
    cookies := fCookies m.cookies e, body := m.body }

def Msg.apps (m : Msg) (t : List Eff) : Msg := t.foldl Msg.app m

/-! ### pure step parsers: unread bytes ↦ (trace, outcome) -/

inductive Out (α : Type)
  | ok (a : α) (rest : Bytes)
  | again                    -- input ended inside the step
  | err (code : Nat)         -- HttpError code, or 500 for any other exception
  | unspec                   -- a typed header the model does not cover (Date, float corner cases)
  deriving Repr

abbrev P (α : Type) := Bytes → List Eff × Out α

def P.pure {α : Type} (a : α) : P α := fun s => ([], .ok a s)
def P.bind {α β : Type} (p : P α) (f : α → P β) : P β := fun s =>
  match p s with
  | (t, .ok a r) => (t ++ (f a r).1, (f a r).2)
  | (t, .again) => (t, .again)
  | (t, .err c) => (t, .err c)
  | (t, .unspec) => (t, .unspec)
instance : Monad P where
  pure := P.pure
  bind := P.bind

def emit (e : Eff) : P Unit := fun s => ([e], .ok () s)
def emits (es : List Eff) : P Unit := fun s => (es, .ok () s)
def fail {α : Type} (c : Nat) : P α := fun _ => ([], .err c)
def failUnspec {α : Type} : P α := fun _ => ([], .unspec)

/-- scan to the first byte of `stops` (`match_until` / the `while (current != c) advance` loops):
    yields the bytes before it; the stop byte stays unread; `again` when input ends first -/
def untilAny (stops : List Nat) : P Bytes := fun s =>
  match (splitUntilRaw stops s) with
  | (tok, []) => ([], .again)
  | (tok, r) => ([], .ok tok r)
where
  splitUntilRaw (stops : List Nat) : Bytes → Bytes × Bytes
    | [] => ([], [])
    | c :: rest => if stops.contains c then ([], c :: rest) else
        let r := splitUntilRaw stops rest; (c :: r.1, r.2)

/-- consume one byte that is known to be there -/
def skip1 : P Unit := fun s =>
  match s with
  | [] => ([], .again)
  | _ :: r => ([], .ok () r)

/-- scan to CRLF (`while (!eol) advance`): yields the bytes before it; CRLF stays unread -/
def splitEol : Bytes → Option (Bytes × Bytes)
  | [] => none
  | [_] => none
  | 13 :: 10 :: r => some ([], 13 :: 10 :: r)
  | c :: r => (splitEol r).map (fun p => (c :: p.1, p.2))

def untilEol : P Bytes := fun s =>
  match splitEol s with
  | some (tok, r) => ([], .ok tok r)
  | none => ([], .again)

/-- `advance(2)` over the CRLF that `untilEol` found (always there when this runs) -/
def skip2 : P Unit := fun s =>
  match s with
  | 13 :: 10 :: r => ([], .ok () r)
  | _ => ([], .again)

/-! ### request line -/

def methodNames : List Bytes := Gen.httpMethods.map (fun p => bytes p.2)

def findIdx (names : List Bytes) (tok : Bytes) : Option Nat :=
  let rec go : List Bytes → Nat → Option Nat
    | [], _ => none
    | n :: ns, i => if n = tok then some i else go ns (i + 1)
  go names 0

/-- `strncmp(tok, lit, |tok|) == 0` -/
def strncmpEq : Bytes → Bytes → Bool
  | [], _ => true
  | a :: s, lit =>
    let b := lit.headD 0
    if a ≠ b then false else if a = 0 then true else strncmpEq s lit.tail

/-- position inside the query loop of `RequestLineStep` -/
inductive QMode
  | head                               -- at `while (current != ' ')`
  | key (acc : Bytes)                  -- scanning a key (`match_until({'=',' ','&'})`)
  | val (key acc : Bytes)              -- scanning a value (`match_until({' ','&'})`)
  deriving DecidableEq, Repr

/-- the query loop, byte by byte (structural recursion on the input): stops at the SP that ends the
    target, `again` when input ends first.  `queryAdd` is emitted when a key / key=value is complete. -/
def qScan : QMode → Bytes → List Eff × Out Unit
  | _, [] => ([], .again)
  | .head, c :: r =>
    if c = 32 then ([], .ok () (c :: r))
    else if c = 61 then qScan (.val [] []) r
    else if c = 38 then let p := qScan .head r; (Eff.queryAdd [] [] :: p.1, p.2)
    else qScan (.key [c]) r
  | .key acc, c :: r =>
    if c = 32 then ([Eff.queryAdd acc []], .ok () (c :: r))
    else if c = 38 then let p := qScan .head r; (Eff.queryAdd acc [] :: p.1, p.2)
    else if c = 61 then qScan (.val acc []) r
    else qScan (.key (acc ++ [c])) r
  | .val k acc, c :: r =>
    if c = 32 then ([Eff.queryAdd k acc], .ok () (c :: r))
    else if c = 38 then let p := qScan .head r; (Eff.queryAdd k acc :: p.1, p.2)
    else qScan (.val k (acc ++ [c])) r

/-- optional `?query` -/
def queryOpt : P Unit := fun s =>
  match s with
  | [] => ([], .again)              -- not reachable: the target scan stopped at '?' or SP
  | 63 :: r => qScan .head r
  | _ => ([], .ok () s)

def P.seq {α β : Type} (p : P α) (q : P β) : P β := P.bind p (fun _ => q)

/-- `strncmp(ver, "HTTP/1.0", size) == 0` → 1.0, else `"HTTP/1.1"` → 1.1, else 400 -/
def versionEff (ver : Bytes) : P Unit :=
  if strncmpEq ver (bytes "HTTP/1.0") then emit (.setVersion 0)
  else if strncmpEq ver (bytes "HTTP/1.1") then emit (.setVersion 1)
  else fail 400

def requestLine : P Unit :=
  P.bind (untilAny [32]) fun mtok =>
    match findIdx methodNames mtok with
    | none => fail 400
    | some i =>
      P.seq (emit (.setMethod i)) <|
      P.seq skip1 <|
      P.bind (untilAny [63, 32]) fun res =>
      P.seq (emit (.setResource res)) <|
      P.seq queryOpt <|
      P.seq skip1 <|
      P.bind untilEol fun ver =>
      P.seq (versionEff ver) skip2

/-! ### response line -/

def wrapInt32 (v : Int) : Int :=
  let m := v % 4294967296
  if m ≥ 2147483648 then m - 4294967296 else m

/-- `(n = current()) != Eof && n != ' '` → 400; then `advance(1)`.  A 0xFF byte reads as Eof. -/
def expectSpOrEof : P Unit := fun s1 =>
  match s1 with
  | [] => ([], .again)
  | c :: r => if c = 32 ∨ c = 255 then ([], .ok () r) else ([], .err 400)

/-- status code text → effect (bounded strtol: the whole token must be consumed) -/
def codeEff (ctok : Bytes) : P Unit :=
  if (Net.strtol10 ctok).2 ≠ [] then fail 400 else emit (.setCode (wrapInt32 (Net.strtol10 ctok).1))

/-- the status line after the 8 version bytes -/
def statusRest : P Unit :=
  P.seq expectSpOrEof <|
  P.bind (untilAny [32]) fun ctok =>
  P.seq (codeEff ctok) <|
  P.seq skip1 <|
  P.bind untilEol fun _ => skip2

def responseLine : P Unit := fun s =>
  if s.length < 8 then ([], .again)
  else if ¬ ((bytes "HTTP/1.1").isPrefixOf s ∨ (bytes "HTTP/1.0").isPrefixOf s) then ([], .err 400)
  else statusRest (s.drop 8)

/-! ### headers -/

def toHttpCode : Headers.HErr → Option Nat
  | .http c => some c
  | .unspec => none
  | _ => some 500

def cookieErr : Cookie.CErr → Option Nat
  | .unspec => none
  | _ => some 500

/-- effects of one complete header line `name: value` -/
def headerEffects (name value : Bytes) : Except (Option Nat) (List Eff) :=
  let rawE := Eff.rawAdd name value
  if name.map lower = bytes "cookie" then
    match Cookie.addFromRaw value [] with
    | .error e => .error (cookieErr e)
    | .ok j => .ok ([Eff.cookiesReset] ++ (Cookie.jarCookies j).map Eff.cookieAdd ++ [rawE])
  else if name.map lower = bytes "set-cookie" then
    match Cookie.fromRaw value with
    | .error e => .error (cookieErr e)
    | .ok c => if c.expires.isSome then .error none else .ok [Eff.cookieAdd c, rawE]
  else
    match Headers.canonOf name with
    | some canon =>
      match Headers.typedCheck canon value with
      | some e => .error (toHttpCode e)
      | none => .ok [Eff.typedAdd canon value, rawE]
    | none => .ok [rawE]

def dropSp : Bytes → Bytes
  | 32 :: r => dropSp r
  | s => s

/-- skip SPs, then the value up to CRLF -/
def valueTok : P Bytes := fun s => untilEol (dropSp s)

/-- what a complete header line does -/
def headerEff (name value : Bytes) : P Unit :=
  match headerEffects name value with
  | .error (some c) => fail c
  | .error none => failUnspec
  | .ok es => emits es

/-- one header line: name up to ':', skip SPs, value up to CRLF, CRLF -/
def headerLine : P Unit :=
  P.bind (untilAny [58]) fun name =>
  P.seq skip1 <|
  P.bind valueTok fun value =>
  P.seq (headerEff name value) skip2

def headersLoop : Nat → P Unit
  | 0 => fun _ => ([], .again)
  | fuel + 1 => fun s =>
    match s with
    | 13 :: 10 :: r => ([], .ok () r)
    | _ => P.seq headerLine (headersLoop fuel) s

def headers : P Unit := fun s => headersLoop (s.length + 1) s

/-! ### body (incremental, no revert): a byte-level state machine

`BodyStep` consumes whatever has arrived and keeps explicit progress counters; the unread rest of the
buffer only ever holds an incomplete chunk-size line or half of a CRLF.  The model consumes the body
bytes one at a time; the mode remembers what the C++ re-reads after a revert. -/

def hexDigitVal (c : Nat) : Option Nat :=
  if 48 ≤ c ∧ c ≤ 57 then some (c - 48)
  else if 97 ≤ c ∧ c ≤ 102 then some (c - 87)
  else if 65 ≤ c ∧ c ≤ 70 then some (c - 55)
  else none

def spanHex : Bytes → Bytes × Bytes
  | [] => ([], [])
  | c :: r => if (hexDigitVal c).isSome then let p := spanHex r; (c :: p.1, p.2) else ([], c :: r)

def hexVal (ds : Bytes) : Nat := ds.foldl (fun acc d => acc * 16 + (hexDigitVal d).getD 0) 0

/-- `strtol(text, &end, 16)` on the chunk-size text; `none` = "Invalid chunk size" (not fully
    consumed, or negative) -/
def chunkSizeOf (text : Bytes) : Option Nat :=
  let t := Net.cstr text
  if t.length ≠ text.length then none else      -- embedded NUL: end != end of text
  let s1 := dropSpaces t
  let neg := signOf s1
  let s2 := afterSign s1
  let s3 := match s2 with                       -- optional 0x / 0X prefix (only when a hex digit follows)
    | 48 :: x :: d :: r => if (x = 120 ∨ x = 88) ∧ (hexDigitVal d).isSome then d :: r else s2
    | _ => s2
  let ds := (spanHex s3).1
  let rest := (spanHex s3).2
  if ds.isEmpty then (if text.isEmpty then some 0 else none)   -- no conversion: end = start
  else if rest ≠ [] then none
  else
    let v := hexVal ds
    if neg then (if v = 0 then some 0 else none)
    else some (if v > Net.longMax then Net.longMax else v)

inductive BMode
  | clData (need : Nat)          -- Content-Length body: bytes still missing
  | chSize (acc : Bytes)         -- chunk-size line read so far (re-read from the buffer by the C++)
  | chData (need : Nat)          -- chunk data still missing
  | chSkip1 | chSkip2            -- the two (unchecked) bytes after chunk data
  | chLast0                      -- after the zero-size line: waiting for the final CRLF
  | chLast1 (b : Nat)            -- its first byte has arrived
  | done
  | err (code : Nat)
  | unspec
  deriving DecidableEq, Repr

structure BSt where
  mode : BMode
  body : Bytes := []
  deriving DecidableEq, Repr

/-- a mode that needs no further byte -/
def BMode.settle : BMode → BMode
  | .clData 0 => .done
  | m => m

def enterChunk (sz : Nat) : BMode := if sz = 0 then .chLast0 else .chData sz

/-- one body byte -/
def bstep (st : BSt) (c : Nat) : BSt :=
  match st.mode with
  | .clData n => { mode := (BMode.clData (n - 1)).settle, body := st.body ++ [c] }
  | .chSize acc =>
    if c = 10 ∧ acc.getLast? = some 13 then
      match chunkSizeOf acc.dropLast with
      | none => { st with mode := .err 400 }
      | some sz => { st with mode := enterChunk sz }
    else { st with mode := .chSize (acc ++ [c]) }
  | .chData n => { mode := if n = 1 then .chSkip1 else .chData (n - 1), body := st.body ++ [c] }
  | .chSkip1 => { st with mode := .chSkip2 }
  | .chSkip2 => { st with mode := .chSize [] }
  | .chLast0 => { st with mode := .chLast1 c }
  | .chLast1 b => { st with mode := if b = 13 ∧ c = 10 then .done else .err 400 }
  | .done => st
  | .err _ => st
  | .unspec => st

def typedOf (typed : List (String × Bytes)) (canon : String) : Option Bytes :=
  (typed.find? (fun p => p.1 == canon)).map (·.2)

/-- `BodyStep::apply` on entry: which framing the headers announce -/
def bodyInit (m : Msg) : BMode :=
  match typedOf m.typed "Content-Length", typedOf m.typed "Transfer-Encoding" with
  | some _, some _ => .err 400
  | some clv, none =>
    match Headers.parseContentLength clv with
    | .ok cl => (BMode.clData cl).settle
    | .error _ => .unspec
  | none, some tev => if Headers.parseEncoding tev = "Chunked" then .chSize [] else .err 501
  | none, none => .done

def bodyFeed (st : BSt) (s : Bytes) : BSt := s.foldl bstep st

/-! ### the parser object -/

inductive Kind | request | response
  deriving DecidableEq, Repr

structure PState where
  kind : Kind
  max : Nat
  total : Nat := 0           -- bytes in the buffer (`bytes.size()`)
  unread : Bytes := []       -- from the cursor to the end of the buffer (line steps only)
  step : Nat := 0
  msg : Msg := {}
  bst : Option BSt := none   -- body progress once the body step has been entered
  deriving DecidableEq, Repr

inductive Outcome
  | again | done | err (code : Nat) | unspec
  deriving DecidableEq, Repr

def init (k : Kind) (max : Nat) : PState := { kind := k, max := max }

/-- `ParserBase::feed`: refuse (none) when the buffer would exceed the limit -/
def feed (p : PState) (seg : Bytes) : Option PState :=
  if p.total + seg.length > p.max then none
  else some { p with total := p.total + seg.length, unread := p.unread ++ seg }

def outcomeOf : BMode → Outcome
  | .done => .done
  | .err c => .err c
  | .unspec => .unspec
  | _ => .again

/-- run one line step from the current message; `none` = the step completed -/
def runLine (q : PState) (stepP : P Unit) : PState × Option Outcome :=
  match stepP q.unread with
  | (t, .ok () r) => ({ q with msg := q.msg.apps t, unread := r, step := q.step + 1 }, none)
  | (t, .again) => ({ q with msg := q.msg.apps t }, some .again)
  | (t, .err c) => ({ q with msg := q.msg.apps t }, some (.err c))
  | (t, .unspec) => ({ q with msg := q.msg.apps t }, some .unspec)

def firstLine (k : Kind) : P Unit := if k = .request then requestLine else responseLine

/-- the body step: enter it (framing from the headers) if not yet entered, consume what has arrived -/
def runBody (q : PState) : PState × Outcome :=
  let st0 : BSt := match q.bst with | some st => st | none => { mode := bodyInit q.msg }
  let st1 := bodyFeed st0 q.unread
  ({ q with bst := some st1, unread := [], msg := { q.msg with body := st1.body } }, outcomeOf st1.mode)

/-- headers step (if it is the current one), then the body step -/
def stage1 (q : PState) : PState × Outcome :=
  if q.step = 1 then
    match runLine q headers with
    | (q1, some o) => (q1, o)
    | (q1, none) => runBody q1
  else runBody q

/-- `ParserBase::parse`: run steps from the current one until Again/Done/error.
    A line step that returns Again leaves the cursor at the step start but keeps its effects. -/
def parse (p : PState) : PState × Outcome :=
  if p.step = 0 then
    match runLine p (firstLine p.kind) with
    | (q, some o) => (q, o)
    | (q, none) => stage1 q
  else stage1 p

/-- `ParserBase::reset` + `ParserImpl::reset` (after the repair: the body step's progress is cleared too) -/
def reset (p : PState) : PState := init p.kind p.max

/-- the delivery loop of `Handler::onInput`: feed, parse, stop at the first non-Again outcome -/
def run : PState → List Bytes → PState × Outcome
  | p, [] => (p, .again)
  | p, seg :: rest =>
    match feed p seg with
    | none => (reset p, .err 413)
    | some p1 =>
      match parse p1 with
      | (p2, .again) => run p2 rest
      | r => r

end Pistache.Parser
