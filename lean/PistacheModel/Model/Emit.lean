/-
Model of the message writers of src/common/http.cc: `ResponseWriter::putOnWire` (fixed-length response),
`ResponseStream` (chunked response), on top of `DynamicStreamBuf` (a growable buffer capped at the
configured maximum response size).  Header and cookie values are given in their written form (the
writers of the typed headers are modelled in Model/Headers.lean and Model/Cookie.lean).

Header and cookie lines leave an unordered container: their relative order is not part of the model
(the correspondence check compares them as sorted lists); the theorems hold for any order.
-/
import PistacheModel.Model.Basic
import PistacheModel.Model.Num
import PistacheModel.Model.Stream
import PistacheModel.Generated.Tables

namespace Pistache.Emit
open Pistache Pistache.Num Pistache.Stream

def crlf : Bytes := [13, 10]

def reason (code : Nat) : Bytes :=
  match Gen.statusCodes.find? (fun p => p.1 == code) with
  | some p => bytes p.2.2
  | none => []

/-- `os << version << " " << int(code) << ' ' << code << crlf` -/
def statusLine (http10 : Bool) (code : Nat) : Bytes :=
  bytes (if http10 then "HTTP/1.0 " else "HTTP/1.1 ") ++ natToDec code ++ [32] ++ reason code ++ crlf

def headerLine (h : Bytes × Bytes) : Bytes := h.1 ++ [58, 32] ++ h.2 ++ crlf
def cookieLine (c : Bytes) : Bytes := bytes "Set-Cookie: " ++ c ++ crlf

def hexDigit (n : Nat) : Nat := if n < 10 then 48 + n else 87 + n
/-- `os << std::hex << n` -/
def natToHex (n : Nat) : Bytes :=
  if n < 16 then [hexDigit n] else natToHex (n / 16) ++ [hexDigit (n % 16)]

structure Msg where
  http10 : Bool := false
  code : Nat
  headers : List (Bytes × Bytes)      -- name, written value
  cookies : List Bytes                -- written Set-Cookie values

def head (m : Msg) : Bytes :=
  statusLine m.http10 m.code ++ (m.headers.map headerLine).flatten ++ (m.cookies.map cookieLine).flatten

/-- the bytes of a fixed-length response -/
def fixedBytes (m : Msg) (body : Bytes) : Bytes :=
  head m ++ headerLine (bytes "Content-Length", natToDec body.length) ++ crlf ++ body

inductive SendResult
  | ok (n : Nat)          -- promise fulfilled with n
  | rejected              -- "Response exceeded buffer size"
  deriving DecidableEq, Repr

structure FixedOut where
  wire : Bytes            -- what reaches the transport
  result : SendResult
  size : Nat              -- getResponseSize()
  deriving DecidableEq, Repr

/-- `ResponseWriter::send` with maximum response size `max`: every `OUT(...)` is checked, so the
    message is either complete in the buffer or refused -/
def sendFixed (max : Nat) (m : Msg) (body : Bytes) : FixedOut :=
  let all := fixedBytes m body
  if all.length ≤ max then { wire := all, result := .ok all.length, size := all.length }
  else { wire := [], result := .rejected, size := 0 }

/-! ### streamed responses -/

def streamHead (m : Msg) : Bytes :=
  statusLine m.http10 m.code ++ (m.cookies.map cookieLine).flatten ++ (m.headers.map headerLine).flatten
    ++ headerLine (bytes "Transfer-Encoding", bytes "chunked") ++ crlf

/-- one `write(data, n)` / `operator<<`; writing nothing emits nothing (a zero-length chunk would be
    the last-chunk marker) -/
def chunk (data : Bytes) : Bytes := if data.isEmpty then [] else natToHex data.length ++ crlf ++ data ++ crlf

def lastChunk : Bytes := [48] ++ crlf ++ crlf

/-- a streamed response whose every flush batch stays within the cap: head, chunks, terminator -/
def streamBytes (m : Msg) (chunks : List Bytes) : Bytes :=
  streamHead m ++ (chunks.map chunk).flatten ++ lastChunk

/-- batches between flushes (the cap applies to each); `flushAfter[i]` = flush after chunk i -/
def batches (m : Msg) (chunks : List Bytes) (flushAfter : List Bool) : List Bytes :=
  let rec go (cur : Bytes) : List Bytes → List Bool → List Bytes
    | [], _ => [cur ++ lastChunk]
    | c :: cs, fl =>
      let cur' := cur ++ chunk c
      if fl.headD false then cur' :: go [] cs fl.tail else go cur' cs fl.tail
  go (streamHead m) chunks flushAfter

def withinCap (max : Nat) (bs : List Bytes) : Bool := bs.all (fun b => b.length ≤ max)

/-! ### the client's request writer (`writeRequest` of src/client/client.cc) -/

structure Req where
  method : Bytes                       -- the method's text
  path : Bytes                         -- path part of the URL given to the builder
  query : List (Bytes × Bytes)
  cookies : List (Bytes × Bytes)
  headers : List (Bytes × Bytes)       -- name, written value
  host : Bytes
  body : Bytes

def sepBy (sep : Bytes) : List Bytes → Bytes
  | [] => []
  | [x] => x
  | x :: xs => x ++ sep ++ sepBy sep xs

/-- `Query::as_str`: `?k=v&k=v`, nothing when there are no parameters -/
def queryStr (q : List (Bytes × Bytes)) : Bytes :=
  if q.isEmpty then [] else 63 :: sepBy [38] (q.map fun p => p.1 ++ [61] ++ p.2)

def requestTarget (r : Req) : Bytes :=
  (if r.path.head? = some 47 then [] else [47]) ++ r.path ++ queryStr r.query

def requestBytes (r : Req) : Bytes :=
  r.method ++ [32] ++ requestTarget r ++ bytes " HTTP/1.1" ++ crlf
    ++ bytes "Cookie: " ++ sepBy (bytes "; ") (r.cookies.map fun p => p.1 ++ [61] ++ p.2) ++ crlf    -- written even without cookies
    ++ (r.headers.map headerLine).flatten
    ++ headerLine (bytes "User-Agent", bytes "pistache/0.1")
    ++ headerLine (bytes "Host", r.host)
    ++ (if r.body.isEmpty then [] else headerLine (bytes "Content-Length", natToDec r.body.length))
    ++ crlf ++ r.body

/-! ### an independent reader of what was emitted (RFC 7230 framing), used to state C05 -/

/-- split at the first CRLF CRLF -/
def splitHead : Bytes → Option (Bytes × Bytes)
  | [] => none
  | c :: r =>
    if c = 13 ∧ r.take 3 = [10, 13, 10] then some ([], r.drop 3)
    else (splitHead r).map fun p => (c :: p.1, p.2)

/-- decode a chunked body: `some data` when it is a well-formed sequence of chunks closed by a
    zero-length chunk and nothing follows -/
def hexDigitVal (c : Nat) : Option Nat :=
  if 48 ≤ c ∧ c ≤ 57 then some (c - 48) else if 97 ≤ c ∧ c ≤ 102 then some (c - 87) else none

def readHex : Bytes → Nat → Nat → Option (Nat × Bytes)      -- digits read so far, accumulator
  | [], _, _ => none
  | c :: r, n, acc =>
    if c = 13 then (match r with | 10 :: r' => if n = 0 then none else some (acc, r') | _ => none)
    else match hexDigitVal c with | some d => readHex r (n + 1) (acc * 16 + d) | none => none

def decodeChunked : Nat → Bytes → Option (List Bytes)
  | 0, _ => none
  | fuel + 1, bs =>
    match readHex bs 0 0 with
    | none => none
    | some (n, r) =>
      if n = 0 then (if r = crlf then some [] else none)
      else if r.length < n + 2 then none
      else if (r.drop n).take 2 ≠ crlf then none
      else (decodeChunked fuel (r.drop (n + 2))).map fun rest => r.take n :: rest

/-! ### DynamicStreamBuf: a buffer that doubles up to a cap -/

structure DBuf where
  data : Bytes          -- what has been written (pbase..pptr)
  cap : Nat             -- data_.size()
  max : Nat             -- maxSize_
  deriving DecidableEq, Repr

/-- `reserve(size)` at construction -/
def DBuf.init (size max : Nat) : DBuf := { data := [], cap := min size max, max := max }

/-- `sputc`: room left, or `overflow` doubles the storage (capped) while it is below the cap -/
def DBuf.put (b : DBuf) (c : Nat) : Option DBuf :=
  if b.data.length < b.cap then some { b with data := b.data ++ [c] }
  else if b.cap < b.max then some { b with data := b.data ++ [c], cap := min ((if b.cap = 0 then 1 else b.cap) * 2) b.max }
  else none

/-- writing a byte string through an ostream: stops at the first failure (`false` = failbit) -/
def DBuf.write (b : DBuf) : Bytes → DBuf × Bool
  | [] => (b, true)
  | c :: cs => match b.put c with
    | some b' => b'.write cs
    | none => (b, false)

/-- `putOnWire`: the pieces of a response (status line, each header line, each cookie line, Content-Length, blank line, body) are
    written one after the other, and the stream state is checked after each (`OUT(...)`): the first piece that does not fit ends
    the attempt.  `false` = refused. -/
def DBuf.writePieces (b : DBuf) : List Bytes → DBuf × Bool
  | [] => (b, true)
  | p :: ps => if (b.write p).2 then (b.write p).1.writePieces ps else ((b.write p).1, false)

end Pistache.Emit
