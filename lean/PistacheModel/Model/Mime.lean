/-
Model of src/common/mime.cc: `Q::toString`, `Q::fromFloat` (as used by the parser, after the range
check), `MediaType::parseRaw`, `MediaType::toString`.  The type/subtype/suffix tables are regenerated
from include/pistache/mime.h (Generated/Tables.lean).
-/
import PistacheModel.Model.Num
import PistacheModel.Generated.Tables

namespace Pistache.Mime
open Pistache Pistache.Stream Pistache.Num

def typeStrs : List Bytes := Gen.mimeTypes.map (fun p => bytes p.2)
def subStrs : List Bytes := Gen.mimeSubtypes.map (fun p => bytes p.2)
def sufStrs : List Bytes := Gen.mimeSuffixes.map (fun p => bytes p.2)

/-- the `do { TYPE(..) TYPE(..) ... } while(0)` chains: first table entry that is a case-insensitive
    prefix of the input wins; returns its index and the remaining input -/
def matchTable : List Bytes → Nat → Bytes → Option (Nat × Bytes)
  | [], _, _ => none
  | e :: es, i, s =>
    match matchStringCI e s with
    | some r => some (i, r)
    | none => matchTable es (i + 1) s

inductive Sub | known (i : Nat) | vendor | ext
  deriving DecidableEq, Repr
inductive Suf | none | known (i : Nat) | ext
  deriving DecidableEq, Repr

structure Media where
  top : Nat
  sub : Sub
  suffix : Suf
  q : Option Nat
  params : List (Bytes × Bytes)     -- insertion order, keep-first on equal keys (unordered_map::insert)
  deriving DecidableEq, Repr

inductive Err
  | unsupported    -- HttpError(415)
  | unspec         -- quality value outside the decimal model of strtod (hex float, inf, nan, >15 digits, rounding tie)
  | fuel           -- unreachable (termination bookkeeping)
  deriving DecidableEq, Repr

/-- keep-first insert -/
def insertParam (ps : List (Bytes × Bytes)) (k v : Bytes) : List (Bytes × Bytes) :=
  if ps.any (fun p => p.1 == k) then ps else ps ++ [(k, v)]

inductive QRes | ok (q : Nat) (rest : Bytes) | bad | unspec
  deriving DecidableEq, Repr

/-- `match_double` + the range check + `Q::fromFloat` = `round(val*100)`.
    Exact rational arithmetic on the decimal; `unspec` where double rounding could matter. -/
def parseQ (s : Bytes) : QRes :=
  match strtod s with
  | .noConv => .bad
  | .unspec => .unspec
  | .nonfinite => .bad                          -- !(val >= 0.0 && val <= 1.0): an infinity is out of range and a NaN fails every comparison
  | .dec d =>
    if d.mant = 0 then .ok 0 d.rest
    else if d.neg then .bad                     -- val < 0
    else if d.ndigits > 15 then .unspec
    else
      let e := d.exp10 + 2                      -- scaled = mant * 10^e = val*100
      if e ≥ 0 then
        if e > 20 then .bad
        else
          let k := d.mant * 10 ^ e.toNat
          if k ≤ 100 then .ok k d.rest else .bad
      else
        if e < -40 then .ok 0 d.rest
        else
          let den := 10 ^ (-e).toNat
          let fl := d.mant / den
          let fr := d.mant % den                -- fraction = fr/den
          if fl > 100 ∨ (fl = 100 ∧ fr ≠ 0) then .bad            -- val > 1
          else
            -- distance of the fraction from one half, compared with 1e-6
            let twice := 2 * fr
            let diff := if twice ≥ den then twice - den else den - twice
            if fr ≠ 0 ∧ diff * 1000000 < 2 * den then .unspec     -- too close to a tie for the float path
            else if twice ≥ den then .ok (fl + 1) d.rest else .ok fl d.rest

/-- the parameter loop of `parseRaw` -/
def paramLoop : Nat → Bytes → Option Nat → List (Bytes × Bytes) → Except Err (Option Nat × List (Bytes × Bytes))
  | 0, _, _, _ => .error .fuel
  | _ + 1, [], q, ps => .ok (q, ps)
  | fuel + 1, c :: rest, q, ps =>
    if c = 59 ∨ c = 32 then                              -- ';' or ' '
      let n := next (c :: rest)
      if n = -1 ∨ n = 0 then .error .unsupported         -- "expected parameter got EOF"
      else paramLoop fuel rest q ps
    else if lower c = 113 then                           -- match_literal('q')
      match rest with
      | [] => .error .unsupported                        -- "Invalid quality factor"
      | 61 :: r =>
        match parseQ r with
        | .ok qv r' => if r'.length ≤ r.length then paramLoop fuel r' (some qv) ps else .error .fuel
        | .bad => .error .unsupported
        | .unspec => .error .unspec
      | _ => .error .unsupported                         -- "Missing quality factor"
    else
      let key := (splitUntil [61] (c :: rest)).1
      let r1 := (splitUntil [61] (c :: rest)).2
      if r1.isEmpty then .error .unsupported             -- eof: "Unfinished Media Type parameter"
      else
        let n := next r1
        if n = -1 ∨ n = 0 then .error .unsupported
        else
          let val := (splitUntil [32, 59] (r1.drop 1)).1
          let r2 := (splitUntil [32, 59] (r1.drop 1)).2
          paramLoop fuel r2 q (insertParam ps key val)

/-- subtype recognition: `vnd.` prefix, then the table, else extension token -/
def parseSub (s2 : Bytes) : Sub × Bytes :=
  match matchRaw (bytes "vnd.") s2 with
  | some r => (.vendor, (splitUntil [59, 43] r).2)
  | none =>
    match matchTable subStrs 0 s2 with
    | some (i, r) => (.known i, r)
    | none => (.ext, (splitUntil [59, 43] s2).2)

/-- optional `+suffix` -/
def parseSuffix (s3 : Bytes) : Except Err (Suf × Bytes) :=
  match matchLiteral 43 s3 with
  | none => .ok (.none, s3)
  | some s4 =>
    if s4.isEmpty then .error .unsupported              -- expected suffix, got EOF
    else match matchTable sufStrs 0 s4 with
      | some (i, r) => .ok (.known i, r)
      | none => .ok (.ext, (splitUntil [59, 43] s4).2)

/-- `MediaType::parseRaw(str,len)` -/
def parse (s : Bytes) : Except Err Media :=
  match matchTable typeStrs 0 s with
  | none => .error .unsupported                                   -- "Unknown Media Type"
  | some (ti, s1) =>
    match matchLiteral 47 s1 with
    | none => .error .unsupported                                 -- expected '/'
    | some s2 =>
      if s2.isEmpty then .error .unsupported                      -- missing subtype
      else if (parseSub s2).2.isEmpty then
        .ok { top := ti, sub := (parseSub s2).1, suffix := .none, q := none, params := [] }
      else
        match parseSuffix (parseSub s2).2 with
        | .error e => .error e
        | .ok (suf, s5) =>
          match paramLoop (s5.length + 1) s5 none [] with
          | .error e => .error e
          | .ok (q, ps) => .ok { top := ti, sub := (parseSub s2).1, suffix := suf, q := q, params := ps }

/-! ### Writer side -/

/-- `Q::toString` (snprintf "%.1f"/"%.2f" of val/100.0 for val in 1..99: the float hypothesis) -/
def qToString (v : Nat) : Bytes :=
  if v = 0 then bytes "q=0"
  else if v = 100 then bytes "q=1"
  else if v % 10 = 0 then bytes "q=0." ++ [48 + v / 10]
  else bytes "q=0." ++ [48 + v / 10, 48 + v % 10]

def renderParams : List (Bytes × Bytes) → Bytes
  | [] => []
  | (k, v) :: ps => bytes "; " ++ k ++ [61] ++ v ++ renderParams ps

/-- `MediaType::toString` of a media type BUILT through the API (raw_ empty): known type/subtype,
    optional known suffix, optional quality, parameters in (arbitrary) map order `ps` -/
def render (ti si : Nat) (suf : Option Nat) (q : Option Nat) (ps : List (Bytes × Bytes)) : Bytes :=
  typeStrs.getD ti [] ++ [47] ++ subStrs.getD si [] ++
  (match suf with | none => [] | some j => [43] ++ sufStrs.getD j []) ++
  (match q with | none => [] | some v => bytes "; " ++ qToString v) ++
  renderParams ps

end Pistache.Mime
