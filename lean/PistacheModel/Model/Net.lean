/-
Model of src/common/net.cc: `Port(std::string)`, `AddressParser`, `Address::init`, `operator<<`,
with libc's `strtol` (base 10), `inet_pton`/`inet_ntop` (AF_INET strict dotted quad, AF_INET6) as
executable models of the documented glibc behaviour.  `getaddrinfo` is modelled only on canonical
dotted quads (identity); every other host text is `unspec` (name resolution is outside the model).
-/
import PistacheModel.Model.Num

namespace Pistache.Net
open Pistache Pistache.Stream Pistache.Num

/-- what a `const char*` consumer sees of a `std::string`: bytes up to the first NUL -/
def cstr (s : Bytes) : Bytes := s.takeWhile (· ≠ 0)

/-! ### strtol(…, 10) -/

def longMax : Nat := 9223372036854775807

/-- returns (value, unread rest starting at `end`); no digits → (0, whole input) -/
def strtol10 (s : Bytes) : Int × Bytes :=
  let s1 := dropSpaces s
  let neg := signOf s1
  let s2 := afterSign s1
  let ds := (spanDigits s2).1
  if ds.isEmpty then (0, s)
  else
    let v := digitsVal ds
    let r := (spanDigits s2).2
    if neg then ((if v > longMax + 1 then -((longMax : Int) + 1) else -(v : Int)), r)
    else ((if v > longMax then (longMax : Int) else (v : Int)), r)

/-- `Port::Port(const std::string&)` and the identical code in `Address::init`; `none` = invalid_argument -/
def parsePortNonEmpty (data : Bytes) : Option Nat :=
  let r := strtol10 data
  if r.2 ≠ [] then none                 -- end != c_str() + size(): the whole text must be consumed
  else if r.1 < 0 ∨ r.1 > 65535 then none
  else some r.1.toNat

def parsePort (data : Bytes) : Option Nat :=
  if data.isEmpty then none else parsePortNonEmpty data

/-! ### `std::string::find` -/

def findByte (c : Nat) : Bytes → Option Nat
  | [] => none
  | x :: r => if x = c then some 0 else (findByte c r).map (· + 1)

def findFrom (c : Nat) (s : Bytes) (pos : Nat) : Option Nat := (findByte c (s.drop pos)).map (· + pos)

/-- `std::string::substr(pos, count)` for `pos <= size` -/
def substr (s : Bytes) (pos count : Nat) : Bytes := (s.drop pos).take count

/-! ### AddressParser -/

structure Parsed where
  host : Bytes
  port : Bytes
  hasColon : Bool
  v6 : Bool
  deriving DecidableEq, Repr

def junkAfterBracket : Bytes → Bool
  | c :: _ => c != 58
  | [] => false

/-- `AddressParser::AddressParser`; `none` = invalid_argument -/
def addressParser (data : Bytes) : Option Parsed :=
  let endPos := findByte 93 data      -- ']'
  let startPos := findByte 91 data    -- '['
  match startPos, endPos with
  | some sp, some ep =>
    if sp < ep then
      let hasColon := (findFrom 58 data ep).isSome
      let host := substr data sp (ep + 1)
      if junkAfterBracket (data.drop (ep + 1)) then none   -- text other than ':' after ']'
      else if hasColon then
        let port := data.drop (ep + 2)
        if port.isEmpty then none else some { host := host, port := port, hasColon := true, v6 := true }
      else some { host := host, port := [], hasColon := false, v6 := true }
    else
      match findByte 58 data with
      | some cp =>
        let port := data.drop (cp + 1)
        if port.isEmpty then none else some { host := data.take cp, port := port, hasColon := true, v6 := false }
      | none => some { host := data, port := [], hasColon := false, v6 := false }
  | _, _ =>
    match findByte 58 data with
    | some cp =>
      let port := data.drop (cp + 1)
      if port.isEmpty then none else some { host := data.take cp, port := port, hasColon := true, v6 := false }
    | none => some { host := data, port := [], hasColon := false, v6 := false }

/-! ### inet_pton / inet_ntop, AF_INET (strict dotted quad: 1–3 digits, no leading zero, <= 255) -/

def octet (ds : Bytes) : Option Nat :=
  if ds.isEmpty ∨ ds.length > 3 then none
  else if ds.length > 1 ∧ ds.head? = some 48 then none
  else if digitsVal ds > 255 then none else some (digitsVal ds)

/-- split at '.' into exactly the maximal digit runs -/
def pton4Aux : Nat → Bytes → Option (List Nat)
  | 0, _ => none
  | n + 1, s =>
    let ds := (spanDigits s).1
    let r := (spanDigits s).2
    match octet ds with
    | none => none
    | some o =>
      match r with
      | [] => if n = 0 then some [o] else none
      | 46 :: r' => if n = 0 then none else (pton4Aux n r').map (o :: ·)
      | _ => none

def pton4 (s : Bytes) : Option (List Nat) := pton4Aux 4 s

def dot (a b : Bytes) : Bytes := a ++ [46] ++ b
def ntop4 (a b c d : Nat) : Bytes := natToDec a ++ [46] ++ natToDec b ++ [46] ++ natToDec c ++ [46] ++ natToDec d

/-! ### inet_pton, AF_INET6 (glibc / BIND algorithm), result = 16 bytes -/

def hexVal (c : Nat) : Option Nat :=
  if 48 ≤ c ∧ c ≤ 57 then some (c - 48)
  else if 97 ≤ c ∧ c ≤ 102 then some (c - 87)
  else if 65 ≤ c ∧ c ≤ 70 then some (c - 55)
  else none

/-- state: bytes stored so far (`tp`), position of "::" (`colonp`) as an index into them,
    current group value and digit count, and the start of the current token -/
def pton6Loop : Nat → Bytes → Bytes → List Nat → Option Nat → Nat → Nat → Option (List Nat × Option Nat)
  | 0, _, _, _, _, _, _ => none
  | _ + 1, [], _, tp, colonp, val, saw =>
    if saw > 0 then
      if tp.length + 2 > 16 then none else some (tp ++ [val / 256, val % 256], colonp)
    else some (tp, colonp)
  | fuel + 1, ch :: src, curtok, tp, colonp, val, saw =>
    match hexVal ch with
    | some d =>
      if saw + 1 > 4 then none else pton6Loop fuel src curtok tp colonp (val * 16 + d) (saw + 1)
    | none =>
      if ch = 58 then
        if saw = 0 then
          if colonp.isSome then none else pton6Loop fuel src src tp (some tp.length) 0 0
        else if src.isEmpty then none
        else if tp.length + 2 > 16 then none
        else pton6Loop fuel src src (tp ++ [val / 256, val % 256]) colonp 0 0
      else if ch = 46 ∧ tp.length + 4 ≤ 16 then
        match pton4 curtok with
        | some q => some (tp ++ q, colonp)
        | none => none
      else none

def pton6 (s : Bytes) : Option (List Nat) :=
  let src := match s with
    | 58 :: 58 :: r => some (58 :: r)       -- leading "::": skip the first ':'
    | 58 :: _ => none                       -- a single leading ':' is invalid
    | _ => some s
  match src with
  | none => none
  | some src =>
    match pton6Loop (src.length + 1) src src [] none 0 0 with
    | none => none
    | some (tp, none) => if tp.length = 16 then some tp else none
    | some (tp, some cp) =>
      if tp.length = 16 then none
      else some (tp.take cp ++ List.replicate (16 - tp.length) 0 ++ tp.drop cp)

/-! ### inet_ntop, AF_INET6 (glibc) -/

def hexDigitLower (n : Nat) : Nat := if n < 10 then 48 + n else 87 + n
def hexOf (w : Nat) : Bytes :=
  if w < 16 then [hexDigitLower w]
  else if w < 256 then [hexDigitLower (w / 16), hexDigitLower (w % 16)]
  else if w < 4096 then [hexDigitLower (w / 256), hexDigitLower (w / 16 % 16), hexDigitLower (w % 16)]
  else [hexDigitLower (w / 4096 % 16), hexDigitLower (w / 256 % 16), hexDigitLower (w / 16 % 16), hexDigitLower (w % 16)]

def words16 : List Nat → List Nat
  | a :: b :: r => (a * 256 + b) :: words16 r
  | _ => []

/-- longest run of zero words (first wins), as (base, len); len = 0 when none -/
def bestRun : List Nat → Nat → Nat → Nat → Nat → Nat → Nat × Nat
  | [], _, curBase, curLen, bestBase, bestLen =>
    if curLen > bestLen then (curBase, curLen) else (bestBase, bestLen)
  | w :: r, i, curBase, curLen, bestBase, bestLen =>
    if w = 0 then
      if curLen = 0 then bestRun r (i + 1) i 1 bestBase bestLen
      else bestRun r (i + 1) curBase (curLen + 1) bestBase bestLen
    else
      if curLen > bestLen then bestRun r (i + 1) 0 0 curBase curLen
      else bestRun r (i + 1) 0 0 bestBase bestLen

def ntop6Words (ws : List Nat) (bytes16 : List Nat) (bb bl : Nat) : Nat → Bytes
  | i =>
    if h : i ≥ 8 then (if bl ≠ 0 ∧ bb + bl = 8 then [58] else [])
    else
      if bl ≠ 0 ∧ i ≥ bb ∧ i < bb + bl then
        (if i = bb then [58] else []) ++ ntop6Words ws bytes16 bb bl (i + 1)
      else
        let sep : Bytes := if i ≠ 0 then [58] else []
        if i = 6 ∧ bl ≠ 0 ∧ bb = 0 ∧ (bl = 6 ∨ (bl = 7 ∧ ws.getD 7 0 ≠ 1) ∨ (bl = 5 ∧ ws.getD 5 0 = 65535)) then
          sep ++ ntop4 (bytes16.getD 12 0) (bytes16.getD 13 0) (bytes16.getD 14 0) (bytes16.getD 15 0)
        else sep ++ hexOf (ws.getD i 0) ++ ntop6Words ws bytes16 bb bl (i + 1)
termination_by i => 8 - i

def ntop6 (b : List Nat) : Bytes :=
  let ws := words16 b
  let br := bestRun ws 0 0 0 0 0
  let bl := if br.2 < 2 then 0 else br.2
  ntop6Words ws b br.1 bl 0

/-! ### Address::init and printing -/

inductive IPAddr | v4 (a b c d : Nat) | v6 (bytes : List Nat)
  deriving DecidableEq, Repr

inductive AddrRes
  | ok (ip : IPAddr) (port : Nat)
  | invalid           -- std::invalid_argument
  | unspec            -- host text handed to the resolver is not a canonical dotted quad: outside the model
  deriving DecidableEq, Repr

def star : Bytes := [42]
def localhost : Bytes := bytes "localhost"

def addressInit (addr : Bytes) : AddrRes :=
  if addr.contains 0 then .invalid else       -- embedded NUL
  match addressParser addr with
  | none => .invalid
  | some p =>
    let portRes : Option Nat :=
      if p.port.isEmpty then (if p.hasColon then none else some 80)
      else parsePortNonEmpty p.port
    match portRes with
    | none => .invalid
    | some port =>
      if p.v6 then
        let host := substr addr 1 (p.host.length - 2)
        match pton6 (cstr host) with
        | some b => .ok (.v6 b) port
        | none => .invalid
      else
        let host := if p.host = star then bytes "0.0.0.0" else if p.host = localhost then bytes "127.0.0.1" else p.host
        if (cstr host).isEmpty then .invalid
        else match pton4 (cstr host) with
          | some [a, b, c, d] => .ok (.v4 a b c d) port
          | _ =>
            -- not a canonical dotted quad: the text goes to the resolver.  A text with a blank, a control character or a byte above
            -- 0x7e in it is no host name and no literal: the resolver refuses it (also when it BEGINS with a dotted quad)
            if (cstr host).all (fun c => decide (33 ≤ c ∧ c ≤ 126)) then .unspec else .invalid

def hostText : IPAddr → Bytes
  | .v4 a b c d => ntop4 a b c d
  | .v6 b => ntop6 b

/-- `operator<<(ostream&, const Address&)` (after the fix: an IPv6 host is bracketed) -/
def printAddr (ip : IPAddr) (port : Nat) : Bytes :=
  match ip with
  | .v4 _ _ _ _ => hostText ip ++ [58] ++ natToDec port
  | .v6 _ => [91] ++ hostText ip ++ [93, 58] ++ natToDec port

end Pistache.Net
