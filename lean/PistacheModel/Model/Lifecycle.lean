/-
Model of the per-connection lifecycle of src/common/transport.cc + src/server/endpoint.cc as the handler
sees it: a connection is registered (`handlePeer` → onConnection), input is delivered while it is
registered (`handleIncoming` → onInput), and it leaves either because the peer went away
(`handlePeerDisconnection`: read of 0 / error → onDisconnection, removePeer) or because the server expired
it (`checkIdlePeers`: 408, then — after the repair recorded in known_findings.json — onDisconnection,
removePeer).  `removePeer` erases the peer, its write queue and closes the descriptor.
Connections are identified by an id that is never reused (the C++ reuses descriptor numbers only after close).
-/
import PistacheModel.Model.Basic

namespace Pistache.Lifecycle

inductive Ev
  | accept (id : Nat)        -- the listener hands a new connection to the worker
  | data (id : Nat)          -- bytes are readable on the connection
  | gone (id : Nat)          -- the peer closed / half-closed / reset: read returns 0 or an error
  | expire (id : Nat)        -- checkIdlePeers decides to drop the connection
  | writeFail (id : Nat)     -- a write to the connection fails with EPIPE / ECONNRESET (asyncWriteImpl): the queued entry is
                             -- dropped, NOTHING is released - the read side will report the loss of the peer
  deriving DecidableEq, Repr

inductive Call | conn | input | disc
  deriving DecidableEq, Repr

structure LState where
  peers : List Nat := []                 -- registered connections (peers map = toWrite map = open descriptors)
  log : List (Nat × Call) := []          -- what the handler was told, in order
  released : List Nat := []              -- connections whose descriptor was closed, in order
  deriving DecidableEq, Repr

def step (s : LState) : Ev → LState
  | .accept id => if id ∈ s.peers ∨ id ∈ s.released then s else { s with peers := s.peers ++ [id], log := s.log ++ [(id, .conn)] }
  | .data id => if id ∈ s.peers then { s with log := s.log ++ [(id, .input)] } else s
  | .gone id => if id ∈ s.peers then { peers := s.peers.erase id, log := s.log ++ [(id, .disc)], released := s.released ++ [id] } else s
  | .expire id => if id ∈ s.peers then { peers := s.peers.erase id, log := s.log ++ [(id, .disc)], released := s.released ++ [id] } else s
  | .writeFail _ => s

def run (evs : List Ev) : LState := evs.foldl step {}

/-- what the handler was told about one connection -/
def callsOf (s : LState) (id : Nat) : List Call := (s.log.filter (·.1 = id)).map (·.2)

end Pistache.Lifecycle
