/-
Model of the write path of src/common/transport.cc for one connection: `asyncWrite` appends an entry
(buffer + promise) to the connection's queue; `asyncWriteImpl` hands the unsent part of the FRONT entry to
the socket; the socket accepts a prefix (short write) or answers would-block; a fully accepted entry is
popped and its promise fulfilled with the buffer's size (after the repair recorded in
known_findings.json; before it, with the size of the tail that was re-queued after the last would-block).
One `sock` operation = one `send`/`sendfile` call.  Memory and file buffers differ only in how the offset
is kept (`BufferHolder::offset`), not in this arithmetic.
-/
import PistacheModel.Model.Basic
import PistacheModel.Model.Stream

namespace Pistache.WriteQueue
open Pistache Pistache.Stream

structure Entry where
  id : Nat
  data : Bytes
  off : Nat := 0
  deriving DecidableEq, Repr

inductive Outcome
  | block                -- EAGAIN / EWOULDBLOCK
  | cap (n : Nat)        -- the socket takes at most n bytes of what is offered
  deriving DecidableEq, Repr

inductive Op
  | enq (id : Nat) (data : Bytes)     -- asyncWrite(fd, buffer), from any thread
  | sock (o : Outcome)                -- one write call on the connection, if anything is queued
  deriving DecidableEq, Repr

structure WState where
  queue : List Entry := []
  wire : Bytes := []                       -- bytes the socket has accepted, in order
  settled : List (Nat × Nat) := []         -- (promise id, value it was fulfilled with), in order
  calls : List (Nat × Option Nat) := []    -- (length offered, accepted or none = would-block)
  deriving DecidableEq, Repr

def step (s : WState) : Op → WState
  | .enq id data => { s with queue := s.queue ++ [{ id := id, data := data }] }
  | .sock o =>
    match s.queue with
    | [] => s
    | e :: rest =>
      let len := e.data.length - e.off
      match o with
      | .block => { s with calls := s.calls ++ [(len, none)] }
      | .cap n =>
        let acc := min len n
        let wire := s.wire ++ (e.data.drop e.off).take acc
        if e.off + acc ≥ e.data.length then
          { queue := rest, wire := wire, settled := s.settled ++ [(e.id, e.data.length)], calls := s.calls ++ [(len, some acc)] }
        else
          { s with queue := { e with off := e.off + acc } :: rest, wire := wire, calls := s.calls ++ [(len, some acc)] }

def run (ops : List Op) : WState := ops.foldl step {}

/-- what is still to be sent -/
def pending (q : List Entry) : Bytes := (q.map fun e => e.data.drop e.off).flatten

/-- the buffers issued so far, in the order issued -/
def issued : List Op → List (Nat × Bytes)
  | [] => []
  | .enq id d :: r => (id, d) :: issued r
  | .sock _ :: r => issued r

end Pistache.WriteQueue
