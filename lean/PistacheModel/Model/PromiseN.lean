/-
Model of include/pistache/async.h for C12 with ANY NUMBER of attaching threads: thread 0 settles a promise P
(`Resolver::operator()` / `Rejection::operator()`), thread j+1 attaches its own continuation `h j` with `P.then(...)`.
(Model/PromiseMT.lean follows the chain into derived promises for one attaching thread and is decided by exhaustive
closure; here the number of threads is a parameter and the statements are proved by an inductive invariant.)

Granularity = the PISTACHE_VERIF hooks of async.h, as in PromiseMT: a thread is parked before each lock acquisition
(a step on a taken mutex is a `blocked` retry that changes nothing), before the state read/write and before the walk
of / append to the request list.

  settle   p.settle.check: read the state WITHOUT the lock, throw if not pending;  p.settle.lock: take Core::mtx;
           p.settle.store: store the outcome;  p.settle.walk: run every request of the list in order, release
  then     p.then.lock: take Core::mtx;  p.then.state: if the state is settled run the continuation at once;
           p.then.push: append the request to the list (always, also when it ran), release

`atomic = true` is the code as it is.  `atomic = false` is a seeded change (seeded/C12-reject-snapshot-then-store): the
settler copies the list in one critical section, stores the state in a second one and walks its copy without the lock —
every access is still made under the lock, only the snapshot and the store are no longer one atomic step.
-/
import PistacheModel.Model.Basic

namespace Pistache.PromiseN

inductive SPc | start | check | lock1 | snap | lock | store | walk | done
  deriving DecidableEq, Repr

inductive APc | start | tLock | tState | tPush | done
  deriving DecidableEq, Repr

structure St where
  settled : Bool := false
  lock : Option Nat := none          -- thread holding Core::mtx (0 = the settler, j+1 = attacher j)
  reqs : List Nat := []              -- Core::requests: the continuations attached, in order
  order : List Nat := []             -- log: every run of a continuation, in order
  snapshot : List Nat := []          -- (seeded variant) the settler's copy of the list
  spc : SPc := .start
  apc : Nat → APc := fun _ => .start
  excA : Bool := false               -- the settler threw "Attempt to resolve/reject a fulfilled promise"

structure Cfg where
  atomic : Bool := true

def setA (s : St) (j : Nat) (p : APc) : St := { s with apc := fun i => if i = j then p else s.apc i }

def stepS (cfg : Cfg) (s : St) : St :=
  match s.spc with
  | .start => { s with spc := .check }
  | .check => if s.settled then { s with spc := .done, excA := true }
              else if cfg.atomic then { s with spc := .lock } else { s with spc := .lock1 }
  | .lock1 => if s.lock = none then { s with lock := some 0, spc := .snap } else s
  | .snap => { s with snapshot := s.reqs, lock := none, spc := .lock }
  | .lock => if s.lock = none then { s with lock := some 0, spc := .store } else s
  | .store => if cfg.atomic then { s with settled := true, spc := .walk }
              else { s with settled := true, lock := none, spc := .walk }
  | .walk => if cfg.atomic then { s with order := s.order ++ s.reqs, lock := none, spc := .done }
             else { s with order := s.order ++ s.snapshot, spc := .done }
  | .done => s

def stepA (s : St) (j : Nat) : St :=
  match s.apc j with
  | .start => setA s j .tLock
  | .tLock => if s.lock = none then setA { s with lock := some (j + 1) } j .tState else s
  | .tState => if s.settled then setA { s with order := s.order ++ [j] } j .tPush else setA s j .tPush
  | .tPush => setA { s with reqs := s.reqs ++ [j], lock := none } j .done
  | .done => s

/-- one step of thread `tid` -/
def step (cfg : Cfg) (s : St) (tid : Nat) : St :=
  match tid with
  | 0 => stepS cfg s
  | j + 1 => stepA s j

def run (cfg : Cfg) (sched : List Nat) (s : St) : St := sched.foldl (step cfg) s

def init : St := {}

def finished (s : St) (tid : Nat) : Bool :=
  match tid with
  | 0 => s.spc == .done
  | j + 1 => s.apc j == .done

/-- how many steps thread `tid` still has to make (not counting blocked retries) -/
def rank (s : St) (tid : Nat) : Nat :=
  match tid with
  | 0 => (match s.spc with | .start => 7 | .check => 6 | .lock1 => 5 | .snap => 4 | .lock => 3 | .store => 2 | .walk => 1 | .done => 0)
  | j + 1 => (match s.apc j with | .start => 4 | .tLock => 3 | .tState => 2 | .tPush => 1 | .done => 0)

end Pistache.PromiseN
