/-
Model of the client's dispatch of requests over a per-host pool of keep-alive connections
(src/client/client.cc: ConnectionPool, Client::doRequest / processRequestQueue, Connection::
handleResponsePacket / handleTimeout; after the repairs recorded in known_findings.json).

A connection carries at most one outstanding request.  The server answers the requests it received on
one socket in the order received.  `closeOnTimeout = true` is the repaired client (the socket of a
timed-out request is given up: whatever the server still sends on it is lost); `false` is the client
before the repair (the connection goes back to the pool with the server's answer still to come).
-/
import PistacheModel.Model.Basic

namespace Pistache.ClientPool

inductive Res | ok (tag : Nat) | timeout
  deriving DecidableEq, Repr

structure CConn where
  cur : Option Nat := none     -- the request whose promise waits on this connection
  srvq : List Nat := []        -- requests the server has received on this socket and not answered yet, oldest first
  deriving DecidableEq, Repr

structure CState where
  conns : List CConn
  waiting : List Nat := []
  log : List (Nat × Res) := []       -- settlements, in order
  deriving DecidableEq, Repr

inductive Ev
  | issue (r : Nat)        -- RequestBuilder::send
  | answer (c : Nat)       -- the server answers the oldest request it holds on connection c; the client reads it
  | expire (r : Nat)       -- request r's time-out fires
  deriving DecidableEq, Repr

def init (m : Nat) : CState := { conns := List.replicate m {} }

/-- index of the first idle connection -/
def firstIdle : List CConn → Option Nat
  | [] => none
  | c :: cs => if c.cur.isNone then some 0 else (firstIdle cs).map (· + 1)

def sendOn (s : CState) (i r : Nat) : CState :=
  { s with conns := s.conns.modify i fun c => { cur := some r, srvq := c.srvq ++ [r] } }

/-- `processRequestQueue`: as long as a connection is idle and a request waits, send it -/
def dispatch : Nat → CState → CState
  | 0, s => s
  | fuel + 1, s =>
    match s.waiting, firstIdle s.conns with
    | r :: rest, some i => dispatch fuel (sendOn { s with waiting := rest } i r)
    | _, _ => s

def step (closeOnTimeout : Bool) (s : CState) : Ev → CState
  | .issue r =>
    match firstIdle s.conns with
    | some i => sendOn s i r
    | none => { s with waiting := s.waiting ++ [r] }
  | .answer c =>
    match s.conns[c]? with
    | none => s
    | some k =>
      match k.srvq with
      | [] => s
      | t :: rest =>
        match k.cur with
        | some r =>
          let s1 := { s with conns := s.conns.set c { cur := none, srvq := rest }, log := s.log ++ [(r, .ok t)] }
          dispatch (s1.waiting.length + 1) s1
        | none => { s with conns := s.conns.set c { k with srvq := rest } }        -- nobody waits: dropped
  | .expire r =>
    match s.conns.findIdx? (fun k => k.cur = some r) with
    | none => s
    | some c =>
      let k := s.conns.getD c {}
      let s1 := { s with conns := s.conns.set c { cur := none, srvq := if closeOnTimeout then [] else k.srvq }, log := s.log ++ [(r, .timeout)] }
      dispatch (s1.waiting.length + 1) s1

def run (closeOnTimeout : Bool) (m : Nat) (evs : List Ev) : CState := evs.foldl (step closeOnTimeout) (init m)

end Pistache.ClientPool
