/-
Did the cascade of every operation of a program run to completion within the fuel?  (A decidable condition on the
model, evaluated by the driver for every program it runs: MODEL-FUEL otherwise.)
-/
import PistacheModel.Model.Promise

namespace Pistache.Promise

/-- the machine that an operation hands to `settleDown` (none: the operation starts no cascade) -/
def preSettle (m : M) : Op → Option M
  | .then_ p cb ret rej => some (thenOn (m.newCore {}).1 p { kind := .user cb ret rej, chain := (m.newCore {}).2 })
  | .resolve p v => match (m.core p).st with | .pending => some (fulfilAndWalk m p v) | _ => none
  | .reject p e => match (m.core p).st with | .pending => some (rejectAndWalk m p e) | _ => none
  | .whenAll ps =>
    let m1 := (m.newCore {}).1
    some { m1 with datas := m1.datas ++ [({ target := (m.newCore {}).2, total := ps.length, inputs := ps, anyKind := false } : Data)],
                   stack := (ps.zipIdx.map fun (pi : Nat × Nat) => Act.attach pi.1 ({ kind := .allInput m1.datas.length pi.2, chain := 0 } : Req)) ++ m1.stack }
  | .whenAny ps =>
    let m1 := (m.newCore {}).1
    some { m1 with datas := m1.datas ++ [({ target := (m.newCore {}).2, total := ps.length, inputs := ps, anyKind := true } : Data)],
                   stack := (ps.map fun (p : Nat) => Act.attach p ({ kind := .anyInput m1.datas.length, chain := 0 } : Req)) ++ m1.stack }
  | _ => none

/-- the cascade of the operation ran to completion within the fuel -/
def opQuiescentB (m : M) (op : Op) : Bool :=
  match preSettle m op with
  | some m' => (run (fuelFor m') m').stack.isEmpty
  | none => true

def quiescentB (m : M) : List Op → Bool
  | [] => true
  | op :: rest => opQuiescentB m op && quiescentB (exec m op).1 rest

end Pistache.Promise
