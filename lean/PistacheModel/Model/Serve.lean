/-
Route level of src/server/router.cc (`Router::route`, after the repair recorded in known_findings.json):
the router holds one segment tree per method that has routes; a request is looked up in the tree of its
method; when that finds nothing the trees of the OTHER methods are consulted to answer 405 with the
methods that would match, else 404.  The table of trees is shared by all worker threads: serving must
only read it.
`insertOnMiss = true` is the code before the repair: `routes[method]` created an empty tree for a method
nobody registered — a write to the shared table on the serving path.
-/
import PistacheModel.Model.Router

namespace Pistache.Serve
open Pistache Pistache.Stream Pistache.Router

/-- method index → its routes -/
abbrev Tables := List (Nat × Node)

inductive Answer
  | handled (handler : Nat) (params : List (Bytes × Bytes)) (splats : List Bytes)
  | notAllowed (allowed : List Nat)      -- methods that do have a route for the path
  | notFound
  deriving DecidableEq, Repr

def tableOf (t : Tables) (m : Nat) : Option Node := (t.find? (·.1 = m)).map (·.2)

/-- `Router::route`: returns the (possibly changed) table of trees and the answer -/
def route (insertOnMiss : Bool) (t : Tables) (m : Nat) (path : Bytes) : Tables × Answer :=
  let t1 := if insertOnMiss ∧ (tableOf t m).isNone then t ++ [(m, [])] else t
  match (tableOf t m).bind (fun n => lookup false n path) with
  | some f => (t1, .handled f.handler f.params f.splats)
  | none =>
    let others := (t1.filter fun p => p.1 ≠ m ∧ (lookup false p.2 path).isSome).map (·.1)
    if others.isEmpty then (t1, .notFound) else (t1, .notAllowed others)

/-- the answer as a function of the request alone (given the registered routes) -/
def answer (t : Tables) (m : Nat) (path : Bytes) : Answer := (route false t m path).2

/-! ### many connections, several workers: the order in which requests are served -/

structure Served where
  conn : Nat
  method : Nat
  path : Bytes
  deriving DecidableEq, Repr

/-- serve requests in some global order (any interleaving the scheduler produces); each gets an answer -/
def serveAll (insertOnMiss : Bool) : Tables → List Served → Tables × List (Nat × Answer)
  | t, [] => (t, [])
  | t, r :: rest =>
    let p := route insertOnMiss t r.method r.path
    let q := serveAll insertOnMiss p.1 rest
    (q.1, (r.conn, p.2) :: q.2)

end Pistache.Serve
