/-
Model of the HTTP date of src/common/http_defs.cc (`FullDate::write`, type RFC1123, through the Hinnant date
library's `to_stream("%a, %d %b %Y %T %Z")` on a nanosecond `system_clock::time_point` holding whole seconds):
  "Sun, 06 Nov 1994 08:49:37.000000000 UTC"
and of reading such a canonical string back (`FullDate::fromString`, first alternative `parse_RFC_1123`).
The calendar is defined by plain recursion over years and months (the proleptic Gregorian calendar from
1970); the date library itself is trusted, the correspondence check compares the bytes on sampled instants.
Other accepted spellings (RFC 850, asctime, other zone names, fractions) are outside this model (`none`).
-/
import PistacheModel.Model.Basic

namespace Pistache.Date

def isLeap (y : Nat) : Bool := (y % 4 == 0 && y % 100 != 0) || y % 400 == 0
def yearLen (y : Nat) : Nat := if isLeap y then 366 else 365

/-- (year, day of the year) of day `d` counted from 1 January of `y` -/
def yearOf : Nat → Nat → Nat → Nat × Nat
  | 0, y, d => (y, d)
  | f + 1, y, d => if d < yearLen y then (y, d) else yearOf f (y + 1) (d - yearLen y)

/-- days from 1 January of `y` to 1 January of `y + n` -/
def daysOfYears (y : Nat) : Nat → Nat
  | 0 => 0
  | n + 1 => yearLen y + daysOfYears (y + 1) n

def monthLens (leap : Bool) : List Nat := [31, if leap then 29 else 28, 31, 30, 31, 30, 31, 31, 30, 31, 30, 31]

/-- (months passed, day of the month from 0) of day-of-year `d` -/
def monthOf : List Nat → Nat → Nat → Nat × Nat
  | [], m, d => (m, d)
  | l :: ls, m, d => if d < l then (m, d) else monthOf ls (m + 1) (d - l)

structure Civil where
  year : Nat
  month : Nat     -- 1..12
  day : Nat       -- 1..31
  hour : Nat
  min : Nat
  sec : Nat
  deriving DecidableEq, Repr

/-- seconds since 1970-01-01T00:00:00Z → civil time -/
def civilOf (t : Nat) : Civil :=
  let days := t / 86400
  let sod := t % 86400
  let yd := yearOf (days + 1) 1970 days
  let md := monthOf (monthLens (isLeap yd.1)) 0 yd.2
  { year := yd.1, month := md.1 + 1, day := md.2 + 1, hour := sod / 3600, min := sod % 3600 / 60, sec := sod % 60 }

def secondsOf (c : Civil) : Nat :=
  (daysOfYears 1970 (c.year - 1970) + ((monthLens (isLeap c.year)).take (c.month - 1)).sum + (c.day - 1)) * 86400
    + c.hour * 3600 + c.min * 60 + c.sec

/-- 0 = Sunday; 1970-01-01 was a Thursday -/
def weekday (t : Nat) : Nat := (t / 86400 + 4) % 7

def dayNames : List String := ["Sun", "Mon", "Tue", "Wed", "Thu", "Fri", "Sat"]
def monthNames : List String := ["Jan", "Feb", "Mar", "Apr", "May", "Jun", "Jul", "Aug", "Sep", "Oct", "Nov", "Dec"]

def pad2 (n : Nat) : List Nat := [48 + n / 10 % 10, 48 + n % 10]
def pad4 (n : Nat) : List Nat := [48 + n / 1000 % 10, 48 + n / 100 % 10, 48 + n / 10 % 10, 48 + n % 10]

/-- `FullDate::write` (RFC1123) for an instant with whole seconds; years up to 9999 -/
def write (t : Nat) : List Nat :=
  let c := civilOf t
  bytes (dayNames.getD (weekday t) "") ++ [44, 32] ++ pad2 c.day ++ [32] ++ bytes (monthNames.getD (c.month - 1) "") ++ [32] ++ pad4 c.year
    ++ [32] ++ pad2 c.hour ++ [58] ++ pad2 c.min ++ [58] ++ pad2 c.sec ++ bytes ".000000000 UTC"

def digit? (b : Nat) : Option Nat := if 48 ≤ b ∧ b ≤ 57 then some (b - 48) else none
def num2? (s : List Nat) : Option Nat := match s with
  | [a, b] => do let x ← digit? a; let y ← digit? b; pure (10 * x + y)
  | _ => none
def num4? (s : List Nat) : Option Nat := match s with
  | [a, b, c, d] => do let w ← digit? a; let x ← digit? b; let y ← digit? c; let z ← digit? d; pure (1000 * w + 100 * x + 10 * y + z)
  | _ => none

def indexOf? (names : List String) (s : List Nat) : Option Nat := names.findIdx? (fun n => bytes n == s)

/-- reading the canonical form back; anything else is outside the model -/
def parseCanon (s : List Nat) : Option Nat :=
  if s.length ≠ 39 then none else
  if (s.drop 3).take 2 ≠ [44, 32] then none else
  if s.getD 7 0 ≠ 32 ∨ s.getD 11 0 ≠ 32 ∨ s.getD 16 0 ≠ 32 ∨ s.getD 19 0 ≠ 58 ∨ s.getD 22 0 ≠ 58 then none else
  if s.drop 25 ≠ bytes ".000000000 UTC" then none else
  do
    let wd ← indexOf? dayNames (s.take 3)
    let day ← num2? ((s.drop 5).take 2)
    let mon ← indexOf? monthNames ((s.drop 8).take 3)
    let year ← num4? ((s.drop 12).take 4)
    let hour ← num2? ((s.drop 17).take 2)
    let min ← num2? ((s.drop 20).take 2)
    let sec ← num2? ((s.drop 23).take 2)
    if year < 1970 ∨ day < 1 ∨ (monthLens (isLeap year)).getD mon 0 < day ∨ 24 ≤ hour ∨ 60 ≤ min ∨ 60 ≤ sec then none else
    let t := secondsOf { year := year, month := mon + 1, day := day, hour := hour, min := min, sec := sec }
    if weekday t ≠ wd then none else some t

end Pistache.Date
