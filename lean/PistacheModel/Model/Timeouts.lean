/-
Model of the read time-outs of src/server/endpoint.cc (`TransportImpl::checkIdlePeers`): every `period`
(500 ms) the loop thread looks at each connection's parser: while the request line or the headers are
incomplete the connection expires when more than the header time-out OR more than the body time-out
has elapsed since the parser was (re)set; while the body is incomplete, when more than the body
time-out has elapsed.  An expired connection is answered 408 and closed.
Times are in milliseconds since the start of the request (= parser construction / last reset).
-/
import PistacheModel.Model.Basic
import PistacheModel.Generated.HeaderTables

namespace Pistache.Timeouts

inductive Phase | head | body | complete
  deriving DecidableEq, Repr

structure TCfg where
  hdr : Nat
  body : Nat
  period : Nat := Gen.timerPeriodMs     -- regenerated from src/server/endpoint.cc on every run
  deriving DecidableEq, Repr

/-- the test of `checkIdlePeers` for one connection -/
def expired (c : TCfg) (ph : Phase) (elapsed : Nat) : Bool :=
  match ph with
  | .head => decide (elapsed > c.hdr) || decide (elapsed > c.body)
  | .body => decide (elapsed > c.body)
  | .complete => false

/-- a request as the server experiences it: the head is complete at `th`, the whole request at `tb`
    (`none` = never) -/
structure Arrival where
  th : Option Nat
  tb : Option Nat
  deriving DecidableEq, Repr

/-- phase of the parser at time `t` (events at exactly `t` have not happened yet) -/
def phaseAt (a : Arrival) (t : Nat) : Phase :=
  match a.tb with
  | some tb => if tb < t then .complete else
    (match a.th with | some th => if th < t then .body else .head | none => .head)
  | none => (match a.th with | some th => if th < t then .body else .head | none => .head)

/-- the first tick (1, 2, …, up to `fuel`) at which the connection expires; `none` = the request
    completed first (or nothing happened within `fuel` ticks) -/
def firstExpiry (c : TCfg) (a : Arrival) : Nat → Nat → Option Nat
  | 0, _ => none
  | fuel + 1, k =>
    if phaseAt a (k * c.period) = .complete then none
    else if expired c (phaseAt a (k * c.period)) (k * c.period) then some k
    else firstExpiry c a fuel (k + 1)

inductive Verdict | served | timedOut (tick : Nat) | waiting
  deriving DecidableEq, Repr

def verdict (c : TCfg) (a : Arrival) (fuel : Nat) : Verdict :=
  match firstExpiry c a fuel 1 with
  | some k => .timedOut k
  | none => if a.tb.isSome then .served else .waiting

/-! ### one scan over all the connections of a worker (`for (const auto& peerPair : peers)` in checkIdlePeers) -/

/-- a connection as the scan sees it: an identity, the parser's phase and the time since its clock was (re)started -/
structure Peer where
  id : Nat
  phase : Phase
  elapsed : Nat
  deriving DecidableEq, Repr

/-- the connections the scan answers 408 and drops: every one is looked at, each is judged by its own phase and clock -/
def scan (c : TCfg) (peers : List Peer) : List Peer := peers.filter fun p => expired c p.phase p.elapsed

/-- a scan that stops at the first connection still within its limits (a seeded change: `break` where `continue` was meant) -/
def scanBreak (c : TCfg) : List Peer → List Peer
  | [] => []
  | p :: rest => if expired c p.phase p.elapsed then p :: scanBreak c rest else []

end Pistache.Timeouts
