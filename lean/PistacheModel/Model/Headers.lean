/-
Model of the typed header readers/writers of src/common/http_header.cc (after the repairs recorded in
known_findings.json).  Tables that live inside function bodies are regenerated from the source
(Generated/HeaderTables.lean).
-/
import PistacheModel.Model.Mime
import PistacheModel.Model.Net
import PistacheModel.Model.Base64
import PistacheModel.Generated.HeaderTables

namespace Pistache.Headers
open Pistache Pistache.Stream Pistache.Num

inductive HErr
  | runtime | invalidArg | outOfRange | http (code : Nat)
  | unspec            -- outside the model (date library, float corner cases)
  deriving DecidableEq, Repr

/-! ### Cache-Control -/

def trivialNames : List Bytes := Gen.cacheTrivial.map (fun p => bytes p.1)
def timedNames : List Bytes := Gen.cacheTimed.map (fun p => bytes p.1)

/-- a directive: enum name (as in the source) and the delta for timed ones -/
structure Directive where
  kind : String
  delta : Option Int
  deriving DecidableEq, Repr

/-- first table entry matched by `match_raw` -/
def matchRawTable : List (String × String) → Bytes → Option (String × Bytes)
  | [], _ => none
  | (txt, enumName) :: rest, s =>
    match matchRaw (bytes txt) s with
    | some r => some (enumName, r)
    | none => matchRawTable rest s

/-- skip the separators after a directive: `while (c == ',' || c == ' ') advance(1)` -/
def skipCommaSp : Bytes → Bytes
  | [] => []
  | c :: r => if c = 44 ∨ c = 32 then skipCommaSp r else c :: r

/-- one iteration of the do-while up to the separator handling: the unread rest and the directive
    recognised (none when nothing matched) -/
def cacheStep (s : Bytes) : Except HErr (Bytes × List Directive) :=
  match matchRawTable Gen.cacheTrivial s with
  | some (k, r) => .ok (r, [{ kind := k, delta := none }])
  | none =>
    match matchRawTable Gen.cacheTimed s with
    | some (k, r) =>
      match r with
      | [] => .error .runtime                                  -- missing delta-seconds
      | _ :: r1 =>
        if !(Net.strtol10 r1).2.isEmpty ∧ (Net.strtol10 r1).2.head? ≠ some 44 then .error .runtime -- malformed delta-seconds
        else .ok ((Net.strtol10 r1).2, [{ kind := k, delta := some (Net.strtol10 r1).1 }])
    | none => .ok (s, [])

def cacheLoop : Nat → Bytes → List Directive → Except HErr (List Directive)
  | 0, _, _ => .error .unspec
  | fuel + 1, s, acc =>
    match cacheStep s with
    | .error e => .error e
    | .ok (r, new) =>
      match r with
      | [] => .ok (acc ++ new)
      | c :: _ =>
        if c ≠ 44 then .error .runtime                               -- expected a comma
        else if (skipCommaSp r).isEmpty then .ok (acc ++ new) else cacheLoop fuel (skipCommaSp r) (acc ++ new)

def parseCacheControl (s : Bytes) : Except HErr (List Directive) := cacheLoop (s.length + 1) s []

def directiveText (k : String) : Bytes :=
  match Gen.cacheWrite.find? (fun p => p.1 == k) with
  | some p => bytes p.2
  | none => []

/-- decimal rendering of a signed 64-bit count (`os << delta.count()`) -/
def intToDec (i : Int) : Bytes := if i < 0 then 45 :: natToDec i.natAbs else natToDec i.toNat

def writeDirective (d : Directive) : Bytes :=
  directiveText d.kind ++
    (if Gen.cacheHasDelta.contains d.kind then
      match d.delta with
      | some v => 61 :: intToDec v
      | none => [61, 48]
     else [])

def writeCacheControl : List Directive → Bytes
  | [] => []
  | [d] => writeDirective d
  | d :: rest => writeDirective d ++ [44, 32] ++ writeCacheControl rest

/-! ### Connection -/

inductive Conn | close | keepAlive | ext
  deriving DecidableEq, Repr

def parseConnection (s : Bytes) : Conn :=
  if (matchStringCI (bytes "close") s).isSome then .close
  else if (matchStringCI (bytes "keep-alive") s).isSome then .keepAlive
  else .ext

def writeConnection : Conn → Bytes
  | .close => bytes "Close"
  | .keepAlive => bytes "Keep-Alive"
  | .ext => bytes "Ext"

/-! ### Content-Encoding / Transfer-Encoding -/

/-- `strncasecmp(str, name, len) == 0` where `str` has exactly `len` bytes -/
def strncaseEq : Bytes → Bytes → Bool
  | [], _ => true
  | a :: s, name =>
    let b := name.headD 0
    if lower a ≠ lower b then false
    else if a = 0 then true
    else strncaseEq s name.tail

def parseEncodingAux : List (String × String) → Bytes → String
  | [], _ => "Unknown"
  | (txt, e) :: rest, s => if strncaseEq s (bytes txt) then e else parseEncodingAux rest s

def parseEncoding (s : Bytes) : String := parseEncodingAux Gen.encodingParse s

def writeEncoding (e : String) : Bytes :=
  match Gen.encodingNames.find? (fun p => p.1 == e) with
  | some p => bytes p.2
  | none => bytes "unknown"

/-! ### Content-Length (`std::stoull`) -/

def two64 : Nat := 18446744073709551616

/-- `ContentLength::parse`: value (0 when nothing converts: invalid_argument is swallowed),
    `out_of_range` escapes -/
def parseContentLength (s : Bytes) : Except HErr Nat :=
  let s1 := dropSpaces (Net.cstr s)
  let neg := signOf s1
  let ds := (spanDigits (afterSign s1)).1
  if ds.isEmpty then .ok 0
  else
    let v := digitsVal ds
    if v ≥ two64 then .error .outOfRange
    else .ok (if neg then (two64 - v) % two64 else v)

/-! ### Host -/

structure HostV where
  host : Bytes
  port : Nat
  deriving DecidableEq, Repr

def parseHost (s : Bytes) : Except HErr HostV :=
  match Net.addressParser s with
  | none => .error .invalidArg
  | some p =>
    if p.port.isEmpty then .ok { host := p.host, port := 80 }
    else match Net.parsePort p.port with
      | some n => .ok { host := p.host, port := n }
      | none => .error .invalidArg

def writeHost (h : HostV) : Bytes := h.host ++ (if h.port ≠ 0 then 58 :: natToDec h.port else [])

/-! ### Server (tokens separated by single spaces) -/

def splitSp : Bytes → List Bytes
  | [] => [[]]
  | c :: r =>
    match splitSp r with
    | [] => [[c]]
    | t :: ts => if c = 32 then [] :: t :: ts else (c :: t) :: ts

/-- `Server::parse` appends the tokens of the text (split at spaces; empty pieces dropped) -/
def parseServer (s : Bytes) : List Bytes := (splitSp s).filter (fun t => !t.isEmpty)

def writeServer : List Bytes → Bytes
  | [] => []
  | [t] => t
  | t :: rest => t ++ [32] ++ writeServer rest

/-! ### Expect -/

def parseExpect (s : Bytes) : Bool := s = bytes "100-continue"
def writeExpect (b : Bool) : Bytes := if b then bytes "100-continue" else []

/-! ### Accept -/

/-- inner scan: `while ((c = next()) != Eof && c != ',') advance(1)` -/
def acceptScan : Bytes → Bytes
  | [] => []
  | c :: r => if next (c :: r) = -1 ∨ next (c :: r) = 44 then c :: r else acceptScan r

def acceptLoop : Nat → Bytes → List Mime.Media → Except HErr (List Mime.Media)
  | 0, _, _ => .error .unspec
  | fuel + 1, s, acc =>
    let s1 := acceptScan s
    let s2 := s1.drop 1                                   -- advance(1) (no-op at end of input)
    let mimeTxt := s.take (s.length - s2.length)
    match Mime.parse mimeTxt with
    | .error .unsupported => .error (.http 415)
    | .error _ => .error .unspec
    | .ok m =>
      match s2 with
      | [] => .ok (acc ++ [m])
      | _ :: s3 =>                                        -- advance(1) over the ','
        let n := next s3
        if s3.isEmpty ∨ n = -1 ∨ n = 44 ∨ n = 0 then .error .runtime
        else
          let s4 := s3.dropWhile (· = 32)
          if s4.isEmpty then .ok (acc ++ [m]) else acceptLoop fuel s4 (acc ++ [m])

def parseAccept (s : Bytes) : Except HErr (List Mime.Media) := acceptLoop (s.length + 1) s []


/-! ### the registry as HeadersStep uses it -/

/-- canonical (registered) name of a header name as received, compared case-insensitively -/
def canonOf (name : Bytes) : Option String :=
  (Gen.registeredHeaders.find? (fun p => (bytes p.2).map lower == name.map lower)).map (·.2)

/-- does the typed reader of the registered header `canon` accept the value?  `none` = yes -/
def typedCheck (canon : String) (v : Bytes) : Option HErr :=
  if canon == "Cache-Control" then (match parseCacheControl v with | .ok _ => none | .error e => some e)
  else if canon == "Content-Length" then (match parseContentLength v with | .ok _ => none | .error e => some e)
  else if canon == "Host" then (match parseHost v with | .ok _ => none | .error e => some e)
  else if canon == "Content-Type" then
    (match Mime.parse v with | .ok _ => none | .error .unsupported => some (.http 415) | .error _ => some .unspec)
  else if canon == "Accept" then (match parseAccept v with | .ok _ => none | .error e => some e)
  else if canon == "Date" then some .unspec
  else none

end Pistache.Headers
