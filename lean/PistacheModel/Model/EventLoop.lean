/-
Model of one worker thread's handling of write readiness (src/common/transport.cc, after the repair
recorded in known_findings.json): the loop takes one readiness event at a time and processes it to the
end before looking at the next.  A connection whose socket does not accept data costs ONE write attempt
per event that concerns it: `asyncWriteImpl` puts the entry back, asks for write readiness and returns.
(Before the repair it retried at once, for ever: that loop is not a total function of the event and is
modelled below only with explicit fuel, `drainOld`.)
-/
import PistacheModel.Model.WriteQueue

namespace Pistache.EventLoop
open Pistache Pistache.Stream Pistache.WriteQueue

structure Conn where
  w : WState := {}
  accepting : Bool := true      -- does the socket take data right now (environment)
  attempts : Nat := 0           -- write calls made on this connection
  deriving DecidableEq, Repr

inductive Ev
  | queued (c : Nat) (id : Nat) (data : Bytes)    -- a write was queued for connection c and the loop drains it (flush)
  | writable (c : Nat)                            -- epoll reports c writable
  | request (c : Nat) (id : Nat) (resp : Bytes)   -- a request arrives on c; the handler answers with `resp`
  | block (c : Nat) | unblock (c : Nat)           -- the peer stops / resumes reading (socket buffer full / drained)
  deriving DecidableEq, Repr

/-- `asyncWriteImpl(fd)`: while something is queued, offer the front entry; a socket that accepts takes
    all of it; one that does not ends the drain after a single attempt. -/
def drain : Nat → Conn → Conn
  | 0, c => c
  | fuel + 1, c =>
    if c.w.queue.isEmpty then c
    else if c.accepting then drain fuel { c with w := step c.w (.sock (.cap 1000000000000)), attempts := c.attempts + 1 }
    else { c with w := step c.w (.sock .block), attempts := c.attempts + 1 }

def drainConn (c : Conn) : Conn := drain (c.w.queue.length + 1) c

abbrev Loop := List Conn

def onConn (l : Loop) (i : Nat) (f : Conn → Conn) : Loop := l.modify i f

def handle (l : Loop) : Ev → Loop
  | .queued c id data => onConn l c fun k => drainConn { k with w := step k.w (.enq id data) }
  | .writable c => onConn l c drainConn
  | .request c id resp => onConn l c fun k => drainConn { k with w := step k.w (.enq id resp) }
  | .block c => onConn l c fun k => { k with accepting := false }
  | .unblock c => onConn l c fun k => { k with accepting := true }

def runLoop (l : Loop) (evs : List Ev) : Loop := evs.foldl handle l

/-- which connection an event concerns -/
def Ev.conn : Ev → Nat
  | .queued c _ _ => c | .writable c => c | .request c _ _ => c | .block c => c | .unblock c => c

/-- the unrepaired drain: after would-block it tries again at once; `fuel` bounds the modelled retries -/
def drainOld : Nat → Conn → Conn
  | 0, c => c
  | fuel + 1, c =>
    if c.w.queue.isEmpty then c
    else if c.accepting then drainOld fuel { c with w := step c.w (.sock (.cap 1000000000000)), attempts := c.attempts + 1 }
    else drainOld fuel { c with w := step c.w (.sock .block), attempts := c.attempts + 1 }

end Pistache.EventLoop
