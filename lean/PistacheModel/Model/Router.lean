/-
Model of src/server/router.cc: `SegmentTreeNode::{sanitizeResource, addRoute, removeRoute, findRoute}`
and the method table / 405 logic of `Router::route`, after the repairs in known_findings.json.

The segment tree is kept IMPLICIT: a node is the list of (remaining pattern, handler) pairs of the
routes that pass through it, children are obtained by grouping on the next pattern segment.  This is
exactly the tree `addRoute` builds (nodes keyed by segment kind and text), without a nested inductive.
Sibling order within one kind is the insertion order here; `unordered_map` gives an arbitrary order
(theorems quantify over it through `Ambiguous`; the driver reports it).
-/
import PistacheModel.Model.Stream

namespace Pistache.Router
open Pistache Pistache.Stream

inductive Seg
  | fixed (s : Bytes)
  | param (n : Bytes)        -- name including the ':'
  | opt (n : Bytes)          -- name including the ':', without the '?'
  | splat
  deriving DecidableEq, Repr

abbrev Pattern := List Seg
/-- a node of the implicit tree: routes passing through it with what is left of their pattern -/
abbrev Node := List (Pattern × Nat)

/-- `std::regex_replace(path, "//+", "/")` -/
def collapse : Bytes → Bytes
  | 47 :: 47 :: r => collapse (47 :: r)
  | c :: r => c :: collapse r
  | [] => []

/-- `sanitizeResource`: collapse slashes, drop the first byte, drop one trailing slash -/
def sanitize (path : Bytes) : Bytes :=
  let d := collapse path
  if d.getLast? = some 47 then (d.drop 1).take (d.length - 2) else d.drop 1

/-- split at '/' (`path.find('/')` recursion); the empty path has no segments -/
def splitSlash : Bytes → List Bytes
  | [] => []
  | s => go s []
where
  go : Bytes → Bytes → List Bytes
    | [], acc => [acc]
    | 47 :: r, acc => acc :: go r []
    | c :: r, acc => go r (acc ++ [c])

inductive SegErr | questionNotLast | badSplat | questionInFixed
  deriving DecidableEq, Repr

/-- `getSegmentType` (+ the name kept by addRoute) -/
def segOf (frag : Bytes) : Except SegErr Seg :=
  let hasQ := frag.contains 63
  match frag with
  | 58 :: _ =>
    if hasQ then (if frag.getLast? = some 63 then .ok (.opt frag.dropLast) else .error .questionNotLast)
    else .ok (.param frag)
  | 42 :: r => if r.isEmpty then .ok .splat else .error .badSplat
  | _ => if hasQ then .error .questionInFixed else .ok (.fixed frag)

def patternOf (sanitized : Bytes) : Except SegErr Pattern := (splitSlash sanitized).mapM segOf

/-! ### children of a node -/

def childFixed (n : Node) (s : Bytes) : Node :=
  n.filterMap fun pr => match pr.1 with | .fixed s' :: rest => if s' = s then some (rest, pr.2) else none | _ => none
def childParam (n : Node) (nm : Bytes) : Node :=
  n.filterMap fun pr => match pr.1 with | .param s' :: rest => if s' = nm then some (rest, pr.2) else none | _ => none
def childOpt (n : Node) (nm : Bytes) : Node :=
  n.filterMap fun pr => match pr.1 with | .opt s' :: rest => if s' = nm then some (rest, pr.2) else none | _ => none
def childSplat (n : Node) : Node :=
  n.filterMap fun pr => match pr.1 with | .splat :: rest => some (rest, pr.2) | _ => none

def dedup : List Bytes → List Bytes
  | [] => []
  | x :: r => x :: (dedup r).filter (· ≠ x)

def paramNames (n : Node) : List Bytes := dedup (n.filterMap fun pr => match pr.1 with | .param s :: _ => some s | _ => none)
def optNames (n : Node) : List Bytes := dedup (n.filterMap fun pr => match pr.1 with | .opt s :: _ => some s | _ => none)
def ownRoute (n : Node) : Option Nat := (n.find? fun pr => pr.1.isEmpty).map (·.2)

structure Found where
  handler : Nat
  params : List (Bytes × Bytes)     -- in binding order (name, value)
  splats : List Bytes
  deriving DecidableEq, Repr

/-- sibling order within one kind: the tree keeps same-kind children in an `unordered_map`, so the
    iteration order is not specified; `rev` selects one of two opposite orders -/
def order (rev : Bool) (names : List Bytes) : List Bytes := if rev then names.reverse else names

/-- end of the path: the node's own route, else (optional parameter absent) the optional children -/
def leafFind (rev : Bool) : Nat → Node → List (Bytes × Bytes) → List Bytes → Option Found
  | 0, _, _, _ => none
  | fuel + 1, n, ps, ss =>
    match ownRoute n with
    | some h => some { handler := h, params := ps, splats := ss }
    | none => (order rev (optNames n)).findSome? fun nm => leafFind rev fuel (childOpt n nm) ps ss

def maxLen (n : Node) : Nat := n.foldl (fun m pr => max m pr.1.length) 0

/-- `findRoute`: fixed, then parameters, then optionals, then the splat, depth first with back-tracking -/
def findRoute (rev : Bool) : Node → List Bytes → List (Bytes × Bytes) → List Bytes → Option Found
  | n, [], ps, ss => leafFind rev (maxLen n + 1) n ps ss
  | n, seg :: rest, ps, ss =>
    match findRoute rev (childFixed n seg) rest ps ss with
    | some f => some f
    | none =>
      match (order rev (paramNames n)).findSome? (fun nm => findRoute rev (childParam n nm) rest (ps ++ [(nm, seg)]) ss) with
      | some f => some f
      | none =>
        match (order rev (optNames n)).findSome? (fun nm => findRoute rev (childOpt n nm) rest (ps ++ [(nm, seg)]) ss) with
        | some f => some f
        | none => findRoute rev (childSplat n) rest ps (ss ++ [seg])

/-- lookup of a raw request path in one method's table -/
def lookup (rev : Bool) (tbl : Node) (path : Bytes) : Option Found := findRoute rev tbl (splitSlash (sanitize path)) [] []

/-! ### the route table of one method as a list, add / remove -/

inductive AddErr | exists_ | seg (e : SegErr)
  deriving DecidableEq, Repr

/-- `addRoute`: "Requested route already exist." when the same tree leaf already has a route -/
def addRoute (tbl : Node) (path : Bytes) (h : Nat) : Except AddErr Node :=
  match patternOf (sanitize path) with
  | .error e => .error (.seg e)
  | .ok pat => if tbl.any (fun pr => pr.1 = pat) then .error .exists_ else .ok (tbl ++ [(pat, h)])

/-- `removeRoute` of an existing route -/
def removeRoute (tbl : Node) (path : Bytes) : Except AddErr Node :=
  match patternOf (sanitize path) with
  | .error e => .error (.seg e)
  | .ok pat => .ok (tbl.filter (fun pr => pr.1 ≠ pat))

end Pistache.Router
