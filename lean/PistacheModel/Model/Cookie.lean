/-
Model of src/common/cookie.cc (`Cookie::fromRaw`, `Cookie::write`, `CookieJar::add/addFromRaw`) and of
the two-level `CookieJar::iterator` of include/pistache/cookie.h, after the repairs recorded in
known_findings.json.  `Expires` values are dates (Hinnant date library): kept as opaque text, and
any cookie carrying one is outside the model (`unspec`).
-/
import PistacheModel.Model.Num

namespace Pistache.Cookie
open Pistache Pistache.Stream Pistache.Num

structure Cookie where
  name : Bytes
  value : Bytes
  path : Option Bytes := none
  domain : Option Bytes := none
  maxAge : Option Nat := none
  expires : Option Bytes := none          -- opaque date text
  secure : Bool := false
  httpOnly : Bool := false
  ext : List (Bytes × Bytes) := []        -- std::map: sorted by key, keys unique
  deriving DecidableEq, Repr

inductive CErr | runtime | invalidArg | unspec
  deriving DecidableEq, Repr

/-- lexicographic `<` on byte strings (`std::string::compare`) -/
def bytesLt : Bytes → Bytes → Bool
  | [], [] => false
  | [], _ :: _ => true
  | _ :: _, [] => false
  | a :: as, b :: bs => if a < b then true else if a > b then false else bytesLt as bs

/-- `std::map::insert`: keep-first, sorted -/
def mapInsert : List (Bytes × Bytes) → Bytes → Bytes → List (Bytes × Bytes)
  | [], k, v => [(k, v)]
  | (k', v') :: rest, k, v =>
    if k = k' then (k', v') :: rest
    else if bytesLt k k' then (k, v) :: (k', v') :: rest
    else (k', v') :: mapInsert rest k v

/-- `matchValue`: the cursor must be at '=' (or at end of input / a 0xFF byte, which the code cannot
    tell from Eof); skip it; the token runs to the next ';'. Returns (token, rest at ';' or end). -/
def matchValue (s : Bytes) : Except CErr (Bytes × Bytes) :=
  if current s ≠ 255 ∧ current s ≠ 61 then .error .runtime        -- "Invalid cookie"
  else match s with
    | [] => .error .runtime                                       -- "early eof"
    | _ :: r => .ok (splitUntil [59] r)

/-- digits-only conversion with `int` accumulation (overflow rejected after the repair) -/
def strntol (tok : Bytes) : Except CErr Nat :=
  if tok.all isDigit then
    (if digitsVal tok > 2147483647 then .error .invalidArg else .ok (digitsVal tok))
  else .error .invalidArg

def attrNames : List Bytes := [bytes "Path", bytes "Domain", bytes "Secure", bytes "HttpOnly", bytes "Max-Age", bytes "Expires"]

/-- one iteration of the attribute loop (after `skip_whitespaces`): returns the updated cookie and
    the unread rest -/
def attrStep (s : Bytes) (c : Cookie) : Except CErr (Cookie × Bytes) :=
  match matchStringCI (bytes "Path") s with
  | some r =>
    match matchValue r with
    | .error e => .error e
    | .ok (tok, r2) => .ok ({ c with path := some tok }, r2.drop 1)
  | none =>
  match matchStringCI (bytes "Domain") s with
  | some r =>
    match matchValue r with
    | .error e => .error e
    | .ok (tok, r2) => .ok ({ c with domain := some tok }, r2.drop 1)
  | none =>
  match matchStringCI (bytes "Secure") s with
  | some r => .ok ({ c with secure := true }, r.drop 1)
  | none =>
  match matchStringCI (bytes "HttpOnly") s with
  | some r => .ok ({ c with httpOnly := true }, r.drop 1)
  | none =>
  match matchStringCI (bytes "Max-Age") s with
  | some r =>
    match matchValue r with
    | .error e => .error e
    | .ok (tok, r2) =>
      match strntol tok with
      | .error e => .error e
      | .ok n => .ok ({ c with maxAge := some n }, r2.drop 1)
  | none =>
  match matchStringCI (bytes "Expires") s with
  | some r =>
    match matchValue r with
    | .error e => .error e
    | .ok (tok, r2) => .ok ({ c with expires := some tok }, r2.drop 1)
  | none =>
    -- extension attribute
    let name := (splitUntil [61] s).1
    let r := (splitUntil [61] s).2
    if r.isEmpty then .ok ({ c with ext := mapInsert c.ext name [] }, [])
    else match matchValue r with
      | .error e => .error e
      | .ok (tok, r2) => .ok ({ c with ext := mapInsert c.ext name tok }, r2.drop 1)

def attrLoop : Nat → Bytes → Cookie → Except CErr Cookie
  | 0, _, _ => .error .unspec
  | fuel + 1, s, c =>
    match attrStep (skipWs s) c with
    | .error e => .error e
    | .ok (c', r) => if r.isEmpty then .ok c' else attrLoop fuel r c'

/-- `Cookie::fromRaw` -/
def fromRaw (s : Bytes) : Except CErr Cookie :=
  let name := (splitUntil [61] s).1
  let r := (splitUntil [61] s).2
  if r.isEmpty then .error .runtime                 -- no '=': "missing value"
  else
    let value := (splitUntil [59] (r.drop 1)).1
    let r2 := (splitUntil [59] (r.drop 1)).2
    let c : Cookie := { name := name, value := value }
    if r2.isEmpty then .ok c
    else attrLoop (r2.length + 2) (r2.drop 1) c

/-! ### writer -/

def writeExt : List (Bytes × Bytes) → Bytes
  | [] => []
  | [(k, v)] => k ++ [61] ++ v
  | (k, v) :: rest => k ++ [61] ++ v ++ bytes "; " ++ writeExt rest

/-- `Cookie::write` (the Expires text is whatever the date writer produced: a parameter) -/
def write (c : Cookie) : Bytes :=
  c.name ++ [61] ++ c.value ++
  (match c.path with | some p => bytes "; Path=" ++ p | none => []) ++
  (match c.domain with | some d => bytes "; Domain=" ++ d | none => []) ++
  (match c.maxAge with | some n => bytes "; Max-Age=" ++ natToDec n | none => []) ++
  (match c.expires with | some e => bytes "; Expires=" ++ e | none => []) ++
  (if c.secure then bytes "; Secure" else []) ++
  (if c.httpOnly then bytes "; HttpOnly" else []) ++
  (if c.ext.isEmpty then [] else bytes "; " ++ writeExt c.ext)

/-! ### CookieJar: name ↦ (value ↦ cookie), keep-first on both levels -/

abbrev Jar := List (Bytes × List (Bytes × Cookie))

def jarAddInner : List (Bytes × Cookie) → Cookie → List (Bytes × Cookie)
  | [], c => [(c.value, c)]
  | (v, c') :: rest, c => if v = c.value then (v, c') :: rest else (v, c') :: jarAddInner rest c

def jarAdd : Jar → Cookie → Jar
  | [], c => [(c.name, [(c.value, c)])]
  | (n, inner) :: rest, c => if n = c.name then (n, jarAddInner inner c) :: rest else (n, inner) :: jarAdd rest c

/-- `CookieJar::addFromRaw` -/
def jarFromRaw : Nat → Bytes → Jar → Except CErr Jar
  | 0, _, _ => .error .unspec
  | _ + 1, [], j => .ok j
  | fuel + 1, c0 :: s0, j =>
    let s := c0 :: s0
    let name := (splitUntil [61] s).1
    let r := (splitUntil [61] s).2
    if r.isEmpty then .error .runtime
    else
      let value := (splitUntil [59] (r.drop 1)).1
      let r2 := (splitUntil [59] (r.drop 1)).2
      jarFromRaw fuel (skipWs (r2.drop 1)) (jarAdd j { name := name, value := value })

def addFromRaw (s : Bytes) (j : Jar) : Except CErr Jar := jarFromRaw (s.length + 1) s j

/-- every stored cookie, bucket by bucket -/
def jarCookies (j : Jar) : List Cookie := j.flatMap (fun b => b.2.map (·.2))

/-! ### the two-level iterator as a state machine over the buckets -/

/-- iterator state: (outer index, inner index); `end` is outer index = number of buckets -/
structure It where
  i : Nat
  k : Nat
  deriving DecidableEq, Repr

def itBegin : It := { i := 0, k := 0 }
/-- `operator++()` -/
def itNext (buckets : List (List Cookie)) (it : It) : It :=
  if it.k + 1 = (buckets.getD it.i []).length then { i := it.i + 1, k := 0 } else { it with k := it.k + 1 }
def itDeref (buckets : List (List Cookie)) (it : It) : Option Cookie := (buckets.getD it.i [])[it.k]?

/-- the loop `for (it = begin(); it != end(); ++it) visit(*it)` with explicit fuel -/
def itCollect (buckets : List (List Cookie)) : Nat → It → List (Option Cookie)
  | 0, _ => []
  | fuel + 1, it => if it.i = buckets.length then [] else itDeref buckets it :: itCollect buckets fuel (itNext buckets it)

end Pistache.Cookie
