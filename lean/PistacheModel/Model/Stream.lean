/-
Model of the cursor primitives of include/pistache/stream.h + src/common/stream.cc.
A cursor over a bounded buffer is modelled by the list of bytes that remain (`List Nat`); the
position is recoverable as (total - remaining) and a `StreamCursor::Revert` is "keep the old list".
Every function only ever sees the bytes of the slice: a read outside it is not expressible, which is
the model-side form of "never reads past the given length" (the implementation side is ASan on an
exact-size heap copy).
-/
import PistacheModel.Model.Basic

namespace Pistache.Stream

abbrev Bytes := List Nat

def CR : Nat := 13
def LF : Nat := 10

/-- `std::tolower` in the C locale on a byte -/
def lower (c : Nat) : Nat := if 65 ≤ c ∧ c ≤ 90 then c + 32 else c

/-- `StreamCursor::current()`: `static_cast<char>(sgetc())`, 0xFF at end of input -/
def current (s : Bytes) : Nat := s.headD 255

/-- `char` → `int` conversion of a byte (sign extension) -/
def signed (b : Nat) : Int := if b < 128 then (b : Int) else (b : Int) - 256

/-- `StreamCursor::next()` (after the `snext` bounds fix): the byte after the current one as a
    sign-extended int, `Eof = -1` when fewer than two bytes remain.  A real 0xFF byte is therefore
    indistinguishable from Eof. -/
def next (s : Bytes) : Int :=
  match s with
  | _ :: b :: _ => signed b
  | _ => -1

/-- `StreamCursor::eol()` : current is CR and next is LF -/
def eol (s : Bytes) : Bool :=
  match s with
  | 13 :: 10 :: _ => true
  | _ => false

/-- `match_raw(buf,len,cursor)`: exact prefix -/
def matchRaw (pat : Bytes) (s : Bytes) : Option Bytes :=
  if pat.isPrefixOf s then some (s.drop pat.length) else none

/-- `match_string(str,len,cursor,Insensitive)`: case-insensitive PREFIX match -/
def matchStringCI (pat : Bytes) (s : Bytes) : Option Bytes :=
  if s.length < pat.length then none
  else if (s.take pat.length).map lower = pat.map lower then some (s.drop pat.length) else none

/-- `match_literal(c,cursor)` with the default (insensitive) comparison -/
def matchLiteral (c : Nat) (s : Bytes) : Option Bytes :=
  match s with
  | [] => none
  | x :: rest => if lower c = lower x then some rest else none

/-- `match_until(chars,cursor)` with the default case mode: the needle is lower-cased, the haystack
    is not.  Returns (found, bytes skipped, remaining input starting at the found byte). -/
def splitUntil (chars : List Nat) : Bytes → Bytes × Bytes
  | [] => ([], [])
  | c :: rest =>
    if (chars.map lower).contains c then ([], c :: rest)
    else let (a, b) := splitUntil chars rest; (c :: a, b)

/-- `skip_whitespaces` : SP and HT only -/
def skipWs : Bytes → Bytes
  | [] => []
  | c :: rest => if c = 32 ∨ c = 9 then skipWs rest else c :: rest

theorem splitUntil_append (chars : List Nat) (s : Bytes) :
    (splitUntil chars s).1 ++ (splitUntil chars s).2 = s := by
  induction s with
  | nil => rfl
  | cons c rest ih =>
    simp only [splitUntil]
    split
    · rfl
    · simp only [List.cons_append, ih]

end Pistache.Stream
