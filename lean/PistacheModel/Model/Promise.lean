/-
Model of include/pistache/async.h (single-threaded semantics): `Promise<T>::then`, `Resolver`,
`Rejection`, the continuation specialisations (value-, void- and promise-returning callbacks; ignore /
rethrow / custom rejection handlers), `whenAll`, `whenAny` — after the repair recorded in
known_findings.json (late outcomes of combinator inputs are ignored).

The recursive settlement cascade of the C++ (walk the request list, each request may settle the
derived promise and walk ITS list, ...) is a small-step machine with an explicit stack of pending
actions: LIFO order reproduces the depth-first order of the recursion, and invariants are proved by
induction over machine steps.
-/
import PistacheModel.Model.Basic

namespace Pistache.Promise

inductive St
  | pending
  | fulfilled (v : Int)
  | rejected (e : Nat)
  deriving DecidableEq, Repr

/-- the value of a fulfilled core (what `core->value()` hands to a continuation); 0 when there is none -/
def St.val : St → Int
  | .fulfilled v => v
  | _ => 0
/-- the exception of a rejected core (`core->exc`); 0 (the null exception pointer) when there is none -/
def St.exc : St → Nat
  | .rejected e => e
  | _ => 0

/-- what a fulfilment callback returns -/
inductive Ret
  | value (k : Int)       -- a value: its argument plus k   (derived promise is fulfilled with it)
  | void                  -- nothing                           (derived promise stays pending: as the code is)
  | promise (p : Nat)     -- the promise with core `p`         (derived promise follows it)
  deriving DecidableEq, Repr

/-- rejection handler given to `then` -/
inductive Rej
  | ignore               -- Async::IgnoreException
  | rethrow              -- Async::Throw: forwards the exception to the derived promise
  | custom (cb : Nat)    -- a user handler that logs and returns normally
  deriving DecidableEq, Repr

inductive ReqKind
  | user (cb : Nat) (ret : Ret) (rej : Rej)   -- a continuation attached by the program
  | chainer                                   -- internal: attached by a promise-returning continuation to the promise it got
  | allInput (data : Nat) (idx : Nat)         -- internal: whenAll input
  | anyInput (data : Nat)                     -- internal: whenAny input
  deriving DecidableEq, Repr

structure Req where
  kind : ReqKind
  chain : Nat                 -- derived core
  rc : Nat := 0               -- resolveCount_
  jc : Nat := 0               -- rejectCount_
  deriving DecidableEq, Repr

structure Core where
  st : St := .pending
  reqs : List Req := []
  deriving DecidableEq, Repr

/-- data block of a combinator -/
structure Data where
  target : Nat                -- core of the combined promise
  total : Nat
  resolved : Nat := 0
  rejected : Bool := false    -- whenAll: rejected; whenAny: done
  results : List (Nat × Int) := []   -- whenAll: (index, value)
  inputs : List Nat := []            -- ghost (never read by `step`): the argument promises, in argument order
  anyKind : Bool := false            -- ghost (never read by `step`): created by whenAny
  deriving DecidableEq, Repr

inductive Ev
  | call (cb : Nat) (arg : Int)        -- a fulfilment callback ran with this value
  | callRej (cb : Nat) (e : Nat)       -- a custom rejection handler ran with this exception
  | internalThrow (core : Nat)         -- an internal Resolver/Rejection hit a settled core (Async::Error inside a walk)
  deriving DecidableEq, Repr

/-- pending work: the frames of the C++ recursion -/
inductive Act
  | resolveReq (core : Nat) (i : Nat)     -- `reqs[i]->resolve(core)`
  | rejectReq (core : Nat) (i : Nat)      -- `reqs[i]->reject(core)`
  | attach (core : Nat) (r : Req)         -- the tail of `then`: push the request on the list
  deriving DecidableEq, Repr

structure M where
  cores : List Core := []
  datas : List Data := []
  log : List Ev := []
  stack : List Act := []
  aborted : Bool := false     -- an exception is propagating: the walks in progress are abandoned
  deriving DecidableEq, Repr

def M.core (m : M) (c : Nat) : Core := m.cores.getD c {}
def M.setCore (m : M) (c : Nat) (x : Core) : M := { m with cores := m.cores.set c x }
def M.newCore (m : M) (x : Core := {}) : M × Nat := ({ m with cores := m.cores ++ [x] }, m.cores.length)
def M.data (m : M) (d : Nat) : Data := m.datas.getD d { target := 0, total := 0 }
def M.setData (m : M) (d : Nat) (x : Data) : M := { m with datas := m.datas.set d x }

def setReq (c : Core) (i : Nat) (r : Req) : Core := { c with reqs := c.reqs.set i r }

/-- actions that walk the whole request list of `core` with `mk`, in list order -/
def walk (mk : Nat → Nat → Act) (core : Nat) (n : Nat) : List Act := (List.range n).map (mk core)

/-- settle `c` as fulfilled and schedule the walk of its requests (the body of `finishResolve` / `Chainer`) -/
def fulfilAndWalk (m : M) (c : Nat) (v : Int) : M :=
  let k := m.core c
  let m1 := m.setCore c { k with st := .fulfilled v }
  { m1 with stack := walk Act.resolveReq c k.reqs.length ++ m1.stack }

def rejectAndWalk (m : M) (c : Nat) (e : Nat) : M :=
  let k := m.core c
  let m1 := m.setCore c { k with st := .rejected e }
  { m1 with stack := walk Act.rejectReq c k.reqs.length ++ m1.stack }

/-- `Promise::then` on core `p` with request `r`: run it at once if `p` is settled, then remember it -/
def thenOn (m : M) (p : Nat) (r : Req) : M :=
  let idx := (m.core p).reqs.length
  -- the request is appended first so that it has an index; the C++ runs it before pushing, which is
  -- unobservable because a request never inspects the list it is in
  let k := m.core p
  let m1 := m.setCore p { k with reqs := k.reqs ++ [r] }
  match k.st with
  | .pending => m1
  | .fulfilled _ => { m1 with stack := Act.resolveReq p idx :: m1.stack }
  | .rejected _ => { m1 with stack := Act.rejectReq p idx :: m1.stack }

/-- an internal `Resolver` call on the target of a combinator -/
def resolverOn (m : M) (c : Nat) (v : Int) : M :=
  match (m.core c).st with
  | .pending => fulfilAndWalk m c v
  | _ => { m with log := m.log ++ [.internalThrow c], aborted := true, stack := [] }

def rejectionOn (m : M) (c : Nat) (e : Nat) : M :=
  match (m.core c).st with
  | .pending => rejectAndWalk m c e
  | _ => { m with log := m.log ++ [.internalThrow c], aborted := true, stack := [] }

/-- one machine step: pop an action and perform it -/
def step (m : M) : M :=
  match m.stack with
  | [] => m
  | a :: rest =>
    let m := { m with stack := rest }
    match a with
    | .attach p r => thenOn m p r
    | .resolveReq c i =>
      let k := m.core c
      match k.reqs[i]? with
      | none => m
      | some r =>
        if r.rc ≥ 1 then m                                  -- Continuable::resolve guard
        else
          let m := m.setCore c (setReq k i { r with rc := r.rc + 1 })
          let arg : Int := k.st.val
          match r.kind with
          | .user cb ret _ =>
            let m := { m with log := m.log ++ [.call cb arg] }
            match ret with
            | .value d => fulfilAndWalk m r.chain (arg + d)
            | .void => m
            | .promise q => thenOn m q { kind := .chainer, chain := r.chain }
          | .chainer => fulfilAndWalk m r.chain arg
          | .allInput d idx =>
            let dd := m.data d
            if dd.rejected then m
            else
              let dd' := { dd with results := dd.results ++ [(idx, arg)], resolved := dd.resolved + 1 }
              let m := m.setData d dd'
              if dd'.resolved = dd'.total then resolverOn m dd'.target (dd'.results.foldl (fun s p => s + p.2 * (100 : Int) ^ p.1) 0) else m
          | .anyInput d =>
            let dd := m.data d
            if dd.rejected then m
            else resolverOn (m.setData d { dd with rejected := true }) dd.target arg
    | .rejectReq c i =>
      let k := m.core c
      match k.reqs[i]? with
      | none => m
      | some r =>
        if r.jc ≥ 1 then m                                  -- Continuable::reject guard
        else
          let m := m.setCore c (setReq k i { r with jc := r.jc + 1 })
          let e : Nat := k.st.exc
          match r.kind with
          | .user _ ret rej =>
            match rej with
            | .rethrow => rejectAndWalk m r.chain e         -- InternalRethrow caught in Continuable::reject
            | .ignore =>
              match ret with
              | .value _ => { m with stack := walk Act.rejectReq r.chain (m.core r.chain).reqs.length ++ m.stack }
              | .void => m
              | .promise _ => { m with stack := walk Act.rejectReq c k.reqs.length ++ m.stack }
            | .custom cb =>
              let m := { m with log := m.log ++ [.callRej cb e] }
              match ret with
              | .value _ => { m with stack := walk Act.rejectReq r.chain (m.core r.chain).reqs.length ++ m.stack }
              | .void => m
              | .promise _ => { m with stack := walk Act.rejectReq c k.reqs.length ++ m.stack }
          | .chainer => rejectAndWalk m r.chain e
          | .allInput d _ =>
            let dd := m.data d
            if dd.rejected then m
            else rejectionOn (m.setData d { dd with rejected := true }) dd.target e
          | .anyInput d =>
            let dd := m.data d
            if dd.rejected then m
            else rejectionOn (m.setData d { dd with rejected := true }) dd.target e

/-- run until the stack is empty (fuel bounds the number of steps) -/
def run : Nat → M → M
  | 0, m => m
  | f + 1, m => if m.stack.isEmpty then m else run f (step m)

/-! ### the program level -/

inductive Op
  | new                                   -- a pending promise whose resolver/rejection the program keeps
  | newResolved (v : Int)
  | newRejected (e : Nat)
  | then_ (p : Nat) (cb : Nat) (ret : Ret) (rej : Rej)   -- attaches; creates the derived promise
  | resolve (p : Nat) (v : Int)
  | reject (p : Nat) (e : Nat)
  | whenAll (ps : List Nat)
  | whenAny (ps : List Nat)
  deriving DecidableEq, Repr

inductive OpOut
  | ok
  | created (core : Nat)
  | thrown                 -- Async::Error surfaced in the code that called resolve/reject/then
  deriving DecidableEq, Repr

/-- enough steps for any cascade: every request's two counters are spent at most once each, and each such step
    schedules at most one walk over one request list (quadratic in the number of requests and pending actions;
    chainers created on the way are bounded by the user requests) -/
def fuelFor (m : M) : Nat :=
  let r := m.cores.foldl (fun s c => s + 2 * c.reqs.length + 1) 0 + 2 * m.stack.length + 4
  4 * r * r

/-- finish the cascade started by an operation; an exception that escaped an internal walk surfaces here -/
def settleDown (m : M) : M × Bool :=
  let m' := run (fuelFor m) m
  ({ m' with aborted := false, stack := [] }, m'.aborted)

def exec (m : M) : Op → M × OpOut
  | .new => let (m', c) := m.newCore; (m', .created c)
  | .newResolved v => let (m', c) := m.newCore { st := .fulfilled v }; (m', .created c)
  | .newRejected e => let (m', c) := m.newCore { st := .rejected e }; (m', .created c)
  | .then_ p cb ret rej =>
    let (m1, d) := m.newCore
    let (m2, thrown) := settleDown (thenOn m1 p { kind := .user cb ret rej, chain := d })
    (m2, if thrown then .thrown else .created d)
  | .resolve p v =>
    match (m.core p).st with
    | .pending => let (m2, thrown) := settleDown (fulfilAndWalk m p v); (m2, if thrown then .thrown else .ok)
    | _ => (m, .thrown)                       -- "Attempt to resolve a fulfilled promise"
  | .reject p e =>
    match (m.core p).st with
    | .pending => let (m2, thrown) := settleDown (rejectAndWalk m p e); (m2, if thrown then .thrown else .ok)
    | _ => (m, .thrown)
  | .whenAll ps =>
    let (m1, w) := m.newCore
    let d := m1.datas.length
    let m2 : M := { m1 with datas := m1.datas ++ [({ target := w, total := ps.length, inputs := ps, anyKind := false } : Data)] }
    let m3 := { m2 with stack := (ps.zipIdx.map fun (pi : Nat × Nat) => Act.attach pi.1 ({ kind := .allInput d pi.2, chain := 0 } : Req)) ++ m2.stack }
    let (m4, thrown) := settleDown m3
    (m4, if thrown then .thrown else .created w)
  | .whenAny ps =>
    let (m1, w) := m.newCore
    let d := m1.datas.length
    let m2 : M := { m1 with datas := m1.datas ++ [({ target := w, total := ps.length, inputs := ps, anyKind := true } : Data)] }
    let m3 := { m2 with stack := (ps.map fun (p : Nat) => Act.attach p ({ kind := .anyInput d, chain := 0 } : Req)) ++ m2.stack }
    let (m4, thrown) := settleDown m3
    (m4, if thrown then .thrown else .created w)

def execAll (m : M) : List Op → M × List OpOut
  | [] => (m, [])
  | op :: rest =>
    let (m1, o) := exec m op
    let (m2, os) := execAll m1 rest
    (m2, o :: os)

end Pistache.Promise
