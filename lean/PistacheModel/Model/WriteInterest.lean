/-
Model of the WRITE-INTEREST protocol of one connection (src/common/transport.cc): who asks epoll for writability, when,
and why a connection with pending data can never be forgotten (C07: "once the stalled socket accepts data again, everything
pending for it is delivered"; anchors: "write interest", "on would-block: arm write interest and leave the drain loop",
"edge-triggered re-arm delivers a writable event when the socket drains").

  handleWriteQueue   moves a write to the connection's queue, sets the interest to Read|Write (EPOLL_CTL_MOD, edge-triggered)
                     and, when issued on the loop thread (flush), drains at once
  onReady/isWritable sets the interest back to Read and drains
  asyncWriteImpl     the drain: offers the front entry; a short write continues; EAGAIN sets the interest to Read|Write and
                     leaves; an entry that completes is popped and, if the queue is then empty, the interest goes back to Read

The socket is modelled by `space`, the number of bytes it accepts before it answers would-block; the peer reading makes
room.  Kernel behaviour assumed (sampled by the `stall`/`wr` correspondences and by reading the real interest mask from
/proc/self/fdinfo of the worker's epoll descriptor): EPOLL_CTL_MOD with EPOLLOUT on a socket that is writable queues an event
at once; with EPOLLET a socket that becomes writable while EPOLLOUT is in its mask queues one event; an event whose bit is no
longer in the mask is not delivered.

`rearmAlways = true` is the code as it is.  `false` re-arms on would-block only when the entry has no resume offset yet
(a seeded change, kept to show what the invariant is needed for).
-/
import PistacheModel.Model.WriteQueue

namespace Pistache.WriteInterest
open Pistache Pistache.Stream Pistache.WriteQueue

structure Conn where
  w : WState := {}
  space : Nat := 0            -- bytes the socket accepts before it answers would-block
  armed : Bool := false       -- the epoll interest of the descriptor includes Write
  edge : Bool := false        -- a writable event for the descriptor waits in the ready list
  attempts : Nat := 0         -- send/sendfile calls made
  assertion : Bool := false   -- onReady threw "Assertion Error: could not find write data"
  deriving DecidableEq, Repr

structure Cfg where
  rearmAlways : Bool := true

inductive Ev
  | enqueue (id : Nat) (data : Bytes) (flush : Bool)
  | writable                      -- epoll delivers the waiting writable event
  | room (n : Nat)                -- the peer reads n bytes
  deriving DecidableEq, Repr

/-- EPOLL_CTL_MOD to Read|Write: readiness is evaluated at once -/
def arm (c : Conn) : Conn := { c with armed := true, edge := c.edge || decide (0 < c.space) }
/-- EPOLL_CTL_MOD to Read: a waiting writable event is masked out -/
def disarm (c : Conn) : Conn := { c with armed := false, edge := false }

def frontOff (c : Conn) : Nat := match c.w.queue with | [] => 0 | e :: _ => e.off
def frontLeft (c : Conn) : Nat := match c.w.queue with | [] => 0 | e :: _ => e.data.length - e.off

/-- one send/sendfile call that the socket accepts (all of what is offered, or as much as there is room for) -/
def sendOk (c : Conn) : Conn :=
  { c with w := step c.w (.sock (.cap c.space)), space := c.space - min (frontLeft c) c.space, attempts := c.attempts + 1 }
/-- one send/sendfile call answered EAGAIN -/
def sendBlock (c : Conn) : Conn := { c with w := step c.w (.sock .block), attempts := c.attempts + 1 }

/-- asyncWriteImpl -/
def drain (cfg : Cfg) : Nat → Conn → Conn
  | 0, c => c
  | fuel + 1, c =>
    if c.w.queue.isEmpty then c
    else if c.space = 0 then
      -- EAGAIN: the entry goes back to the front with its offset, write interest is requested, the loop is left
      (if cfg.rearmAlways || frontOff c == 0 then arm (sendBlock c) else sendBlock c)
    else if (sendOk c).w.queue.isEmpty then disarm (sendOk c)      -- cleanUp(): the last entry is out
    else drain cfg fuel (sendOk c)

def drainConn (cfg : Cfg) (c : Conn) : Conn := drain cfg (2 * c.w.queue.length + 1) c

def handle (cfg : Cfg) (c : Conn) : Ev → Conn
  | .enqueue id data flush =>
    if flush then drainConn cfg (arm { c with w := step c.w (.enq id data) }) else arm { c with w := step c.w (.enq id data) }
  | .writable =>
    if c.edge then
      if c.w.queue.isEmpty then { c with edge := false, assertion := true }
      else drainConn cfg (disarm c)
    else c
  | .room n =>
    { c with space := c.space + n, edge := c.edge || (c.armed && decide (c.space = 0) && decide (0 < n)) }

def run (cfg : Cfg) (evs : List Ev) (c : Conn) : Conn := evs.foldl (handle cfg) c

/-- bytes still to be sent -/
def pendingBytes (c : Conn) : Nat := (pending c.w.queue).length

end Pistache.WriteInterest
