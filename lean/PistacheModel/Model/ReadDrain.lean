/-
Model of the read side of one connection (src/common/transport.cc, `Transport::handleIncoming`, with the connection registered
edge-triggered for Read): the kernel keeps the bytes that have arrived and not been read (`rx`); the arrival of bytes raises a
readable event; handling it reads `Const::MaxBuffer` bytes at a time and hands every read to the handler, UNTIL recv answers
EAGAIN (nothing left) — an edge-triggered descriptor raises no further event for bytes that were already there.

`reads = none` is the code as it is (read until EAGAIN); `reads = some k` stops after k reads per event (a seeded "fairness"
bound, kept to show what the loop's exit condition is needed for).
-/
import PistacheModel.Model.Basic
import PistacheModel.Model.Stream
import PistacheModel.Generated.Tables

namespace Pistache.ReadDrain
open Pistache Pistache.Stream

structure RConn where
  rx : Bytes := []              -- arrived, not yet read
  edge : Bool := false          -- a readable event waits in the ready list
  delivered : List Bytes := []  -- what onInput was given, one entry per call, in order
  deriving DecidableEq, Repr

inductive Ev
  | arrive (bs : Bytes)         -- the peer's bytes reach the socket
  | readable                    -- epoll delivers the waiting event
  deriving DecidableEq, Repr

/-- the recv loop: `buf` = Const::MaxBuffer; `limit` = reads still allowed by a bound (none = unbounded) -/
def readLoop (buf : Nat) : Nat → Option Nat → RConn → RConn
  | 0, _, c => c
  | fuel + 1, limit, c =>
    if c.rx.isEmpty then c                                   -- EAGAIN: leave
    else if limit = some 0 then c                            -- the bound is used up: leave with bytes unread
    else readLoop buf fuel (limit.map (· - 1)) { c with rx := c.rx.drop buf, delivered := c.delivered ++ [c.rx.take buf] }

def handle (buf : Nat) (reads : Option Nat) (c : RConn) : Ev → RConn
  | .arrive bs => if bs.isEmpty then c else { c with rx := c.rx ++ bs, edge := true }
  | .readable => if c.edge then readLoop buf (c.rx.length + 1) reads { c with edge := false } else c

def run (buf : Nat) (reads : Option Nat) (evs : List Ev) : RConn := evs.foldl (handle buf reads) {}

/-- everything that has arrived -/
def arrived : List Ev → Bytes
  | [] => []
  | .arrive bs :: r => bs ++ arrived r
  | .readable :: r => arrived r

end Pistache.ReadDrain
