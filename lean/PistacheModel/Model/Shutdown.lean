/-
Model of the shutdown protocol of a threaded Tcp::Listener (C09, second sentence of the property):

  src/server/listener.cc   Listener::run (acceptor loop), Listener::shutdown
  src/common/reactor.cc    SyncImpl::run / runOnce (worker loop), SyncImpl::shutdown, AsyncImpl::shutdown (all workers in turn)
  src/common/os.cc         NotifyFd (an eventfd registered EDGE-triggered, never read), Epoll::poll

Threads: one acceptor, `n` workers, the thread that calls shutdown(), and the environment (clients connecting).
Granularity = the system-call boundary, which is where the correspondence harness (harness/drv_sd.cc) can park
the real threads: a thread is parked at the entry of `epoll_wait` (`poll`), after `epoll_wait` has collected its events
and before it returns them to the loop (`woke`), and the caller of shutdown() before and after every `eventfd_write`.

What the kernel is assumed to do (sampled by the correspondence on every run, not proved):
  * an eventfd registered with EPOLLET is reported once per write, by the next epoll_wait, even if the write happened
    while the thread was outside epoll_wait;
  * the listening socket is registered level-triggered: it is reported as long as a connection waits in the backlog;
  * epoll_wait reports ready descriptors in the order in which they became ready, and puts a level-triggered
    descriptor it reports back at the tail of the ready list (`Acceptor.ready`).

`storeFirst = true` is the code as it is (`shutdown_.store(true); shutdownFd.notify();`); `false` is the same two
statements in the other order, kept to show what the order is needed for (Props/C09Shutdown.lean, notify_first_can_hang).
-/
import PistacheModel.Model.Basic

namespace Pistache.Shutdown

inductive Pc | poll | woke | exited
  deriving DecidableEq, Repr

structure Worker where
  pc : Pc := .poll
  flag : Bool := false        -- SyncImpl::shutdown_
  edge : Bool := false        -- the edge of SyncImpl::shutdownFd is in this worker's epoll ready list
  other : Bool := false       -- another source (the peers queue) is ready
  deriving DecidableEq, Repr

inductive Src | listen | shut
  deriving DecidableEq, Repr

structure Acceptor where
  pc : Pc := .poll
  ready : List Src := []      -- ready list of the listener's poller, oldest first
  backlog : List Nat := []    -- connections waiting to be accepted (each with the worker it will be dispatched to)
  batch : List Src := []      -- what the last epoll_wait handed out
  deriving DecidableEq, Repr

/-- where the thread inside Listener::shutdown() is: `accPre`/`accPost` = before/after the eventfd_write that wakes the
    acceptor, `wPre j`/`wPost j` = before/after the eventfd_write that wakes worker `j` -/
inductive CPc | start | accPre | accPost | wPre (j : Nat) | wPost (j : Nat) | done
  deriving DecidableEq, Repr

structure St where
  n : Nat
  acc : Acceptor := {}
  ws : Nat → Worker := fun _ => {}
  caller : CPc := .start

structure Cfg where
  storeFirst : Bool := true

inductive Actor | acc | accF | w (j : Nat) | caller | conn (j : Nat)
  deriving DecidableEq, Repr

def init (n : Nat) : St := { n := n }

def St.setW (s : St) (j : Nat) (w : Worker) : St := { s with ws := fun k => if k = j then w else s.ws k }

def setFlag (s : St) (j : Nat) : St := s.setW j { s.ws j with flag := true }
def setEdge (s : St) (j : Nat) : St := s.setW j { s.ws j with edge := true }

/-- SyncImpl::run/runOnce from one parking point to the next -/
def stepW (s : St) (j : Nat) : St × String :=
  match (s.ws j).pc with
  | .poll =>
    if (s.ws j).edge || (s.ws j).other then (s.setW j { s.ws j with pc := .woke, edge := false, other := false }, "w")
    else (s, "b")
  | .woke =>
    if (s.ws j).flag then (s.setW j { s.ws j with pc := .exited }, "x")   -- `if (shutdown_) return;` then `while (!shutdown_)`
    -- handleFds drains the peers queue (also what was pushed while the thread held its events), back to epoll_wait
    else (s.setW j { s.ws j with pc := .poll, other := false }, "p")
  | .exited => (s, "-")

/-- Listener::handleNewConnection + dispatchPeer: the oldest waiting connection goes to its worker's peers queue -/
def accept (s : St) : St :=
  match s.acc.backlog with
  | [] => s
  | j :: rest => { s with acc := { s.acc with backlog := rest } }.setW j { s.ws j with other := true }

/-- the `for (const auto& event : events)` loop of Listener::run; `true` = it returned on the shutdown tag.
    `fail`: accept4 fails (EMFILE, ...): the SocketError is caught and logged INSIDE the loop, the connection stays in the
    backlog and the remaining events of the batch are still looked at -/
def handleBatch (fail : Bool) (s : St) : List Src → St × Bool
  | [] => (s, false)
  | .shut :: _ => (s, true)
  | .listen :: rest => handleBatch fail (if fail then s else accept s) rest

def report (a : Acceptor) : List Src := a.ready.filter fun e => e == .shut || !a.backlog.isEmpty

def stepA (fail : Bool) (s : St) : St × String :=
  match s.acc.pc with
  | .poll =>
    if (report s.acc).isEmpty then ({ s with acc := { s.acc with ready := [] } }, "b")
    else ({ s with acc := { s.acc with pc := .woke, batch := report s.acc,
                                       ready := if (report s.acc).contains .listen then [.listen] else [] } }, "w")
  | .woke =>
    if (handleBatch fail s s.acc.batch).2 then
      ({ (handleBatch fail s s.acc.batch).1 with acc := { (handleBatch fail s s.acc.batch).1.acc with pc := .exited, batch := [] } }, "x")
    else
      ({ (handleBatch fail s s.acc.batch).1 with acc := { (handleBatch fail s s.acc.batch).1.acc with pc := .poll, batch := [] } }, "p")
  | .exited => (s, "-")

def notifyAcc (s : St) : St :=
  { s with acc := { s.acc with ready := if s.acc.ready.contains .shut then s.acc.ready else s.acc.ready ++ [.shut] } }

/-- Listener::shutdown -> Reactor::shutdown -> AsyncImpl::shutdown -> SyncImpl::shutdown for each worker -/
def stepS (cfg : Cfg) (s : St) : St × String :=
  match s.caller with
  | .start => ({ s with caller := .accPre }, "n")
  | .accPre => ({ notifyAcc s with caller := .accPost }, "m")
  | .accPost => (if cfg.storeFirst then { setFlag s 0 with caller := .wPre 0 } else { s with caller := .wPre 0 }, "n")
  | .wPre j => ({ setEdge s j with caller := .wPost j }, "m")
  | .wPost j =>
    if j + 1 < s.n then
      (if cfg.storeFirst then { setFlag s (j + 1) with caller := .wPre (j + 1) }
       else { setFlag s j with caller := .wPre (j + 1) }, "n")
    else (if cfg.storeFirst then { s with caller := .done } else { setFlag s j with caller := .done }, "d")
  | .done => (s, "-")

def connect (s : St) (j : Nat) : St :=
  { s with acc := { s.acc with backlog := s.acc.backlog ++ [j],
                               ready := if s.acc.ready.contains .listen then s.acc.ready else s.acc.ready ++ [.listen] } }

def stepL (cfg : Cfg) (s : St) : Actor → St × String
  | .acc => stepA false s
  | .accF => stepA true s      -- an acceptor step during which accept4 fails
  | .w j => stepW s j
  | .caller => stepS cfg s
  | .conn j => (connect s j, "c")

def step (cfg : Cfg) (s : St) (a : Actor) : St := (stepL cfg s a).1

def run (cfg : Cfg) (sched : List Actor) (s : St) : St := sched.foldl (step cfg) s

end Pistache.Shutdown
