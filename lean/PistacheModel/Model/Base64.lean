/-
Hand model of `Base64Encoder::Encode`, `Base64Decoder::CalculateDecodedSize` and
`Base64Decoder::Decode` (src/common/base64.cc).  The three leaf functions `EncodeByte`,
`DecodeCharacter`, `CalculateEncodedSize` are NOT written here: they are regenerated from the C++
source on every run (Generated/Base64Leaf.lean).

Bytes are `Nat` (< 256 by construction in the driver; an explicit hypothesis in the theorems).
The C++ shifts and masks are written with the same bit operators; `static_cast<byte>` is `% 256`.
`std::string::at` / `vector::at` throw `std::out_of_range`: outcome `.error "range"`.
-/
import PistacheModel.Generated.Base64Leaf
import PistacheModel.Model.Basic

namespace Pistache.Base64
open Pistache.Gen Pistache

/-- the four sextets of a complete octet triplet, exactly the expressions in `Encode`'s loop -/
def enc3 (a b c : Nat) : List Nat :=
  [ encodeByte ((a >>> 2) % 256),
    encodeByte ((((a &&& 0x03) <<< 4) ||| (b >>> 4)) % 256),
    encodeByte ((((b &&& 0x0F) <<< 2) ||| (c >>> 6)) % 256),
    encodeByte (c &&& 0x3F) ]

/-- `Encode`: complete triplets, then `switch (size % 3)` -/
def encode : List Nat → List Nat
  | a :: b :: c :: rest => enc3 a b c ++ encode rest
  | [a] => [ encodeByte ((a >>> 2) % 256), encodeByte ((a &&& 0x03) <<< 4), 61, 61 ]
  | [a, b] => [ encodeByte ((a >>> 2) % 256),
                encodeByte ((((a &&& 0x03) <<< 4) ||| (b >>> 4)) % 256),
                encodeByte ((b &&& 0x0F) <<< 2), 61 ]
  | [] => []

/-- the `while (DecodeCharacter(*it) < 64) ++it` scan.  At the end of the string the code reads the
    `std::string` terminator (a NUL, which is not in the alphabet), so the scan stops there. -/
def scan : List Nat → Nat
  | [] => 0
  | c :: rest => if decodeChar c < 64 then scan rest + 1 else 0

inductive Err | tooShort | notMult4 | range
  deriving DecidableEq, Repr

/-- the `switch (InputSize % 4)` at the end of `CalculateDecodedSize` -/
def sizeOfScan (n : Nat) : Nat :=
  match n % 4 with
  | 2 => n / 4 * 3 + 1
  | 3 => n / 4 * 3 + 2
  | _ => n / 4 * 3

/-- `CalculateDecodedSize` -/
def decodedSize (s : List Nat) : Except Err Nat :=
  if s.isEmpty then .ok 0
  else if s.length < 4 then .error .tooShort
  else if s.length % 4 ≠ 0 then .error .notMult4
  else .ok (sizeOfScan (scan s))

def dec0 (c0 c1 : Nat) : Nat := ((decodeChar c0 <<< 2) ||| (decodeChar c1 >>> 4)) % 256
def dec1 (c1 c2 : Nat) : Nat := ((decodeChar c1 <<< 4) ||| (decodeChar c2 >>> 2)) % 256
def dec2 (c2 c3 : Nat) : Nat := ((decodeChar c2 <<< 6) ||| decodeChar c3) % 256

/-- the `for (Index = 2; Index < DecodedSize; Index += 3)` loop runs `DecodedSize / 3` times, each
    reading four characters through `.at()`; returns the octets and the unread rest -/
def decodeQuads : Nat → List Nat → Except Err (List Nat × List Nat)
  | 0, s => .ok ([], s)
  | k + 1, c0 :: c1 :: c2 :: c3 :: rest =>
    match decodeQuads k rest with
    | .ok (o, r) => .ok (dec0 c0 c1 :: dec1 c1 c2 :: dec2 c2 c3 :: o, r)
    | .error e => .error e
  | _ + 1, _ => .error .range

/-- the part of `Decode` after the size computation: the triplet loop and `switch (DecodedSize % 3)` -/
def decodeBody (d : Nat) (s : List Nat) : Except Err (List Nat) :=
  match decodeQuads (d / 3) s with
  | .error e => .error e
  | .ok (o, r) =>
    match d % 3, r with
    | 1, c0 :: c1 :: _ => .ok (o ++ [dec0 c0 c1])
    | 1, _ => .error .range
    | 2, c0 :: c1 :: c2 :: _ => .ok (o ++ [dec0 c0 c1, dec1 c1 c2])
    | 2, _ => .error .range
    | _, _ => .ok o

/-- `Decode` -/
def decode (s : List Nat) : Except Err (List Nat) :=
  match decodedSize s with
  | .error e => .error e
  | .ok d => decodeBody d s

/-! ### Independent specification, written from RFC 4648 §4 (not from the code) -/

def alphabet : List Nat :=
  "ABCDEFGHIJKLMNOPQRSTUVWXYZabcdefghijklmnopqrstuvwxyz0123456789+/".toList.map Char.toNat

def digit (i : Nat) : Nat := alphabet.getD i 0

def rfc4648 : List Nat → List Nat
  | a :: b :: c :: rest =>
    let n := a * 65536 + b * 256 + c           -- the 24-bit group
    [digit (n / 262144), digit (n / 4096 % 64), digit (n / 64 % 64), digit (n % 64)] ++ rfc4648 rest
  | [a] =>
    let n := a * 16                             -- 8 bits padded with zero bits to 12
    [digit (n / 64), digit (n % 64), 61, 61]
  | [a, b] =>
    let n := (a * 256 + b) * 4                  -- 16 bits padded with zero bits to 18
    [digit (n / 4096), digit (n / 64 % 64), digit (n % 64), 61]
  | [] => []

/-! ### Basic credentials (`Authorization::setBasicUserPassword/getBasicUser/getBasicPassword`) -/

def basicPrefix : List Nat := "Basic ".toList.map Char.toNat

/-- value stored by `setBasicUserPassword` -/
def setBasic (user pw : List Nat) : List Nat := basicPrefix ++ encode (user ++ [58] ++ pw)

/-- `std::string::find(':')` -/
def findColon : List Nat → Option Nat
  | [] => none
  | c :: rest => if c = 58 then some 0 else (findColon rest).map (· + 1)

inductive BasicErr | notBasic | b64 (e : Err)
  deriving DecidableEq, Repr

/-- `hasMethod<Basic>`: value starts with "Basic " (`rfind("Basic ",0)==0`)... then decode the rest -/
def basicDecoded (value : List Nat) : Except BasicErr (List Nat) :=
  if basicPrefix.isPrefixOf value && decide (basicPrefix.length < value.length) then
    match decode (value.drop basicPrefix.length) with
    | .ok d => .ok d
    | .error e => .error (.b64 e)
  else .error .notBasic

/-- `getBasicUser`: text before the first ':' (empty when there is none) -/
def getBasicUser (value : List Nat) : Except BasicErr (List Nat) :=
  match basicDecoded value with
  | .error e => .error e
  | .ok d => match findColon d with
    | none => .ok []
    | some i => .ok (d.take i)

/-- `getBasicPassword`: text after the first ':' (empty when there is none) -/
def getBasicPassword (value : List Nat) : Except BasicErr (List Nat) :=
  match basicDecoded value with
  | .error e => .error e
  | .ok d => match findColon d with
    | none => .ok []
    | some i => .ok (d.drop (i + 1))

end Pistache.Base64
