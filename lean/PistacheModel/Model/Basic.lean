/-
Shared basics for the Pistache model: bytes are `Nat`, byte strings `List Nat`.
-/
namespace Pistache

instance instDecEqExcept {ε α : Type} [DecidableEq ε] [DecidableEq α] : DecidableEq (Except ε α)
  | .ok a, .ok b => if h : a = b then isTrue (by rw [h]) else isFalse (by intro e; cases e; exact h rfl)
  | .error a, .error b => if h : a = b then isTrue (by rw [h]) else isFalse (by intro e; cases e; exact h rfl)
  | .ok _, .error _ => isFalse (by intro e; cases e)
  | .error _, .ok _ => isFalse (by intro e; cases e)

/-- ASCII bytes of a string literal -/
def bytes (s : String) : List Nat := s.toList.map Char.toNat

end Pistache
