/-
Model of the cross-thread queue of include/pistache/mailbox.h (`Queue<T>::push/pop`, the Vyukov MPSC
queue, and `PollableQueue<T>::push/pop` with its eventfd), after the repair recorded in
known_findings.json (the notification is drained BEFORE the pop).

Abstraction: the atomic `head.exchange` totally orders the pushes, so the queue is the list of items in
exchange order; an item is `unlinked` until its producer has stored `prev->next`, then `linked`, then
`notified` once the producer has written the eventfd.  The consumer can take the item at position
`popped` iff it is linked (that is what `tail->next != nullptr` means).  Threads are interleaved at the
granularity of the PISTACHE_VERIF_YIELD points of mailbox.h.
-/
import PistacheModel.Model.Basic

namespace Pistache.Queue

inductive ISt | unlinked | linked | notified
  deriving DecidableEq, Repr

structure Item where
  pid : Nat              -- which producer pushed it
  seq : Nat              -- its index among that producer's pushes
  val : Nat              -- the payload the harness pushes (pid*100+seq)
  st : ISt
  deriving DecidableEq, Repr

inductive PPc
  | start
  | xchg (i : Nat)       -- parked at "q.xchg" of its i-th push
  | link (i : Nat)       -- parked at "q.link"
  | notify (i : Nat)     -- parked at "q.notify"
  | done
  deriving DecidableEq, Repr

structure Prod where
  pc : PPc := .start
  pushes : Nat
  cur : Nat := 0         -- index in `items` of the push in progress
  deriving DecidableEq, Repr

inductive CPc | start | idle | drain | pop | done
  deriving DecidableEq, Repr

structure QS where
  items : List Item := []
  popped : Nat := 0          -- how many the consumer has taken (`tail`)
  out : List Nat := []       -- what it has taken, in order
  efd : Nat := 0             -- eventfd counter
  prods : List Prod := []
  cons : CPc := .start
  stop : Bool := false
  deriving DecidableEq, Repr

def setSt (items : List Item) (k : Nat) (st : ISt) : List Item :=
  match items[k]? with
  | some it => items.set k { it with st := st }
  | none => items

def setP (pid : Nat) (s : QS) (p' : Prod) : QS := { s with prods := s.prods.set pid p' }

/-- producer `pid`, parked with record `p`, runs to its next yield point -/
def stepProdAt (s : QS) (pid : Nat) (p : Prod) : QS :=
  match p.pc with
  | .start => setP pid s { p with pc := if p.pushes = 0 then .done else .xchg 0 }
  | .xchg i =>
    -- head.exchange(entry): the item takes its place in the total order, not yet reachable
    setP pid { s with items := s.items ++ [{ pid := pid, seq := i, val := pid * 100 + i, st := .unlinked }] } { p with pc := .link i, cur := s.items.length }
  | .link i => setP pid { s with items := setSt s.items p.cur .linked } { p with pc := .notify i }      -- prev->next = entry
  | .notify i =>
    setP pid { s with items := setSt s.items p.cur .notified, efd := s.efd + 1 }                         -- write(eventfd)
      { p with pc := if i + 1 < p.pushes then .xchg (i + 1) else .done }
  | .done => s

/-- run producer `pid` from the yield point where it is parked to its next one -/
def stepProd (s : QS) (pid : Nat) : QS :=
  match s.prods[pid]? with
  | none => s
  | some p => stepProdAt s pid p

/-- run the consumer (the event-loop thread) to its next yield point -/
def stepCons (s : QS) : QS :=
  match s.cons with
  | .start => { s with cons := .idle }
  | .idle =>
    if s.efd > 0 then { s with cons := .drain }            -- woken up: enter the drain loop, first popSafe()
    else if s.stop then { s with cons := .done } else s
  | .drain => { s with efd := 0, cons := .pop }            -- read(eventfd) until EAGAIN
  | .pop =>
    match s.items[s.popped]? with
    | some it =>
      if it.st ≠ .unlinked then { s with out := s.out ++ [it.val], popped := s.popped + 1, cons := .drain }
      else { s with cons := .idle }                        -- tail->next is still null: the loop ends
    | none => { s with cons := .idle }
  | .done => s

/-- thread ids: producers 0..n-1, the consumer is n -/
def stepThread (s : QS) (tid : Nat) : QS :=
  if tid < s.prods.length then stepProd s tid else if tid = s.prods.length then stepCons s else s

def init (nprod pushes : Nat) : QS := { prods := List.replicate nprod { pushes := pushes } }

def runSched (s : QS) (sched : List Nat) : QS := sched.foldl stepThread s

end Pistache.Queue
