import PistacheModel.Model.Parser
import Driver.Util
import Driver.Headers
open Pistache Pistache.Parser

namespace Drv

def outStr : Outcome → String
  | .again => "A"
  | .done => "D"
  | .err c => s!"E{c}"
  | .unspec => "U"

def segments (msg : List Nat) (cuts : List Nat) : List (List Nat) :=
  let rec go (s : List Nat) (pos : Nat) : List Nat → List (List Nat)
    | [] => [s]
    | c :: cs => (s.take (c - pos)) :: go (s.drop (c - pos)) c cs
  go msg 0 cuts

def parseCuts (s : String) : Option (List Nat) :=
  if s == "-" then some [] else (s.splitOn ",").mapM String.toNat?

def lowerHex (b : List Nat) : String := toHex (b.map Stream.lower)

def typedDump (m : Msg) : String :=
  let xs := m.typed.map fun p =>
    match hdrParseCanon p.1 p.2 with
    | some (.ok (_, w)) =>
      p.1 ++ "=" ++ toHex w ++ (if p.1 == "Content-Type" then
        (match Mime.parse p.2 with | .ok m => "~q" ++ (match m.q with | some v => toString v | none => "-") | _ => "~q?") else "")
    | _ => p.1 ++ "=?"
  let xs := sortStrs xs
  if xs.isEmpty then "-" else ",".intercalate xs

def kvDump (kvs : List (String)) : String :=
  let xs := sortStrs kvs
  if xs.isEmpty then "-" else ",".intercalate xs

def msgDump (k : Kind) (m : Msg) : String :=
  let meth := match m.method with | some i => (Gen.httpMethods.getD i ("?", "?")).1 | none => "-"
  let qd := kvDump (m.query.map fun (p : List Nat × List Nat) => toHex p.1 ++ ":" ++ toHex p.2)
  let head := match k with
    | .request => s!"method={meth} res={toHex m.resource} ver={if m.version == 0 then "10" else "11"} q={qd}"
    | .response => s!"code={m.code}"
  let raw := kvDump (m.raw.map fun (p : List Nat × List Nat) => lowerHex p.1 ++ ":" ++ toHex p.2)
  let cookies := kvDump ((Cookie.jarCookies m.cookies).map fun c => toHex c.name ++ ":" ++ toHex c.value)
  s!"{head} typed={typedDump m} raw={raw} cookies={cookies} body={toHex m.body}"

/-- feed the segments one by one like onInput does; outcome per segment, stop at the first non-Again -/
def runSegs (p : PState) : List (List Nat) → List String → PState × List String × Outcome
  | [], acc => (p, acc, .again)
  | seg :: rest, acc =>
    match feed p seg with
    | none => (reset p, acc ++ ["F413"], .err 413)
    | some p1 =>
      match parse p1 with
      | (p2, .again) => runSegs p2 rest (acc ++ ["A"])
      | (p2, o) => (p2, acc ++ [outStr o], o)

def kindOf (s : String) : Option Kind :=
  if s == "req" || s == "reqw" then some .request else if s == "resp" || s == "respw" then some .response else none

def oneMessage (p : PState) (msg : List Nat) (cuts : List Nat) : PState × String :=
  let (p', outs, o) := runSegs p (segments msg cuts) []
  let line := ",".intercalate outs ++ (match o with | .done => " | " ++ msgDump p.kind p'.msg | _ => "")
  (p', line)

def parserOp : List String → Option String
  | ["parse", k, mx, hm, cuts] => do
    let kind ← kindOf k
    let msg ← fromHex hm
    let cs ← parseCuts cuts
    let (_, line) := oneMessage (init kind (← mx.toNat?)) msg cs
    if line.contains 'U' && (line.splitOn " | ").head!.contains 'U' then pure "unspecified" else pure line
  | ["pmem", _, _, _, _] => some "unspecified"
  | ["hlookup", hm, names] => do
    let msg ← fromHex hm
    let (p', outs, o) := runSegs (init .request 65536) [msg] []
    match o with
    | .done =>
      let qs ← (names.splitOn ",").mapM fromHex
      let parts := qs.map fun (q : List Nat) =>
        let raw := (p'.msg.raw.find? fun (pr : List Nat × List Nat) => pr.1.map Stream.lower = q.map Stream.lower).map (·.2)
        let typed := match Headers.canonOf q with
          | some c => p'.msg.typed.any (fun (pr : String × List Nat) => pr.1 == c)
          | none => false
        -- the typed collection keeps the first occurrence of a field (Collection::add is an insert): "/T1"
        (match raw with | some v => toHex v | none => "~") ++ (if typed then "/T1" else "/-")
      pure ("ok " ++ " ".intercalate parts)
    | .unspec => pure "unspecified"
    | _ => pure (outs.getLastD "A")
  | "seq" :: k :: mx :: items => do
    let kind ← kindOf k
    let mxn ← mx.toNat?
    let rec go (p : PState) : List String → List String → Option (List String)
      | [], acc => some acc
      | it :: rest, acc =>
        match it.splitOn ":" with
        | [hm, cuts] => do
          let msg ← fromHex hm
          let cs ← parseCuts cuts
          let (p', line) := oneMessage p msg cs
          go (reset p') rest (acc ++ [line])
        | _ => none
    let lines ← go (init kind mxn) items []
    if lines.any (fun l => (l.splitOn " | ").head!.contains 'U') then pure "unspecified" else pure (" ;; ".intercalate lines)
  | _ => none

end Drv
