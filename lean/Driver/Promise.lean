import PistacheModel.Model.Promise
import PistacheModel.Model.PromiseQ
import Driver.Util
open Pistache Pistache.Promise

namespace Drv

def splitOps (ws : List String) : List (List String) :=
  let rec go : List String → List String → List (List String) → List (List String)
    | [], cur, acc => (if cur.isEmpty then acc else acc ++ [cur])
    | ";" :: r, cur, acc => go r [] (if cur.isEmpty then acc else acc ++ [cur])
    | w :: r, cur, acc => go r (cur ++ [w]) acc
  go ws [] []

def parseRet (s : String) : Option Ret :=
  match s.splitOn ":" with
  | ["val", k] => k.toInt?.map Ret.value
  | ["void"] => some .void
  | ["prom", q] => q.toNat?.map Ret.promise
  | _ => none

def parseRej (s : String) : Option Rej :=
  match s.splitOn ":" with
  | ["ign"] => some .ignore
  | ["rth"] => some .rethrow
  | ["cus", c] => c.toNat?.map Rej.custom
  | _ => none

def parseOp : List String → Option Op
  | ["new"] => some .new
  | ["newv"] => some .new      -- a Promise<void>: the program settles it with 0, its continuations take no argument (logged as 0)
  | ["res", v] => v.toInt?.map Op.newResolved
  | ["rej", e] => e.toNat?.map Op.newRejected
  | ["then", p, cb, ret, rej] => do pure (.then_ (← p.toNat?) (← cb.toNat?) (← parseRet ret) (← parseRej rej))
  | ["resolve", p, v] => do pure (.resolve (← p.toNat?) (← v.toInt?))
  | ["reject", p, e] => do pure (.reject (← p.toNat?) (← e.toNat?))
  | ["all", ps] => do pure (.whenAll (← (ps.splitOn ",").mapM String.toNat?))
  | ["allr", ps] => do pure (.whenAll (← (ps.splitOn ",").mapM String.toNat?))   -- iterator-range whenAll: same contract
  | ["any", ps] => do pure (.whenAny (← (ps.splitOn ",").mapM String.toNat?))
  | _ => none

def outStrP : OpOut → String
  | .ok => "ok"
  | .created c => s!"c{c}"
  | .thrown => "T"

def evStr : Ev → Option String
  | .call cb a => some s!"c{cb}({a})"
  | .callRej cb e => some s!"r{cb}({e})"
  | .internalThrow _ => none

/-- cores whose promise object was moved out (returned by a promise-returning callback that ran) -/
def movedOut (m : M) : List Nat :=
  m.cores.flatMap fun c => c.reqs.filterMap fun r =>
    match r.kind with
    | .user _ (.promise q) _ => if r.rc ≥ 1 then some q else none
    | _ => none

def promiseOp : List String → Option String
  | ["allmt", nS, roundsS] => do
    -- the inputs of a whenAll fulfilled by different threads: every order of the fulfilments is a sequential program of the model,
    -- in each of which the combined continuation runs exactly once (fulfil_at_most_once, fulfilled_continuation_ran) with the
    -- arguments' values (whenAll_carries_argument_values) and no resolve of a pending promise throws (settle_pending_never_throws)
    let n ← nS.toNat?; let r ← roundsS.toNat?
    if n < 2 || n > 4 then none
    pure s!"rounds={r} once={r} never=0 repeated=0 wrongvalues=0 thrown=0"
  | "prog" :: ws => do
    let ops ← (splitOps ws).mapM parseOp
    -- the hypothesis of the completeness theorems (Props/C11Complete): every cascade ran to completion within the fuel
    if !quiescentB {} ops then pure "MODEL-FUEL" else
    let (m, outs) := execAll {} ops
    let log := m.log.filterMap evStr
    let moved := movedOut m
    let st := String.join (m.cores.zipIdx.map fun (ci : Core × Nat) =>
      if moved.contains ci.2 then "M" else match ci.1.st with | .pending => "P" | .fulfilled _ => "F" | .rejected _ => "R")
    pure s!"{",".intercalate (outs.map outStrP)} | log={if log.isEmpty then "-" else ",".intercalate log} | st={if st.isEmpty then "-" else st}"
  | "progd" :: ws => do
    -- the same program run by a harness that lets go of every handle after its last use: lifetimes are invisible
    -- to the model, so the answers and the log must be the same (final states are not observable there)
    let ops ← (splitOps ws).mapM parseOp
    if !quiescentB {} ops then pure "MODEL-FUEL" else
    let (m, outs) := execAll {} ops
    let log := m.log.filterMap evStr
    pure s!"{",".intercalate (outs.map outStrP)} | log={if log.isEmpty then "-" else ",".intercalate log} | st=-"
  | _ => none

end Drv
