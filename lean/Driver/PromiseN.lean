import PistacheModel.Model.PromiseN
import Driver.Util
open Pistache Pistache.PromiseN

namespace Drv

def spcLabel : SPc → String
  | .start => "start" | .check => "p.settle.check" | .lock1 => "p.settle.lock" | .snap => "p.settle.snap"
  | .lock => "p.settle.lock" | .store => "p.settle.store" | .walk => "p.settle.walk" | .done => "done"
def apcLabel : APc → String
  | .start => "start" | .tLock => "p.then.lock" | .tState => "p.then.state" | .tPush => "p.then.push" | .done => "done"

/-- where thread `tid` is parked -/
def parked (s : St) (tid : Nat) : String :=
  match tid with
  | 0 => spcLabel s.spc
  | j + 1 => apcLabel (s.apc j)

structure NRun where
  s : St
  labels : List (List String)

/-- run thread `tid` to its next yield point; returns the label where it parked ("done", or "blocked" for a retry) -/
def runOneN (n : Nat) (r : NRun) (tid : Nat) : NRun × String :=
  if tid > n || finished r.s tid then (r, "skip") else
  let s' := step {} r.s tid
  if finished s' tid then ({ r with s := s' }, "done")
  else
    let lab := if parked s' tid == parked r.s tid then "blocked" else parked s' tid
    ({ s := s', labels := r.labels.modify tid (· ++ [lab]) }, lab)

def allDone (n : Nat) (s : St) : Bool := (List.range (n + 1)).all (finished s)

/-- the completion loop of the harness: the threads in turn until all have finished; 50 rounds in which every
    unfinished thread only retried = deadlock -/
def finishN (n : Nat) : Nat → Nat → NRun → NRun × Bool
  | 0, _, r => (r, false)
  | fuel + 1, stuck, r =>
    if allDone n r.s then (r, false) else
    let p := (List.range (n + 1)).foldl (fun (p : NRun × Bool) tid =>
      if finished p.1.s tid then p else
      let q := runOneN n p.1 tid
      (q.1, p.2 && (q.2 == "blocked" || q.2 == "done"))) (r, true)
    if p.2 && !allDone n p.1.s then (if stuck + 1 > 50 then (p.1, true) else finishN n fuel (stuck + 1) p.1)
    else finishN n fuel 0 p.1

def promiseNOp : List String → Option String
  | ["pn", nS, outcome, sched] => do
    let n ← nS.toNat?
    if n < 1 || n > 6 then none
    if outcome != "res" && outcome != "rej" then none
    let sch ← if sched == "-" then some [] else (sched.splitOn ",").mapM String.toNat?
    let r0 : NRun := { s := init, labels := List.replicate (n + 1) ["start"] }
    let r1 := sch.foldl (fun r t => (runOneN n r t).1) r0
    let (r2, dead) := finishN n 100000 0 r1
    if dead then pure "HANG" else
    let s := r2.s
    let ord := if s.order.isEmpty then "-" else ",".intercalate (s.order.map toString)
    let tr := "|".intercalate (r2.labels.map fun l => ",".intercalate l)
    pure s!"order={ord} exc={if s.excA then "A" else "-"} trace={tr}"
  | _ => none

end Drv
