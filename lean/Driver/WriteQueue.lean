import PistacheModel.Model.WriteQueue
import Driver.Util
open Pistache Pistache.WriteQueue

namespace Drv

def patternByte (w p : Nat) : Nat := (w * 31 + p * 7 + p / 256) % 256

def patternData (w size : Nat) : List Nat := (List.range size).map (patternByte w)

def drainAll : Nat → WState → WState
  | 0, s => s
  | n + 1, s => if s.queue.isEmpty then s else drainAll n (step s (.sock (.cap 1000000000)))

def firstDiff (a b : List Nat) : Option Nat :=
  let rec go : List Nat → List Nat → Nat → Option Nat
    | [], [], _ => none
    | x :: xs, y :: ys, i => if x == y then go xs ys (i + 1) else some i
    | _, _, i => some i
  go a b 0

def writeQueueOp : List String → Option String
  | ["wr", _mode, writesS, scriptS] => do
    -- a spec starting with 'd' is a write addressed to a peer that is gone: dropped by the transport, it produces nothing
    let toks := writesS.splitOn ","
    let specs ← toks.mapM fun t => (t.drop 1).toNat?
    let live := (List.range specs.length).filter fun i => !((toks.getD i "").startsWith "d")
    let script ← (if scriptS == "-" then some [] else (scriptS.splitOn ",").mapM fun t =>
      if t == "B" then some Outcome.block else t.toNat?.map Outcome.cap)
    let enqs := live.map fun i => Op.enq i (patternData i (specs.getD i 0))
    let s1 := (enqs ++ script.map Op.sock).foldl step {}
    let s2 := drainAll (specs.length + 4) s1
    let expected := (live.map fun i => patternData i (specs.getD i 0)).flatten
    let m := match firstDiff s2.wire expected with | none => "1" | some p => s!"0:{p}"
    let proms := live.map fun i =>
      match s2.settled.find? (fun p => p.1 == i) with | some p => s!"ok:{p.2}" | none => "pending"
    let calls := s2.calls.map fun c => s!"{c.1}:" ++ (match c.2 with | some a => toString a | none => "B")
    pure s!"recv={s2.wire.length} expected={expected.length} match={m} promises={if proms.isEmpty then "-" else ",".intercalate proms} calls={if calls.isEmpty then "-" else ",".intercalate calls}"
  | _ => none

end Drv
