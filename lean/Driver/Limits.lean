import PistacheModel.Model.Parser
import PistacheModel.Model.Timeouts
import Driver.Util
import Driver.Parser
open Pistache Pistache.Parser

namespace Drv

/-- events of a paced request: (time in ms, bytes) → per event the parser outcome and whether the head is complete -/
def pacedRun (p : PState) : List (Nat × List Nat) → List (Nat × Outcome × Bool) → List (Nat × Outcome × Bool)
  | [], acc => acc
  | (t, bs) :: rest, acc =>
    match feed p bs with
    | none => acc ++ [(t, .err 413, false)]
    | some p1 =>
      match parse p1 with
      | (p2, .again) => pacedRun p2 rest (acc ++ [(t, .again, decide (p2.step ≥ 2))])
      | (p2, o) => acc ++ [(t, o, decide (p2.step ≥ 2))]

def limitsOp : List String → Option String
  | ["lim", mx, hm, cuts] => do
    let max ← mx.toNat?
    let msg ← fromHex hm
    let cs ← parseCuts cuts
    let (p', o) := Parser.run (Parser.init .request max) (segments msg cs)
    match o with
    | .done => pure s!"status=200 handler=1 bodyseen={toHex p'.msg.body}"
    | .err c => pure s!"status={c} handler=0 bodyseen=-"
    | .again => pure "status=0 handler=0 bodyseen=-"
    | .unspec => pure "unspecified"
  | ["to", hS, bS, stepsS] => do
    let hdr ← hS.toNat?
    let body ← bS.toNat?
    let steps ← (stepsS.splitOn ",").mapM fun st => match st.splitOn ":" with
      | [d, h] => do pure ((← d.toNat?), (← fromHex h))
      | _ => none
    -- cumulative send times
    let timed := (steps.foldl (fun (acc : Nat × List (Nat × List Nat)) st => (acc.1 + st.1, acc.2 ++ [(acc.1 + st.1, st.2)])) (0, [])).2
    let evs := pacedRun (Parser.init .request 65536) timed []
    let th := (evs.find? fun e => e.2.2 || e.2.1 == .done).map (·.1)
    let fin := evs.find? fun e => e.2.1 != .again
    let c : Timeouts.TCfg := { hdr := hdr, body := body }
    match fin with
    | some (t, .err code, _) =>
      -- answered with an error at time t unless it expired before
      (match Timeouts.firstExpiry c { th := th, tb := some t } 64 1 with
       | some k => pure s!"status=408 handler=0 closed=1"
       | none => pure s!"status={code} handler=0 closed=0")
    | some (_, .unspec, _) => pure "unspecified"
    | some (t, _, _) =>
      (match Timeouts.verdict c { th := th, tb := some t } 64 with
       | .timedOut k => pure s!"status=408 handler=0 closed=1"
       | _ => pure s!"status=200 handler=1 closed=0")
    | none =>
      (match Timeouts.verdict c { th := th, tb := none } 64 with
       | .timedOut k => pure s!"status=408 handler=0 closed=1"
       | _ => pure "status=0 handler=0 closed=0")
  | ["to2", hS, bS, d1S, gapS, _] => do
    let hdr ← hS.toNat?
    let body ← bS.toNat?
    let d1 ← d1S.toNat?
    let gap ← gapS.toNat?
    let c : Timeouts.TCfg := { hdr := hdr, body := body }
    -- each request has its own clock (parser reset): a complete request that arrives `d` ms after the clock started
    let one (d : Nat) : Bool := match Timeouts.verdict c { th := some d, tb := some d } 64 with | .timedOut _ => false | _ => true
    if !one d1 then pure "s1=408 s2=0 handler=0"
    else if !one gap then pure "s1=200 s2=408 handler=1"
    else pure "s1=200 s2=200 handler=2"
  | ["tom", hS, kindsS] => do
    -- several connections on one worker: at the tick after the deadline one scan of the idle peers judges each on its own
    -- (Timeouts.scan): a busy keep-alive connection restarted its clock at most hdr/4 ms ago, a silent or partial one never did
    let hdr ← hS.toNat?
    let c : Timeouts.TCfg := { hdr := hdr, body := hdr }
    let kinds := kindsS.splitOn ","
    if kinds.any (fun k => !(k == "K" || k == "S" || k == "P")) then none
    let tick := (hdr / c.period + 1) * c.period
    let peers : List Timeouts.Peer := (List.range kinds.length).map fun i =>
      if kinds.getD i "" == "K" then { id := i, phase := .head, elapsed := hdr / 4 } else { id := i, phase := .head, elapsed := tick }
    let dropped := (Timeouts.scan c peers).map (·.id)
    let rs := (List.range kinds.length).map fun i =>
      let k := kinds.getD i ""
      if k == "K" then (if dropped.contains i then "K:bad" else "K:ok") else (if dropped.contains i then k ++ ":408!" else k ++ ":0")
    pure s!"conns={",".intercalate rs}"
  | _ => none

end Drv
