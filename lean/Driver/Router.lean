import PistacheModel.Model.Router
import Driver.Util
open Pistache Pistache.Router

namespace Drv

def foundStr (f : Found) : String :=
  let ps := if f.params.isEmpty then "-" else ",".intercalate (f.params.map fun p => toHex p.1 ++ ":" ++ toHex p.2)
  let ss := if f.splats.isEmpty then "-" else ",".intercalate (f.splats.map toHex)
  s!"h{f.handler} p={ps} s={ss}"

/-- same node with the sibling order of every kind reversed (to detect order-dependent answers) -/
def revNode (n : Node) : Node := n.reverse

/-- does removing walk an existing tree path? (C++ throws when a child on the way does not exist) -/
def pathExists (tbl : Node) (pat : Pattern) : Bool := pat.isEmpty || tbl.any (fun pr => pat.isPrefixOf pr.1)

def routerOp : List String → Option String
  | ["rsan", h] => do
    let p ← fromHex h
    if p.isEmpty then none else pure (toHex (sanitize p))
  | "rt" :: ops =>
    let rec go (tbl : Node) (i : Nat) : List String → List String → Option (List String)
      | [], acc => some acc
      | o :: rest, acc =>
        match o.toList with
        | c :: hs => do
          let raw ← fromHex (String.ofList hs)
          if raw.isEmpty then none else
          if c == '+' then
            match addRoute tbl raw i with
            | .ok t' => go t' (i + 1) rest (acc ++ ["ok"])
            | .error _ => go tbl (i + 1) rest (acc ++ ["err"])
          else if c == '-' then
            match patternOf (sanitize raw) with
            | .error _ => go tbl (i + 1) rest (acc ++ ["err"])
            | .ok pat =>
              if pathExists tbl pat then go (tbl.filter (fun pr => pr.1 ≠ pat)) (i + 1) rest (acc ++ ["ok"])
              else go tbl (i + 1) rest (acc ++ ["err"])
          else if c == '?' then
            let a := lookup false tbl raw
            let b := lookup true tbl raw
            if a != b then go tbl (i + 1) rest (acc ++ ["ambiguous"])
            else go tbl (i + 1) rest (acc ++ [match a with | some f => foundStr f | none => "none"])
          else none
        | [] => none
    match go [] 1 ops [] with
    | some acc => some (if acc.isEmpty then "-" else " ; ".intercalate acc)
    | none => none
  | _ => none

end Drv
