import PistacheModel.Model.Net
import Driver.Util
open Pistache Pistache.Net

namespace Drv

def addrOut (input : List Nat) : String :=
  match addressInit input with
  | .invalid => "err invalid_argument"
  | .unspec => "unspecified"
  | .ok ip port =>
    let fam := match ip with | .v4 .. => "v4" | .v6 _ => "v6"
    let pr := printAddr ip port
    let rp := if addressInit pr = .ok ip port then "1" else "0"
    s!"ok {fam} host={toHex (hostText ip)} port={port} print={toHex pr} rp={rp}"

def netOp : List String → Option String
  | ["port", h] => do
    let s ← fromHex h
    match parsePort s with
    | some n => pure s!"ok {n}"
    | none => pure "err invalid_argument"
  | ["addr", h] => do pure (addrOut (← fromHex h))
  | ["addrhp", h, p] => do
    -- Address(host, Port): the text "host:port" is parsed as a whole
    let host ← fromHex h
    let port ← p.toNat?
    pure (addrOut (host ++ [58] ++ Num.natToDec port))
  | ["addrp", h] => do
    let s ← fromHex h
    match addressParser s with
    | none => pure "err invalid_argument"
    | some p => pure s!"ok host={toHex p.host} port={toHex p.port} colon={if p.hasColon then 1 else 0} fam={if p.v6 then "v6" else "v4"}"
  | ["pton6", h] => do
    let s ← fromHex h
    match pton6 (cstr s) with
    | some b => pure s!"ok {toHex b}"
    | none => pure "none"
  | ["ntop6", h] => do
    let b ← fromHex h
    if b.length ≠ 16 then none else pure (toHex (ntop6 b))
  | ["pton4", h] => do
    let s ← fromHex h
    match pton4 (cstr s) with
    | some b => pure s!"ok {toHex b}"
    | none => pure "none"
  | _ => none

end Drv
