import PistacheModel.Model.PromiseMT
import Driver.Util
open Pistache Pistache.PromiseMT

namespace Drv

def labelStr : Label → String
  | .settleCheck => "p.settle.check" | .settleLock => "p.settle.lock" | .settleStore => "p.settle.store" | .settleWalk => "p.settle.walk"
  | .chainLock => "p.chain.lock" | .chainStore => "p.chain.store" | .chainWalk => "p.chain.walk"
  | .thenLock => "p.then.lock" | .thenState => "p.then.state" | .thenPush => "p.then.push" | .blocked => "blocked"

def evLabel? : Ev → Option String
  | .label l => some (labelStr l) | _ => none
def evAcc? : Ev → Option String
  | .acc c f w l =>
    some ((match c with | .P => "P" | .D => "D") ++ "." ++ (match f with | .state => "state" | .requests => "requests")
      ++ (if w then ".w" else ".r") ++ (if l then "+" else "-"))
  | _ => none

structure PRun where
  s : St
  labels : List (List String)
  accs : List (List String)
  last : List String          -- where each thread is parked (label of its last yield)

def finishedT (s : St) (tid : Nat) : Bool := if tid = 0 then s.a == .done else if tid = 1 then s.b == .done else true

def runOneP (cfg : Cfg) (r : PRun) (tid : Nat) : PRun :=
  if tid > 1 || finishedT r.s tid then r else
  let (s', evs) := step cfg r.s tid
  let ls := evs.filterMap evLabel?
  let as := evs.filterMap evAcc?
  { s := s', labels := r.labels.modify tid (· ++ ls), accs := r.accs.modify tid (· ++ as),
    last := r.last.modify tid (fun old => if finishedT s' tid then "done" else (ls.getLast?.getD old)) }

/-- the completion loop of the harness: alternate the threads until both have finished; 50 rounds
    without progress = deadlock -/
def finishP (cfg : Cfg) : Nat → Nat → PRun → PRun × Bool
  | 0, _, r => (r, false)
  | n + 1, stuck, r =>
    if finishedT r.s 0 && finishedT r.s 1 then (r, false) else
    let f0 := finishedT r.s 0
    let r1 := if f0 then r else runOneP cfg r 0
    let a0 := if f0 then "done" else r1.last.getD 0 ""
    let f1 := finishedT r1.s 1
    let r2 := if f1 then r1 else runOneP cfg r1 1
    let a1 := if f1 then "done" else r2.last.getD 1 ""
    let b0 := a0 == "blocked" || a0 == "done"
    let b1 := a1 == "blocked" || a1 == "done"
    if b0 && b1 && !(finishedT r2.s 0 && finishedT r2.s 1) then
      (if stuck + 1 > 50 then (r2, true) else finishP cfg n (stuck + 1) r2)
    else finishP cfg n 0 r2

def promiseMTOpWith (lockChain : Bool) : List String → Option String
  | [_, target, outcome, gwho, sched] => do
    let tgt ← match target with | "P" => some CoreId.P | "D" => some CoreId.D | _ => none
    let oc ← match outcome with | "res" => some (CSt.ful 7) | "rej" => some (CSt.rej 9) | _ => none
    let gw ← match gwho with | "none" => some GWho.none | "pre" => some GWho.pre | "race" => some GWho.race | _ => none
    let sc : Scenario := { target := tgt, gwho := gw }
    if !sc.valid then none else
    let sch ← if sched == "-" then some [] else (sched.splitOn ",").mapM String.toNat?
    let cfg : Cfg := { lockChain := lockChain, outcome := oc }
    let r0 : PRun := { s := initSt sc, labels := [["start"], ["start"]], accs := [[], []], last := ["start", "start"] }
    let r1 := sch.foldl (runOneP cfg) r0
    let (r2, dead) := finishP cfg 100000 0 r1
    if dead then pure "HANG" else
    let s := r2.s
    let optS (o : Option Nat) : String := match o with | some v => toString v | none => "-1"
    let tr := "|".intercalate (r2.labels.map fun l => ",".intercalate l)
    let ac := "|".intercalate (r2.accs.map fun l => if l.isEmpty then "-" else ",".intercalate l)
    pure s!"h={s.hcount}:{optS s.hval} hrej={s.hrej}:{optS s.hrejval} g={s.gcount} exc={if s.excA then "A" else "-"}- trace={tr} acc={ac}"
  | _ => none

def promiseMTOp : List String → Option String
  | "p" :: rest => promiseMTOpWith true ("p" :: rest)
  | "pold" :: rest => promiseMTOpWith false ("pold" :: rest)      -- the code before the repair (used when searching for a failing input)
  | _ => none

end Drv
