import PistacheModel.Model.Mime
import Driver.Util
open Pistache Pistache.Mime

namespace Drv

def nameAt (tbl : List (String × String)) (i : Nat) : String := (tbl.getD i ("?", "")).1

def subName : Sub → String
  | .known i => nameAt Gen.mimeSubtypes i
  | .vendor => "Vendor"
  | .ext => "Ext"
def sufName : Suf → String
  | .none => "None"
  | .known i => nameAt Gen.mimeSuffixes i
  | .ext => "Ext"

def sortStrs (xs : List String) : List String := (xs.toArray.qsort (· < ·)).toList

def paramsCanon (ps : List (List Nat × List Nat)) : String :=
  let xs := sortStrs (ps.map fun p => toHex p.1 ++ ":" ++ toHex p.2)
  if xs.isEmpty then "-" else ",".intercalate xs

def mediaCanon (m : Media) : String :=
  let q := match m.q with | none => "-" | some v => toString v
  s!"ok top={nameAt Gen.mimeTypes m.top} sub={subName m.sub} suf={sufName m.suffix} q={q} params={paramsCanon m.params}"

def mimeResult : Except Mime.Err Media → String
  | .ok m => mediaCanon m
  | .error .unsupported => "err 415"
  | .error .unspec => "unspecified"
  | .error .fuel => "MODEL-FUEL"

def parseParams (s : String) : Option (List (List Nat × List Nat)) :=
  if s == "-" then some [] else
  (s.splitOn ",").mapM fun kv =>
    match kv.splitOn ":" with
    | [k, v] => do pure ((← fromHex k), (← fromHex v))
    | _ => none

def optNat (s : String) : Option (Option Nat) := if s == "-" then some none else s.toNat?.map some

def mimeOp : List String → Option String
  | ["mime", h] => do
    let s ← fromHex h
    pure (mimeResult (parse s) ++ (match parse s with | .ok _ => " rt=1" | _ => ""))
  | ["mimew", ti, si, sj, q, ps] => do
    let ps ← parseParams ps
    pure (toHex (render (← ti.toNat?) (← si.toNat?) (← optNat sj) (← optNat q) ps))
  | ["mimert", ti, si, sj, q, ps] => do
    let ps ← parseParams ps
    pure (mimeResult (parse (render (← ti.toNat?) (← si.toNat?) (← optNat sj) (← optNat q) ps)))
  | ["qstr", v] => do pure (toHex (qToString (← v.toNat?)))
  | _ => none

end Drv
