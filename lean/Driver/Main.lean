import Driver.Util
import Driver.Base64
import Driver.Mime
import Driver.Net
import Driver.Headers
import Driver.Cookie
import Driver.Parser
import Driver.Router
import Driver.Promise
import Driver.Queue
import Driver.PromiseMT
import Driver.Emit
import Driver.RoundTrip
import Driver.Limits
import Driver.Lifecycle
import Driver.WriteQueue
import Driver.EventLoop
import Driver.ClientPool
import Driver.Serve
import Driver.Shutdown
import Driver.PromiseN

open Drv

def dispatch (line : String) : String :=
  let ws := words line
  let ops : List (List String → Option String) := [base64Op, mimeOp, netOp, headersOp, cookieOp, parserOp, routerOp, promiseOp, queueOp, promiseMTOp, emitOp, roundTripOp, roundTripCutOp, limitsOp, lifeOp, writeQueueOp, stallOp, clientOp, serveOp, shutdownOp, promiseNOp]
  match ops.findSome? (fun f => f ws) with
  | some r => r
  | none => "bad-op"

partial def loop (hin : IO.FS.Stream) (hout : IO.FS.Stream) : IO Unit := do
  let line ← hin.getLine
  if line.isEmpty then return ()
  hout.putStrLn (dispatch line)
  loop hin hout

def main : IO Unit := do
  let hin ← IO.getStdin
  let hout ← IO.getStdout
  loop hin hout
  hout.flush
