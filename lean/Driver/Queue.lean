import PistacheModel.Model.Queue
import Driver.Util
open Pistache Pistache.Queue

namespace Drv

def prodLabel : PPc → Option String
  | .start => some "start" | .xchg _ => some "q.xchg" | .link _ => some "q.link" | .notify _ => some "q.notify" | .done => none
def consLabel : CPc → Option String
  | .start => some "start" | .idle => some "c.idle" | .drain => some "q.drain" | .pop => some "q.pop" | .done => none

structure QRun where
  s : QS
  labels : List (List String)

def threadFinished (s : QS) (tid : Nat) : Bool :=
  if tid < s.prods.length then (s.prods.getD tid { pushes := 0 }).pc == .done
  else if tid = s.prods.length then s.cons == .done else true

def parkedLabel (s : QS) (tid : Nat) : Option String :=
  if tid < s.prods.length then prodLabel (s.prods.getD tid { pushes := 0 }).pc
  else if tid = s.prods.length then consLabel s.cons else none

def runOneQ (r : QRun) (tid : Nat) : QRun :=
  if tid > r.s.prods.length || threadFinished r.s tid then r else
  let s' := stepThread r.s tid
  let ls := match parkedLabel s' tid with
    | some l => r.labels.modify tid (· ++ [l])
    | none => r.labels
  { s := s', labels := ls }

def repeatUntil (fuel : Nat) (r : QRun) (stopP : QRun → Bool) (f : QRun → QRun) : QRun :=
  match fuel with
  | 0 => r
  | n + 1 => if stopP r then r else repeatUntil n (f r) stopP f

def queueOp : List String → Option String
  | ["q", np, pu, sched] => do
    let nprod ← np.toNat?; let pushes ← pu.toNat?
    let sc ← if sched == "-" then some [] else (sched.splitOn ",").mapM String.toNat?
    let s0 := init nprod pushes
    let r0 : QRun := { s := s0, labels := List.replicate (nprod + 1) ["start"] }
    let r1 := sc.foldl runOneQ r0
    -- finish the producers
    let r2 := (List.range nprod).foldl (fun r p => repeatUntil 10000 r (fun r => threadFinished r.s p) (fun r => runOneQ r p)) r1
    let cons := nprod
    -- consumer to idle
    let toIdle (r : QRun) : QRun := repeatUntil 10000 r (fun r => r.s.cons == .idle) (fun r => runOneQ r cons)
    let r3 := toIdle r2
    -- handle pending wake-ups
    let r4 := repeatUntil 10000 r3 (fun r => r.s.efd == 0) (fun r => toIdle (runOneQ r cons))
    let s := r4.s
    let ps := if s.out.isEmpty then "-" else ",".intercalate (s.out.map toString)
    let labels := "|".intercalate (r4.labels.map fun l => ",".intercalate l)
    pure s!"popped={ps} left={s.items.length - s.popped} wake={if s.efd > 0 then 1 else 0} labels={labels}"
  | _ => none

end Drv
