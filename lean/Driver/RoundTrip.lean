import PistacheModel.Model.Emit
import PistacheModel.Model.Parser
import Driver.Util
import Driver.Headers
import Driver.Parser
import Driver.Emit
open Pistache Pistache.Emit

namespace Drv

def pairsArg (s : String) (sep : String) (hexKey : Bool) : Option (List (List Nat × List Nat)) :=
  if s == "-" then some [] else
  (s.splitOn ",").mapM fun it =>
    match it.splitOn sep with
    | [k, v] => do
      let kk ← if hexKey then fromHex k else some (bytes k)
      pure (kk, ← fromHex v)
    | _ => none

def splitOnBytes (sep : List Nat) (fuel : Nat) (b : List Nat) : List (List Nat) :=
  let rec go : Nat → List Nat → List Nat → List (List Nat)
    | 0, cur, rest => [cur ++ rest]
    | _ + 1, cur, [] => [cur]
    | n + 1, cur, c :: r =>
      if (c :: r).take sep.length == sep then cur :: go n [] ((c :: r).drop sep.length) else go n (cur ++ [c]) r
  go fuel [] b

/-- the Cookie header's value lists the jar in container order: compare it with its pairs sorted -/
def canonCookieValue (v : List Nat) : List Nat :=
  sepBy (bytes "; ") (sortBytes (splitOnBytes (bytes "; ") (v.length + 1) v))

def canonRawEntry (p : List Nat × List Nat) : List Nat × List Nat :=
  let n := p.fst.map Stream.lower
  if n == bytes "cookie" then (p.fst, canonCookieValue p.snd)
  else if n == bytes "set-cookie" then (p.fst, [42])
  else p

def msgDumpCanon (k : Parser.Kind) (m : Parser.Msg) : String :=
  msgDump k { m with raw := m.raw.map canonRawEntry }

def methodText (name : String) : Option (List Nat) :=
  (Gen.httpMethods.find? (fun p => p.1 == name)).map fun p => bytes p.2

def parseWhole (k : Parser.Kind) (bs : List Nat) : String :=
  match Parser.feed (Parser.init k (1 <<< 24)) bs with
  | none => "F413"
  | some p1 =>
    match Parser.parse p1 with
    | (p2, .done) => msgDumpCanon k p2.msg
    | (_, .unspec) => "unspecified"
    | (_, o) => outStr o

def roundTripOp : List String → Option String
  | ["rtreq", meth, pathS, qS, hS, cS, bodyS] => do
    let mtxt ← methodText meth
    let path ← fromHex pathS
    let q ← pairsArg qS ":" true
    let cs ← pairsArg cS ":" true
    let body ← fromHex bodyS
    -- typed headers through their models (first add of a name wins)
    let mut hs : List (String × List Nat) := []
    for sp in splitArg hS do
      match sp.splitOn "=" with
      | [name, hv] =>
        let v ← fromHex hv
        let cn ← canonName name
        match hdrParseCanon cn v with
        | some (.ok (_, w)) => if hs.any (fun p => p.1 == cn) then pure () else hs := hs ++ [(cn, w)]
        | _ => return "unspecified"
      | _ => none
    let r : Req := { method := mtxt, path := path, query := q, cookies := cs, headers := hs.map fun p => (bytes p.1, p.2),
                     host := bytes "127.0.0.1:65535", body := body }
    let strip := fun (b : List Nat) => b.take (b.length - 2)
    let cookieLine := bytes "Cookie: " ++ sepBy (bytes "; ") (sortBytes (cs.map fun p => p.1 ++ [61] ++ p.2))
    let lines := [cookieLine] ++ (r.headers.map fun h => strip (headerLine h))
      ++ [strip (headerLine (bytes "User-Agent", bytes "pistache/0.1")), strip (headerLine (bytes "Host", r.host))]
      ++ (if body.isEmpty then [] else [strip (headerLine (bytes "Content-Length", Num.natToDec body.length))])
    let pth := (if path.head? = some 47 then [] else [47]) ++ path
    let qd := hexListOrDash (sortBytes (q.map fun p => p.1 ++ [61] ++ p.2))
    let wire := s!"method={toHex mtxt} path={toHex pth} ver={toHex (bytes "HTTP/1.1")} q={qd} headers={hexListOrDash (sortBytes lines)} body={toHex body}"
    let seen := parseWhole .request (requestBytes r)
    if seen == "unspecified" then pure "unspecified" else
    pure s!"wire[{wire}] seen[{seen}] client=ok"
  | ["rtreq", meth, pathS, qS, hS, cS, bodyS, _cookieAttrs] =>
    -- attributes of the client-side Cookie objects are never sent: the request is the same
    roundTripOp ["rtreq", meth, pathS, qS, hS, cS, bodyS]
  | ["rtresp", maxS, mode, codeS, hs, cs, chunksS, flushes, _kinds, _v10] => do
    let max ← maxS.toNat?
    let code ← codeS.toNat?
    let chunks ← (splitArg chunksS).mapM fromHex
    match buildHeaders (splitArg hs), buildCookies (splitArg cs) with
    | some headers, some cookies =>
      let m : Msg := { http10 := false, code := code, headers := headers, cookies := cookies }
      if mode == "send" then
        let r := sendFixed max m (chunks.headD [])
        match r.result with
        | .rejected => pure "unspecified"
        | .ok _ =>
          let d := parseWhole .response r.wire
          if d == "unspecified" then pure "unspecified" else pure s!"clientsees[ok {d}]"
      else
        let fl := (if flushes == "-" then [] else flushes.toList).map (· == 'f')
        if !withinCap max (batches m chunks fl) then pure "unspecified" else
        let d := parseWhole .response (streamBytes m chunks)
        if d == "unspecified" then pure "unspecified" else pure s!"clientsees[ok {d}]"
    | _, _ => pure "unspecified"
  | _ => none

/-- `rtrespc`: the response reaches the client in pieces: what the client sees does not depend on them -/
def roundTripCutOp : List String → Option String
  | "rtrespc" :: _cuts :: rest => roundTripOp ("rtresp" :: rest)
  | _ => none

end Drv
