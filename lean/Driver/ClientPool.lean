import PistacheModel.Model.ClientPool
import Driver.Util
open Pistache Pistache.ClientPool

namespace Drv

structure Beh where
  kind : Char
  ms : Nat := 0
  timeout : Nat := 0

def parseBeh (t : String) : Option Beh := do
  let parts := t.splitOn ":t"
  let main := parts.headD ""
  let k ← main.toList.head?
  let ms := (main.drop 1).toNat?.getD 0
  let to := match parts with | [_, x] => x.toNat?.getD 0 | _ => 0
  pure { kind := k, ms := ms, timeout := to }

/-- when does the request's fate arrive, counted from its dispatch: (delay, isTimeout); none = never -/
def fate (b : Beh) : Option (Nat × Bool) :=
  let answer : Option Nat := match b.kind with
    | 'N' => none
    | 'D' => some b.ms
    | 'B' => some 15
    | _ => some 1
  match answer, b.timeout with
  | some d, 0 => some (d, false)
  | some d, t => if d < t then some (d, false) else some (t, true)
  | none, 0 => none
  | none, t => some (t, true)

structure Sim where
  s : CState
  sched : List (Nat × Nat × Bool)      -- (time, request, isTimeout) still to happen
  scheduled : List Nat                 -- requests that have been given a fate
  now : Nat := 0                       -- time of the last event handled

def scheduleNew (behs : List Beh) (now : Nat) (sim : Sim) : Sim :=
  sim.s.conns.foldl (fun acc k => match k.cur with
    | some r => if acc.scheduled.contains r then acc else
        match fate (behs.getD r { kind := 'I' }) with
        | some (d, to) => { acc with sched := acc.sched ++ [(now + d, r, to)], scheduled := acc.scheduled ++ [r] }
        | none => { acc with scheduled := acc.scheduled ++ [r] }
    | none => acc) sim

def earliest : List (Nat × Nat × Bool) → Option (Nat × Nat × Bool)
  | [] => none
  | x :: xs => match earliest xs with
    | none => some x
    | some y => if x.1 ≤ y.1 then some x else some y

def simLoop (behs : List Beh) (limit : Nat) : Nat → Sim → Sim
  | 0, sim => sim
  | fuel + 1, sim =>
    match earliest sim.sched with
    | none => sim
    | some (t, r, isTo) =>
      if t > limit then sim else
      let rest := sim.sched.filter (fun e => e != (t, r, isTo))
      let ev : Option Ev := if isTo then some (.expire r) else
        (sim.s.conns.findIdx? (fun k => k.cur = some r)).map Ev.answer
      let s' := match ev with | some e => step true sim.s e | none => sim.s
      simLoop behs limit fuel (scheduleNew behs t { sim with s := s', sched := rest, now := t })

def clientOp : List String → Option String
  | ["cl", _threads, mS, settleS, behS] => do
    let m ← mS.toNat?
    let settle ← settleS.toNat?
    -- "/" separates batches: the next batch is issued when everything before it is settled
    let toks := behS.splitOn ","
    let behs ← (toks.filter (· != "/")).mapM parseBeh
    let n := behs.length
    -- the batches as lists of request indices
    let batches : List (List Nat) := Id.run do
      let mut out : List (List Nat) := []
      let mut cur : List Nat := []
      let mut i := 0
      for t in toks do
        if t == "/" then
          out := out ++ [cur]; cur := []
        else
          cur := cur ++ [i]; i := i + 1
      return out ++ [cur]
    -- a connection closed by the server right after an answer is outside the model unless nothing follows
    if (behs.dropLast.any fun b => b.kind == 'X') then pure "unspecified" else
    -- a batch is only issued after the earlier ones are settled: a request that never settles blocks the model's notion of time
    if batches.length > 1 && (behs.any fun b => b.kind == 'N' && b.timeout == 0) then pure "unspecified" else
    let sim := batches.foldl (fun (sim : Sim) batch =>
      let s1 := batch.foldl (fun s i => step true s (.issue i)) sim.s
      let sim1 := scheduleNew behs sim.now { sim with s := s1 }
      simLoop behs (sim.now + settle) (4 * n + 8) sim1) { s := init m, sched := [], scheduled := [] }
    let biggest := batches.foldl (fun a b => max a b.length) 0
    let results := (List.range n).map fun i =>
      match sim.s.log.find? (fun p => p.1 == i) with
      | some (_, .ok t) => s!"ok:answer-to:{t}"
      | some (_, .timeout) => "rej:timeout"
      | none => "pending"
    pure s!"results={",".intercalate results} peak={min m biggest}"
  | ["clp", _threads, _mS, _settleS, _app, behS] => do
    -- requests issued concurrently by several application threads; behaviours are restricted to answers that arrive (I, D<ms>):
    -- whatever the issue order, every request is fulfilled with its own answer and the connection limit holds
    let behs ← ((behS.splitOn ",").filter (· != "/")).mapM parseBeh
    if behs.any (fun b => !(b.kind == 'I' || b.kind == 'D') || b.timeout != 0) then pure "unspecified" else
    pure s!"results={",".intercalate ((List.range behs.length).map fun i => s!"ok:answer-to:{i}")} peak=ok"
  | _ => none

end Drv
