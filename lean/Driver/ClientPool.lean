import PistacheModel.Model.ClientPool
import Driver.Util
open Pistache Pistache.ClientPool

namespace Drv

structure Beh where
  kind : Char
  ms : Nat := 0
  timeout : Nat := 0

def parseBeh (t : String) : Option Beh := do
  let parts := t.splitOn ":t"
  let main := parts.headD ""
  let k ← main.toList.head?
  let ms := (main.drop 1).toNat?.getD 0
  let to := match parts with | [_, x] => x.toNat?.getD 0 | _ => 0
  pure { kind := k, ms := ms, timeout := to }

/-- when does the request's fate arrive, counted from its dispatch: (delay, isTimeout); none = never -/
def fate (b : Beh) : Option (Nat × Bool) :=
  let answer : Option Nat := match b.kind with
    | 'N' => none
    | 'D' => some b.ms
    | 'B' => some 15
    | _ => some 1
  match answer, b.timeout with
  | some d, 0 => some (d, false)
  | some d, t => if d < t then some (d, false) else some (t, true)
  | none, 0 => none
  | none, t => some (t, true)

structure Sim where
  s : CState
  sched : List (Nat × Nat × Bool)      -- (time, request, isTimeout) still to happen
  scheduled : List Nat                 -- requests that have been given a fate

def scheduleNew (behs : List Beh) (now : Nat) (sim : Sim) : Sim :=
  sim.s.conns.foldl (fun acc k => match k.cur with
    | some r => if acc.scheduled.contains r then acc else
        match fate (behs.getD r { kind := 'I' }) with
        | some (d, to) => { acc with sched := acc.sched ++ [(now + d, r, to)], scheduled := acc.scheduled ++ [r] }
        | none => { acc with scheduled := acc.scheduled ++ [r] }
    | none => acc) sim

def earliest : List (Nat × Nat × Bool) → Option (Nat × Nat × Bool)
  | [] => none
  | x :: xs => match earliest xs with
    | none => some x
    | some y => if x.1 ≤ y.1 then some x else some y

def simLoop (behs : List Beh) (limit : Nat) : Nat → Sim → Sim
  | 0, sim => sim
  | fuel + 1, sim =>
    match earliest sim.sched with
    | none => sim
    | some (t, r, isTo) =>
      if t > limit then sim else
      let rest := sim.sched.filter (fun e => e != (t, r, isTo))
      let ev : Option Ev := if isTo then some (.expire r) else
        (sim.s.conns.findIdx? (fun k => k.cur = some r)).map Ev.answer
      let s' := match ev with | some e => step true sim.s e | none => sim.s
      simLoop behs limit fuel (scheduleNew behs t { sim with s := s', sched := rest })

def clientOp : List String → Option String
  | ["cl", _threads, mS, settleS, behS] => do
    let m ← mS.toNat?
    let settle ← settleS.toNat?
    let behs ← (behS.splitOn ",").mapM parseBeh
    let n := behs.length
    -- a connection closed by the server right after an answer is outside the model unless nothing follows
    if (behs.dropLast.any fun b => b.kind == 'X') then pure "unspecified" else
    let s0 := (List.range n).foldl (fun s i => step true s (.issue i)) (init m)
    let sim0 := scheduleNew behs 0 { s := s0, sched := [], scheduled := [] }
    let sim := simLoop behs settle (4 * n + 8) sim0
    let results := (List.range n).map fun i =>
      match sim.s.log.find? (fun p => p.1 == i) with
      | some (_, .ok t) => s!"ok:answer-to:{t}"
      | some (_, .timeout) => "rej:timeout"
      | none => "pending"
    pure s!"results={",".intercalate results} peak={min m n}"
  | _ => none

end Drv
