import PistacheModel.Model.Serve
import Driver.Util
import Driver.Mime
import PistacheModel.Generated.Tables
open Pistache Pistache.Router Pistache.Serve

namespace Drv

def methodIndex (text : String) : Option Nat := Pistache.Gen.httpMethods.findIdx? (fun p => p.2 == text)
def methodText' (i : Nat) : String := (Pistache.Gen.httpMethods.getD i ("?", "?")).2

/-- the routes of harness/drv_mt.cc `setupRoutes` -/
def scenarioTables : Option Tables := do
  let get ← methodIndex "GET"; let post ← methodIndex "POST"; let put ← methodIndex "PUT"; let del ← methodIndex "DELETE"
  let add (n : Node) (p : String) (h : Nat) : Option Node := match addRoute n (bytes p) h with | .ok t => some t | .error _ => none
  let g1 ← add [] "/echo/:tag" 1
  let g2 ← add g1 "/only-get/:tag" 2
  let p1 ← add [] "/echo/:tag" 3
  let u1 ← add [] "/p/:tag" 4
  let d1 ← add [] "/d/:tag" 5
  pure [(get, g2), (post, p1), (put, u1), (del, d1)]

def routeAnswer (mtxt hp : String) (notFoundBody : String) : Option String := do
    let m ← methodIndex mtxt
    let path ← fromHex hp
    let t ← scenarioTables
    let (t', a) := route false t m path
    let tail := s!" tables={t'.length}"
    match a with
    | .handled _ params _ =>
      let tag := (params.find? (fun p => p.1 == bytes ":tag")).map (·.2) |>.getD []
      pure (s!"200 body={toHex (bytes mtxt ++ [58] ++ tag)}" ++ tail)
    | .notAllowed ms =>
      let names := sortStrs (ms.map methodText')
      pure (s!"405 body={toHex (bytes "Method Not Allowed")} allow={"+".intercalate names}" ++ tail)
    | .notFound => pure (s!"404 body={toHex (bytes notFoundBody)}" ++ tail)

/-- the routes of harness/drv_mt.cc `opRouteAll`: every method has a route of its own, HEAD and TRACE share one, GET and HEAD share
    one, all nine share one -/
def allMethodTables : Option Tables := do
  let add (n : Node) (p : String) (h : Nat) : Option Node := match addRoute n (bytes p) h with | .ok t => some t | .error _ => none
  ["OPTIONS", "GET", "POST", "HEAD", "PUT", "PATCH", "DELETE", "TRACE", "CONNECT"].mapM fun mt => do
    let mi ← methodIndex mt
    let n1 ← add [] ("/one/" ++ mt.toLower ++ "/:tag") 1
    let n2 ← if mt == "HEAD" || mt == "TRACE" then add n1 "/ht/:tag" 2 else some n1
    let n3 ← if mt == "GET" || mt == "HEAD" then add n2 "/gh/:tag" 3 else some n2
    let n4 ← add n3 "/all/:tag" 4
    pure (mi, n4)

def routeAllAnswer (mtxt hp : String) : Option String := do
    let m ← methodIndex mtxt
    let path ← fromHex hp
    let t ← allMethodTables
    let (_, a) := route false t m path
    match a with
    | .handled _ params _ =>
      let tag := (params.find? (fun p => p.1 == bytes ":tag")).map (·.2) |>.getD []
      pure s!"200 body={toHex (bytes mtxt ++ [58] ++ tag)}"
    | .notAllowed ms =>
      let names := sortStrs (ms.map methodText')
      pure s!"405 body={toHex (bytes "Method Not Allowed")} allow={"+".intercalate names}"
    | .notFound => pure s!"404 body={toHex (bytes "Could not find a matching route")}"

/-- the accessor routes of harness/drv_mt.cc `opRouteP` -/
def accessorTable : Option Node := do
  let add (n : Node) (p : String) (h : Nat) : Option Node := match addRoute n (bytes p) h with | .ok t => some t | .error _ => none
  let t1 ← add [] "/u/:idx/:id/*/*" 1
  add t1 "/w/:name" 2

def str (b : List Nat) : String := String.ofList (b.map Char.ofNat)

def serveOp : List String → Option String
  | ["routep", hp] => do
    let path ← fromHex hp
    let t ← accessorTable
    match lookup false t path with
    | none => pure s!"404 body={toHex (bytes "Could not find a matching route")}"
    | some f =>
      -- Request::param(name) / hasParam(name): the binding whose name EQUALS the asked one; splat(): the wildcard bindings in path order
      let par (n : String) : List Nat := ((f.params.find? (fun p => p.1 == bytes n)).map (·.2)).getD []
      let has (n : String) : String := if f.params.any (fun p => p.1 == bytes n) then "1" else "0"
      if f.handler == 1 then
        let b := s!"idx={str (par ":idx")} id={str (par ":id")} hid={has ":id"} hi={has ":i"} hidx={has ":idx"} n={f.splats.length} s0={str (f.splats.getD 0 [])} s1={str (f.splats.getD 1 [])}"
        pure s!"200 body={toHex (bytes b)}"
      else
        let b := s!"name={str (par ":name")} hn={has ":n"} hname={has ":name"}"
        pure s!"200 body={toHex (bytes b)}"
  -- a custom not-found handler only replaces the default 404 answer: the 405 decision comes first
  | ["routenf", mtxt, hp] => routeAnswer mtxt hp "custom-nf"
  | ["routeall", mtxt, hp] => routeAllAnswer mtxt hp
  | ["route", mtxt, hp] => do
    let m ← methodIndex mtxt
    let path ← fromHex hp
    let t ← scenarioTables
    let (t', a) := route false t m path
    let tail := s!" tables={t'.length}"
    match a with
    | .handled _ params _ =>
      let tag := (params.find? (fun p => p.1 == bytes ":tag")).map (·.2) |>.getD []
      pure (s!"200 body={toHex (bytes mtxt ++ [58] ++ tag)}" ++ tail)
    | .notAllowed ms =>
      let names := sortStrs (ms.map methodText')
      pure (s!"405 body={toHex (bytes "Method Not Allowed")} allow={"+".intercalate names}" ++ tail)
    | .notFound => pure (s!"404 body={toHex (bytes "Could not find a matching route")}" ++ tail)
  | ["mt", _w, cS, rS, _sd, _seed] => do
    let c ← cS.toNat?; let r ← rS.toNat?
    let t ← scenarioTables
    pure s!"total={c * r} answered=all-own bad=0 shutdown=ok acceptor=stopped sdthreads=0 threads=0 tables={t.length} sharedcopies=0"
  | _ => none

end Drv
