import PistacheModel.Model.Cookie
import PistacheModel.Model.Date
import Driver.Util
import Driver.Mime
open Pistache Pistache.Cookie

namespace Drv

def optHexS : Option (List Nat) → String | some b => toHex b | none => "~"

def dumpCookie (c : Cookie.Cookie) : String :=
  let ext := if c.ext.isEmpty then "-" else ",".intercalate (c.ext.map fun p => toHex p.1 ++ ":" ++ toHex p.2)
  s!"name={toHex c.name} value={toHex c.value} path={optHexS c.path} domain={optHexS c.domain} maxage={match c.maxAge with | some n => toString n | none => "~"} expires={match c.expires with | none => "~" | some e => (match Date.parseCanon e with | some t => toString t | none => "?")} secure={if c.secure then 1 else 0} httponly={if c.httpOnly then 1 else 0} ext={ext}"

/-- an Expires text outside the canonical date form is outside the model -/
def expiresKnown (c : Cookie.Cookie) : Bool := match c.expires with | none => true | some e => (Date.parseCanon e).isSome

def cerr : CErr → String
  | .runtime => "err EXC:runtime_error"
  | .invalidArg => "err EXC:invalid_argument"
  | .unspec => "unspecified"

def argOptB (s : String) : Option (Option (List Nat)) := if s == "~" then some none else (fromHex s).map some

def parseExtArg (s : String) : Option (List (List Nat × List Nat)) :=
  if s == "-" then some [] else
  (s.splitOn ",").mapM fun kv => match kv.splitOn ":" with
    | [k, v] => do pure ((← fromHex k), (← fromHex v))
    | _ => none

def pairKey (c : Cookie.Cookie) : String := toHex c.name ++ ":" ++ toHex c.value

def cookieOp : List String → Option String
  | ["cookie", h] => do
    let s ← fromHex h
    match fromRaw s with
    | .error e => pure (cerr e)
    | .ok c => if !expiresKnown c then pure "unspecified" else pure ("ok " ++ dumpCookie c)
  | ["cookiew", n, v, p, d, ma, ex, sec, ho, ext] => do
    let exT : Option Nat := if ex == "~" then none else ex.toNat?
    if ex != "~" && !(match exT with | some t => decide (t < 9223372036) | none => false) then pure "unspecified" else
    let exts ← parseExtArg ext
    let nm ← fromHex n
    let vl ← fromHex v
    let pth ← argOptB p
    let dom ← argOptB d
    let ma' : Option Nat := if ma == "~" then none else ma.toNat?
    let secB : Bool := sec == "1"
    let hoB : Bool := ho == "1"
    let extM := exts.foldl (fun m kv => mapInsert m kv.1 kv.2) []
    let c : Cookie.Cookie := { name := nm, value := vl, path := pth, domain := dom, maxAge := ma', expires := exT.map Date.write,
                               secure := secB, httpOnly := hoB, ext := extM }
    let w1 := write c
    match fromRaw w1 with
    | .error .unspec => pure "unspecified"
    | .error e => pure s!"w={toHex w1} orig=[{dumpCookie c}] back={cerr e}"
    | .ok b => if !expiresKnown b then pure "unspecified" else
      pure s!"w={toHex w1} orig=[{dumpCookie c}] back=[{dumpCookie b}] w2={toHex (write b)}"
  | "jar" :: hs => do
    let vals ← hs.mapM fromHex
    let r := vals.foldl (fun (acc : Except CErr Jar) s => match acc with | .ok j => addFromRaw s j | .error e => .error e) (.ok [])
    match r with
    | .error e => pure (cerr e)
    | .ok j =>
      let buckets := j.map (fun b => b.2.map (·.2))
      let total := (jarCookies j).length
      let visited := (itCollect buckets (total + 1) itBegin).map fun o => match o with | some c => pairKey c | none => "INVALID"
      let sorted := sortStrs visited
      let joined := if sorted.isEmpty then "-" else ",".intercalate sorted
      -- has/get answer from the same buckets the iteration walks: every stored name is found, no other
      pure s!"ok n={visited.length} pre={joined} post={joined} lookup=ok"
  | _ => none

end Drv
