import PistacheModel.Model.EventLoop
import PistacheModel.Model.WriteInterest
import Driver.Util
import Driver.WriteQueue
open Pistache Pistache.WriteQueue Pistache.EventLoop

namespace Drv

/-- write interest while `nw` writes are queued on a full socket, and after the peer made room for all and the writable event
    was handled (Model/WriteInterest.lean) -/
def wintOf (nw : Nat) : String :=
  let evs : List WriteInterest.Ev := [.room 3] ++ (List.range nw).map fun i => WriteInterest.Ev.enqueue i (patternData i 8) true
  let c1 := WriteInterest.run {} evs {}
  let c2 := WriteInterest.run {} [.room (8 * nw + 8), .writable] c1
  (if c1.armed then "1" else "0") ++ (if c2.armed then "1" else "0")

def stallOp : List String → Option String
  | ["stall", nwS, sizeS, hold, nbS, sec] => do
    -- a second batch asked for while the first is still blocked: the same writes again, delivered after the first
    let base ← stallOp ["stall", nwS, sizeS, hold, nbS]
    -- "2": a third, established connection asks while the worker is busy, just before the blocked one becomes writable: it is
    -- answered and the blocked connection is drained all the same
    if sec == "2" then pure (base ++ " c=1") else
    -- "3": a small send buffer on the stalled connection: many would-blocks per entry, the outcome is the same
    if sec == "3" then pure base else
    if sec != "1" then pure base else
    let nw ← nwS.toNat?
    let size ← sizeS.toNat?
    let l0 : Loop := [{}]
    let l1 := runLoop l0 ([Ev.block 0] ++ ((List.range nw).map fun i => Ev.queued 0 i (patternData i 8)) ++
      ((List.range nw).map fun i => Ev.queued 0 (nw + i) (patternData i 8)) ++ [Ev.unblock 0, Ev.writable 0])
    let a := l1.getD 0 {}
    let ok := a.w.queue.isEmpty && a.w.settled.length == 2 * nw
    let proms := (List.range (2 * nw)).map fun _ => s!"ok:{size}"
    let head := (base.splitOn " recv=").headD ""
    pure s!"{head} recv={if ok then 2 * nw * size else 0} match={if ok then "1" else "0"} promises={",".intercalate proms} wint={wintOf (2 * nw)}"
  | ["stall", nwS, sizeS, _hold, nbS] => do
    let nw ← nwS.toNat?
    let size ← sizeS.toNat?
    let nb ← nbS.toNat?
    -- sizes are large in the live scenario; the model works with the same number of writes of a scaled-down size
    let msize := min size 64
    let l0 : Loop := [{}, {}]
    let l1 := runLoop l0 ([Ev.block 0] ++ (List.range nw).map fun i => Ev.queued 0 i (patternData i msize))
    let a1 := (l1.getD 0 {}).attempts
    let l2 := runLoop l1 ((List.range nb).map fun i => Ev.request 1 i [79, 75])
    let during := (l2.getD 0 {}).attempts - a1
    let l3 := runLoop l2 [Ev.unblock 0, Ev.writable 0]
    let a := l3.getD 0 {}
    let b := l3.getD 1 {}
    let expected := ((List.range nw).map fun i => patternData i msize).flatten
    let ok := a.w.wire == expected && a.w.queue.isEmpty
    let proms := (List.range nw).map fun i => match a.w.settled.find? (fun p => p.1 == i) with
      | some p => if p.2 == msize then s!"ok:{size}" else s!"ok:{p.2}"
      | none => "pending"
    pure s!"banswered={b.w.settled.length} bworst=fast attempts={if during ≤ 50 then "few" else "many"} recv={if ok then nw * size else a.w.wire.length} match={if ok then "1" else "0"} promises={",".intercalate proms} wint={wintOf nw}"
  | _ => none

end Drv
