import PistacheModel.Model.Lifecycle
import PistacheModel.Model.LifecycleTables
import Driver.Util
open Pistache Pistache.Lifecycle

namespace Drv

structure LRun where
  s : LState := {}
  open_ : List Bool            -- client side still open
  seen : List String
  tevs : List TEv := []        -- the same history for the tables model (with the writes queued / completed)

/-- a handler-level event, also recorded for the tables model -/
def LRun.ev (r : LRun) (e : Ev) : LRun := { r with s := step r.s e, tevs := r.tevs ++ [.base e] }
def LRun.tev (r : LRun) (e : TEv) : LRun := { r with tevs := r.tevs ++ [e] }

def collapse : List Call → String
  | [] => ""
  | .conn :: r => "C" ++ collapse r
  | .disc :: r => "D" ++ collapse r
  | .input :: .input :: r => collapse (.input :: r)
  | .input :: r => "I" ++ collapse r

def lifeRound (scripts : List (List Char)) (r : LRun) (j : Nat) : LRun := Id.run do
  let mut r := r
  let mut waitT := false
  for i in [0:scripts.length] do
    let sc := scripts.getD i []
    if j < sc.length && r.open_.getD i false then
      let a := sc.getD j ' '
      if a == 'R' then
        -- request, answer queued and written out
        r := { ((r.ev (.data i)).tev (.queueWrite i)).tev (.drained i) with seen := r.seen.modify i (· ++ "200;") }
      else if a == 'P' then r := r.ev (.data i)
      else if a == 'B' then r := (r.ev (.data i)).tev (.queueWrite i)        -- the answer stays blocked in the write queue
      else if a == 'Z' then
        -- a request, then silence until the server expires the connection (the 408 follows the blocked answer), then the close
        r := { ((r.ev (.data i)).tev (.queueWrite i)).ev (.expire i) with seen := r.seen.modify i (· ++ "200+408!;"), open_ := r.open_.set i false }
      else if a == 'A' then r := { (r.ev (.data i)).ev (.gone i) with open_ := r.open_.set i false }
      else if a == 'S' || a == 's' then
        -- the request is handled; both flushes of the streamed answer fail (the client is gone); then the read side sees the loss
        r := { ((((r.ev (.data i)).tev (.queueWrite i)).ev (.writeFail i)).ev (.writeFail i)).ev (.gone i) with open_ := r.open_.set i false }
      else if a == 'E' then
        -- the idle time-out and the client's close are noticed together: whichever is handled first releases the connection, the
        -- other finds it gone
        r := { (r.ev (.expire i)).ev (.gone i) with open_ := r.open_.set i false }
      else if a == 'C' || a == 'H' || a == 'X' then
        r := { r.ev (.gone i) with open_ := r.open_.set i false }
      else if a == 'T' then waitT := true
      else pure ()
  if waitT then
    -- every registered connection has been idle for longer than the time-out plus a timer period
    for i in r.s.peers do
      r := r.ev (.expire i)
    for i in [0:scripts.length] do
      let sc := scripts.getD i []
      if j < sc.length && sc.getD j ' ' == 'T' && r.open_.getD i false then
        r := { r with seen := r.seen.modify i (· ++ "408!;"), open_ := r.open_.set i false }
  return r

def lifeOp : List String → Option String
  | ["life", _hdr, _threads, scriptsS] => do
    let scripts := (scriptsS.splitOn ",").map String.toList
    let n := scripts.length
    let r00 : LRun := { open_ := List.replicate n true, seen := List.replicate n "" }
    let r0 := (List.range n).foldl (fun (r : LRun) i => r.ev (.accept i)) r00
    let maxlen := scripts.foldl (fun m sc => max m sc.length) 0
    let r1 := (List.range maxlen).foldl (lifeRound scripts) r0
    -- the harness closes what is still open
    let r2 := (List.range n).foldl (fun (r : LRun) i => if r1.open_.getD i false then r.ev (.gone i) else r) r1
    let s2 := r2.s
    let t2 := trun r2.tevs
    let parts := (List.range n).map fun i =>
      let shape := collapse (callsOf s2 i)
      let sn := r1.seen.getD i ""
      (if shape.isEmpty then "-" else shape) ++ "/" ++ (if sn.isEmpty then "-" else sn)
    pure s!"conns={",".intercalate parts} fds={t2.fds.length} serve=1 tables={t2.base.peers.length}/{t2.toWrite.length}/{t2.timers.length}"
  | _ => none

end Drv
