import PistacheModel.Model.Lifecycle
import Driver.Util
open Pistache Pistache.Lifecycle

namespace Drv

structure LRun where
  s : LState := {}
  open_ : List Bool            -- client side still open
  seen : List String

def collapse : List Call → String
  | [] => ""
  | .conn :: r => "C" ++ collapse r
  | .disc :: r => "D" ++ collapse r
  | .input :: .input :: r => collapse (.input :: r)
  | .input :: r => "I" ++ collapse r

def lifeRound (scripts : List (List Char)) (r : LRun) (j : Nat) : LRun := Id.run do
  let mut r := r
  let mut waitT := false
  for i in [0:scripts.length] do
    let sc := scripts.getD i []
    if j < sc.length && r.open_.getD i false then
      let a := sc.getD j ' '
      if a == 'R' then
        r := { r with s := step r.s (.data i), seen := r.seen.modify i (· ++ "200;") }
      else if a == 'P' || a == 'B' then r := { r with s := step r.s (.data i) }
      else if a == 'Z' then
        -- a request, then silence until the server expires the connection (the 408 follows the blocked answer), then the close
        r := { r with s := step (step r.s (.data i)) (.expire i), seen := r.seen.modify i (· ++ "200+408!;"), open_ := r.open_.set i false }
      else if a == 'A' then r := { r with s := step (step r.s (.data i)) (.gone i), open_ := r.open_.set i false }
      else if a == 'S' || a == 's' then
        -- the request is handled; both flushes of the streamed answer fail (the client is gone); then the read side sees the loss
        r := { r with s := step (step (step (step r.s (.data i)) (.writeFail i)) (.writeFail i)) (.gone i), open_ := r.open_.set i false }
      else if a == 'C' || a == 'H' || a == 'X' then
        r := { r with s := step r.s (.gone i), open_ := r.open_.set i false }
      else if a == 'T' then waitT := true
      else pure ()
  if waitT then
    -- every registered connection has been idle for longer than the time-out plus a timer period
    for i in r.s.peers do
      r := { r with s := step r.s (.expire i) }
    for i in [0:scripts.length] do
      let sc := scripts.getD i []
      if j < sc.length && sc.getD j ' ' == 'T' && r.open_.getD i false then
        r := { r with seen := r.seen.modify i (· ++ "408!;"), open_ := r.open_.set i false }
  return r

def lifeOp : List String → Option String
  | ["life", _hdr, _threads, scriptsS] => do
    let scripts := (scriptsS.splitOn ",").map String.toList
    let n := scripts.length
    let s0 := (List.range n).foldl (fun s i => step s (.accept i)) ({} : LState)
    let r0 : LRun := { s := s0, open_ := List.replicate n true, seen := List.replicate n "" }
    let maxlen := scripts.foldl (fun m sc => max m sc.length) 0
    let r1 := (List.range maxlen).foldl (lifeRound scripts) r0
    -- the harness closes what is still open
    let s2 := (List.range n).foldl (fun s i => if r1.open_.getD i false then step s (.gone i) else s) r1.s
    let parts := (List.range n).map fun i =>
      let shape := collapse (callsOf s2 i)
      let sn := r1.seen.getD i ""
      (if shape.isEmpty then "-" else shape) ++ "/" ++ (if sn.isEmpty then "-" else sn)
    pure s!"conns={",".intercalate parts} fds={s2.peers.length} serve=1"
  | _ => none

end Drv
