import PistacheModel.Model.Shutdown
import Driver.Util
open Pistache Pistache.Shutdown

namespace Drv

def sdToken (n : Nat) (t : String) : Option Actor :=
  if t == "A" then some .acc
  else if t == "F" then some .accF
  else if t == "S" then some .caller
  else match t.toList with
    | 'W' :: ds => (String.ofList ds).toNat?.bind fun j => if j < n then some (.w j) else none
    | 'c' :: ds => (String.ofList ds).toNat?.bind fun j => if j < n then some (.conn j) else none
    | _ => none

def sdAllExited (s : St) : Bool :=
  s.acc.pc == .exited && (List.range s.n).all fun j => (s.ws j).pc == .exited

/-- every thread is released: the caller finishes, then acceptor and workers run round-robin -/
def sdFinish (s : St) : St :=
  let s1 := (List.replicate (2 * s.n + 3) Actor.caller).foldl (step {}) s
  let round : List Actor := .acc :: (List.range s.n).map Actor.w
  (List.replicate 4 round).flatten.foldl (step {}) s1

def shutdownOp : List String → Option String
  | "sd" :: nS :: toks => do
    let n ← nS.toNat?
    if n < 1 || n > 8 then none
    let acts ← toks.mapM (sdToken n)
    let r := acts.foldl (fun (p : St × List String) a => let q := stepL {} p.1 a; (q.1, q.2 :: p.2)) (init n, [])
    let fin := sdFinish r.1
    let tail := if sdAllExited fin && fin.caller == .done then "final=clean" else "final=stuck"
    pure (joinSp (r.2.reverse ++ [tail]))
  | _ => none

end Drv
