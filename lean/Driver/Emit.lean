import PistacheModel.Model.Emit
import PistacheModel.Model.Cookie
import Driver.Util
import Driver.Headers
open Pistache Pistache.Emit

namespace Drv

def bytesLe (a b : List Nat) : Bool := !(Cookie.bytesLt b a)

def insertSorted (x : List Nat) : List (List Nat) → List (List Nat)
  | [] => [x]
  | y :: ys => if bytesLe x y then x :: y :: ys else y :: insertSorted x ys

def sortBytes (l : List (List Nat)) : List (List Nat) := l.foldr insertSorted []

def hexListOrDash (l : List (List Nat)) : String := if l.isEmpty then "-" else ",".intercalate (l.map toHex)

def stripCrlf (b : List Nat) : List Nat := b.take (b.length - 2)

def splitArg (s : String) : List String := if s == "-" then [] else s.splitOn ","

/-- parse the header spec through the typed-header models; `none` = outside the model -/
def buildHeaders (specs : List String) : Option (List (List Nat × List Nat)) := do
  let mut acc : List (String × List Nat) := [("Connection", bytes "Close")]     -- added by the server before the handler runs
  for sp in specs do
    match sp.splitOn "=" with
    | [name, hv] =>
      let v ← fromHex hv
      let cn ← canonName name
      match hdrParseCanon cn v with
      | some (.ok (_, w)) => if acc.any (fun p => p.1 == cn) then pure () else acc := acc ++ [(cn, w)]
      | _ => none
    | _ => none
  pure (acc.map fun p => (bytes p.1, p.2))

def buildCookies (specs : List String) : Option (List (List Nat)) := do
  let mut jar : Cookie.Jar := []
  for sp in specs do
    let raw ← fromHex sp
    match Cookie.fromRaw raw with
    | .ok c => if c.expires.isSome then none else jar := Cookie.jarAdd jar c
    | .error _ => none
  pure ((Cookie.jarCookies jar).map Cookie.write)

def canonOut (statusL : List Nat) (lines : List (List Nat)) (body : List Nat) (total : Nat) : String :=
  s!"status={toHex statusL} headers={hexListOrDash (sortBytes lines)} body={toHex body} total={total}"

def emitOp : List String → Option String
  | ["resp", maxS, mode, codeS, hs, cs, chunksS, flushes, kinds, v10] => do
    let max ← maxS.toNat?
    let code ← codeS.toNat?
    let chunks ← (splitArg chunksS).mapM fromHex
    match buildHeaders (splitArg hs), buildCookies (splitArg cs) with
    | some headers, some cookies =>
      let m : Msg := { http10 := v10 == "1", code := code, headers := headers, cookies := cookies }
      let st := stripCrlf (statusLine m.http10 m.code)
      if mode == "file" then
        -- Http::serveFile: always 200; the Content-Type is the one guessed from the file name (.bin), also over a handler-set one
        let ct : List Nat × List Nat := (bytes "Content-Type", bytes "application/octet-stream")
        let hs := if m.headers.any (fun h => h.1 == bytes "Content-Type") then m.headers.map (fun h => if h.1 == bytes "Content-Type" then ct else h) else m.headers ++ [ct]
        let m2 : Msg := { m with code := 200, headers := hs }
        let body := chunks.headD []
        let r := sendFixed max m2 body
        match r.result with
        | .rejected => pure "nohead raw=- send=rej:Response exceeded buffer size size=0 herr=-"
        | .ok _ =>
          let lines := (m2.headers.map headerLine ++ m2.cookies.map cookieLine ++ [headerLine (bytes "Content-Length", Num.natToDec body.length)]).map stripCrlf
          pure (canonOut (stripCrlf (statusLine m2.http10 200)) lines body r.wire.length ++ s!" send=ok:{body.length} size=0 herr=-")
      else if mode == "send" then
        let body := chunks.headD []
        let r := sendFixed max m body
        match r.result with
        | .rejected => pure "nohead raw=- send=rej:Response exceeded buffer size size=0 herr=-"
        | .ok n =>
          let lines := (m.headers.map headerLine ++ m.cookies.map cookieLine ++ [headerLine (bytes "Content-Length", Num.natToDec body.length)]).map stripCrlf
          pure (canonOut st lines body r.wire.length ++ s!" send=ok:{n} size={r.size} herr=-")
      else if mode == "stream" then
        let fl := (if flushes == "-" then [] else flushes.toList).map (· == 'f')
        let _ := kinds
        if !withinCap max (batches m chunks fl) then pure "unspecified" else
        let lines := (m.cookies.map cookieLine ++ m.headers.map headerLine ++ [headerLine (bytes "Transfer-Encoding", bytes "chunked")]).map stripCrlf
        let body := (chunks.map chunk).flatten ++ lastChunk
        pure (canonOut st lines body (streamBytes m chunks).length ++ " send=streamed size=-1 herr=-")
      else none
    | _, _ => pure "unspecified"
  | ["respslow", kbS] => do
    -- a fixed-length response is framed by its Content-Length whatever the socket does (fixed_framing); the write path delivers the
    -- buffer completely and in order under any pattern of would-blocks (C06 no_loss_no_dup_no_reorder, C07 bytes_complete_in_order)
    let kb ← kbS.toNat?
    pure s!"status=200 cl={kb * 1024} recv={kb * 1024} match=1"
  | _ => none

end Drv
