import PistacheModel.Model.Headers
import PistacheModel.Model.Date
import Driver.Util
import Driver.Mime
open Pistache Pistache.Headers

namespace Drv

def errCls : HErr → String
  | .runtime => "err EXC:runtime_error"
  | .invalidArg => "err EXC:invalid_argument"
  | .outOfRange => "err EXC:out_of_range"
  | .http c => s!"err {c}"
  | .unspec => "unspecified"

def dumpDirs (ds : List Directive) : String :=
  if ds.isEmpty then "cc -" else
  "cc " ++ ",".intercalate (ds.map fun d => d.kind ++ ":" ++ (match d.delta with | some v => toString v | none => "-"))

def connName : Conn → String | .close => "Close" | .keepAlive => "KeepAlive" | .ext => "Ext"

def dumpToks (ts : List (List Nat)) : String :=
  if ts.isEmpty then "srv -" else "srv " ++ ",".intercalate (ts.map toHex)

def verbatimNames : List String := ["Authorization", "Location", "User-Agent", "Access-Control-Allow-Origin",
  "Access-Control-Allow-Headers", "Access-Control-Expose-Headers", "Access-Control-Allow-Methods"]

/-- (dump, written form) of a parsed registered header; `none` = unregistered name -/
def canonName (name : String) : Option String :=
  (Gen.registeredHeaders.find? (fun p => p.2.toLower == name.toLower)).map (·.2)

def hdrParseCanon (name : String) (v : List Nat) : Option (Except HErr (String × List Nat)) :=
  if name == "Cache-Control" then some (match parseCacheControl v with
    | .ok ds => .ok (dumpDirs ds, writeCacheControl ds) | .error e => .error e)
  else if name == "Connection" then some (.ok (s!"conn {connName (parseConnection v)}", writeConnection (parseConnection v)))
  else if name == "Content-Encoding" || name == "Transfer-Encoding" then
    some (.ok (s!"enc {parseEncoding v}", writeEncoding (parseEncoding v)))
  else if name == "Content-Length" then some (match parseContentLength v with
    | .ok n => .ok (s!"cl {n}", Num.natToDec n) | .error e => .error e)
  else if name == "Host" then some (match parseHost v with
    | .ok h => .ok (s!"host {toHex h.host} {h.port}", writeHost h) | .error e => .error e)
  else if name == "Server" then some (.ok (dumpToks (parseServer v), writeServer (parseServer v)))
  else if name == "Expect" then some (.ok (s!"exp {if parseExpect v then 1 else 0}", writeExpect (parseExpect v)))
  else if verbatimNames.contains name then some (.ok (s!"v {toHex v}", v))
  else if name == "Content-Type" then some (match Mime.parse v with
    | .ok m => .ok ("ct " ++ mediaCanon m, v)
    | .error .unsupported => .error (.http 415)
    | .error _ => .error .unspec)
  else if name == "Accept" then some (match parseAccept v with
    | .ok ms => .ok (s!"acc {ms.length}" ++ String.join (ms.map fun m => " [" ++ mediaCanon m ++ "]"), [])
    | .error e => .error e)
  else if name == "Date" then some (match Date.parseCanon v with
    | some t => .ok (s!"date {t}", Date.write t)       -- the canonical form; RFC 850 / asctime / other zone names are outside the model
    | none => .error .unspec)
  else if name == "Allow" then some (.ok ("allow", []))
  else none

/-- the registry is keyed case-insensitively -/
def hdrParse (name : String) (v : List Nat) : Option (Except HErr (String × List Nat)) :=
  match canonName name with
  | some n => hdrParseCanon n v
  | none => none

def parseDirsArg (s : String) : Option (List Directive) :=
  if s == "-" then some [] else
  (s.splitOn ",").mapM fun it =>
    match it.splitOn ":" with
    | [k, d] => if d == "-" then some { kind := k, delta := none } else d.toInt?.map fun v => { kind := k, delta := some v }
    | _ => none

def isTimed (k : String) : Bool := Gen.cacheHasDelta.contains k

/-- API value → (written text, dump of the original) -/
def hdrBuild (name : String) (args : List String) : Option (List Nat × String) :=
  match name, args with
  | "Cache-Control", [a] => do
    let ds ← parseDirsArg a
    -- the API stores a delta only for timed directives (0 when none was given)
    let ds' := ds.map fun d => if isTimed d.kind then { d with delta := some (d.delta.getD 0) } else { d with delta := none }
    pure (writeCacheControl ds', dumpDirs ds')
  | "Connection", [a] =>
    let c := if a == "Close" then Conn.close else if a == "KeepAlive" then Conn.keepAlive else Conn.ext
    some (writeConnection c, s!"conn {connName c}")
  | "Content-Encoding", [a] => some (writeEncoding a, s!"enc {a}")
  | "Transfer-Encoding", [a] => some (writeEncoding a, s!"enc {a}")
  | "Content-Length", [a] => do let n ← a.toNat?; pure (Num.natToDec n, s!"cl {n}")
  | "Host", [h, p] => do
    let hs ← fromHex h; let pn ← p.toNat?
    pure (writeHost { host := hs, port := pn }, s!"host {toHex hs} {pn}")
  | "Server", [a] => do
    let ts ← if a == "-" then some [] else (a.splitOn ",").mapM fromHex
    pure (writeServer ts, dumpToks ts)
  | "Expect", [a] => some (writeExpect (a == "1"), s!"exp {if a == "1" then 1 else 0}")
  | "Date", [a] => do
    let t ← a.toNat?
    if t < 9223372036 then pure (Date.write t, s!"date {t}") else none     -- what a nanosecond system_clock::time_point can hold (the theorem covers all four-digit years)
  | "Content-Type", [a] => do
    let v ← fromHex a
    if v.head? == some 64 then
      -- '@': built through the API from the parsed value's type, subtype, suffix and quality (known table entries only)
      match Mime.parse (v.drop 1) with
      | .ok m =>
        match m.sub, m.suffix with
        | .known i, .none => pure (Mime.render m.top i none m.q [], "ct " ++ mediaCanon { m with params := [] })
        | .known i, .known j => pure (Mime.render m.top i (some j) m.q [], "ct " ++ mediaCanon { m with params := [] })
        | _, _ => none
      | _ => none
    else
    match Mime.parse v with
    | .ok m => pure (v, "ct " ++ mediaCanon m)
    | _ => none
  | n, [a] => if verbatimNames.contains n then do let v ← fromHex a; pure (v, s!"v {toHex v}") else none
  | _, _ => none

def headersOp : List String → Option String
  | ["hdr", name, hv] => do
    let v ← fromHex hv
    match hdrParse name v with
    | none => pure "unregistered"
    | some (.error e) => pure (errCls e)
    | some (.ok (dump, w)) => pure s!"ok {dump} | w={toHex w}"
  | "hdrw" :: name :: args =>
    match hdrBuild name args with
    | none => some "unspecified"
    | some (w1, orig) =>
      match hdrParse name w1 with
      | none => some "bad-op"
      | some (.error .unspec) => some "unspecified"
      | some (.error e) => some s!"w={toHex w1} orig=[{orig}] back={errCls e}"
      | some (.ok (dump, w2)) => some s!"w={toHex w1} orig=[{orig}] back=[{dump}] w2={toHex w2}"
  | _ => none

end Drv
