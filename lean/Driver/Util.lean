/- line-protocol helpers shared by all model drivers -/
namespace Drv

def hexDigit (n : Nat) : Char := if n < 10 then Char.ofNat (48 + n) else Char.ofNat (87 + n)

def toHex (bs : List Nat) : String :=
  if bs.isEmpty then "-" else
  String.ofList (bs.flatMap fun b => [hexDigit (b / 16 % 16), hexDigit (b % 16)])

def hexVal (c : Char) : Option Nat :=
  let n := c.toNat
  if 48 ≤ n ∧ n ≤ 57 then some (n - 48)
  else if 97 ≤ n ∧ n ≤ 102 then some (n - 87)
  else if 65 ≤ n ∧ n ≤ 70 then some (n - 55)
  else none

def fromHexAux : List Char → List Nat → Option (List Nat)
  | [], acc => some acc.reverse
  | [_], _ => none
  | a :: b :: rest, acc =>
    match hexVal a, hexVal b with
    | some x, some y => fromHexAux rest ((x * 16 + y) :: acc)
    | _, _ => none

def fromHex (s : String) : Option (List Nat) :=
  if s == "-" then some [] else fromHexAux s.toList []

def words (line : String) : List String :=
  (line.trimAscii.toString.splitOn " ").filter (· ≠ "")

def joinSp (xs : List String) : String := " ".intercalate xs

end Drv
