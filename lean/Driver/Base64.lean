import PistacheModel.Model.Base64
import Driver.Util
open Pistache Pistache.Base64 Pistache.Gen

namespace Drv

def errName : Err → String
  | .tooShort => "runtime_error"
  | .notMult4 => "runtime_error"
  | .range => "out_of_range"

def basicErrName : BasicErr → String
  | .notBasic => "runtime_error"
  | .b64 e => errName e

def base64Op : List String → Option String
  | ["b64e", h] => do
    let bs ← fromHex h
    pure (toHex (encode bs))
  | ["b64d", h] => do
    let s ← fromHex h
    match decode s with
    | .ok d => pure s!"ok {toHex d}"
    | .error e => pure s!"err {errName e}"
  | ["basic", hu, hp] => do
    let u ← fromHex hu
    let p ← fromHex hp
    if u.contains 58 then pure "err runtime_error" else
    let v := setBasic u p
    match getBasicUser v, getBasicPassword v with
    | .ok a, .ok b => pure s!"ok {toHex v} {toHex a} {toHex b}"
    | .error e, _ => pure s!"err {basicErrName e}"
    | _, .error e => pure s!"err {basicErrName e}"
  | ["basicget", hv] => do
    let v ← fromHex hv
    match getBasicUser v, getBasicPassword v with
    | .ok a, .ok b => pure s!"ok {toHex a} {toHex b}"
    | .error e, _ => pure s!"err {basicErrName e}"
    | _, .error e => pure s!"err {basicErrName e}"
  | ["leaf", "eb", n] => do pure (toString (encodeByte ((← n.toNat?) % 64)))  -- the harness can only observe sextets
  | ["leaf", "dc", n] => do pure (toString (decodeChar (← n.toNat?)))
  | ["leaf", "es", n] => do pure (toString (encodedSize (← n.toNat?)))
  | _ => none

end Drv
