import PistacheModel.Model.Basic
import PistacheModel.Model.Base64
import PistacheModel.Lemmas.Base64
import PistacheModel.Props.C20
